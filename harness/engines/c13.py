"""C13 — a modification that raises leaves the session exactly as it was.

Real side: random schemas (1-4 entities; explicit or auto primary keys; int attributes, some unique, composite keys;
one-to-one / many-to-one / many-to-many / symmetric relationships with Required / cascade_delete options) are turned into
real entity classes on a fresh in-memory SQLite database; a random history of calls (create, attribute assignment,
obj.set(**kw), collection assign / add / remove / clear, delete, flush), 40-50 % of them chosen to fail, runs on real Pony
inside one db_session.

Property oracle (real code only): for every call that raises, the full observation of the session taken before the call
(obj._vals_, SetData items/added/removed/count, _status_, _save_pos_, _wbits_, cache.indexes, cache.objects_to_save,
cache.modified_collections, cache.objects) must equal the observation taken after it; at the end the session commits and
the database must equal the database produced by replaying only the successful calls on a fresh database.

Tie: after EVERY call the observation is compared with the Lean model (Model/Undo.lean through the driver) that was
driven with the same history (outcome class + full observation).
"""
import json, random
from pony.orm import Database, Required, Optional, Set, PrimaryKey, db_session, commit, rollback, flush
from pony.orm import core

DEL = core.del_statuses

# ---------------------------------------------------------------- schema

def gen_schema(rng):
    """declaration spec: attrs in global declaration order (AttrId = position)"""
    nent = rng.choice([1, 2, 2, 3, 3, 4])
    hub = rng.random() < 0.55        # a "hub" entity with a many-to-many collection, a dependent that blocks its delete, ...
    if hub and nent == 1: nent = 2
    decl = []      # items: ('s', ent, req, unique) | ('r', relno, side)
    rels = []
    for e in range(nent):
        for _ in range(rng.choice([1, 1, 2, 2, 3])):
            decl.append(('s', e, rng.random() < 0.4, rng.random() < 0.45))
    nrel = rng.choice([1, 2, 2, 3, 3, 4])
    blocker = rng.randrange(nrel) if rng.random() < 0.6 else -1      # a relationship that can refuse a delete
    for i in range(nrel):
        kind = rng.choice(['o2o', 'o2o', 'm2o', 'm2o', 'm2o', 'm2m', 'm2m', 'sym1', 'symm'])
        ea = rng.randrange(nent)
        eb = ea if rng.random() < 0.25 else rng.randrange(nent)
        def S(ent, coll=False, req=False, casc=None): return {'ent': ent, 'coll': coll, 'req': req, 'opt_casc': casc}
        if i == blocker:
            if rng.random() < 0.6:
                kind = 'm2o'
                r = {'kind': kind, 'sym': False, 'a': S(ea, req=True), 'b': S(eb, coll=True, casc=False)}
            else:
                kind = 'o2o'
                r = {'kind': kind, 'sym': False, 'a': S(ea, req=True), 'b': S(eb, casc=False)}
        elif kind == 'o2o':
            areq = rng.random() < 0.35
            breq = False
            casc = rng.choice([None, None, None, 'a', 'b'])
            r = {'kind': kind, 'sym': False, 'a': S(ea, req=areq, casc=True if casc == 'a' else None), 'b': S(eb, req=breq, casc=True if casc == 'b' else None)}
        elif kind == 'm2o':
            r = {'kind': kind, 'sym': False, 'a': S(ea, req=rng.random() < 0.4), 'b': S(eb, coll=True, casc=rng.choice([None, None, None, True, False, False]))}
        elif kind == 'm2m':
            r = {'kind': kind, 'sym': False, 'a': S(ea, coll=True), 'b': S(eb, coll=True)}
        elif kind == 'sym1':
            r = {'kind': kind, 'sym': True, 'a': S(ea)}
        else:
            r = {'kind': kind, 'sym': True, 'a': S(ea, coll=True)}
        # a Required reference must point to an entity declared earlier (else no object of the entity can ever be created)
        for sn, other in (('a', 'b'), ('b', 'a')):
            if not r['sym'] and r[sn]['req']:
                if nent == 1: r[sn]['req'] = False
                elif r[other]['ent'] >= r[sn]['ent']:
                    lo, hi = sorted(rng.sample(range(nent), 2))
                    r[sn]['ent'], r[other]['ent'] = hi, lo
        rels.append(r)
        decl.append(('r', i, 'a'))
        if not r['sym']: decl.append(('r', i, 'b'))
    rng.shuffle(decl)
    if hub:
        def S(ent, coll=False, req=False, casc=None): return {'ent': ent, 'coll': coll, 'req': req, 'opt_casc': casc}
        h = rng.randrange(nent - 1)
        dep = rng.randrange(h + 1, nent)
        pack = []
        n0 = len(rels)
        rels.append({'kind': 'm2m', 'sym': False, 'a': S(h, coll=True), 'b': S(rng.randrange(nent), coll=True)})
        pack += [('r', n0, 'a'), ('r', n0, 'b')]
        if rng.random() < 0.6:
            rels.append({'kind': 'm2o', 'sym': False, 'a': S(rng.randrange(nent)), 'b': S(h, coll=True, casc=rng.choice([None, False]))})
            pack += [('r', len(rels) - 1, 'b'), ('r', len(rels) - 1, 'a')]
        if rng.random() < 0.35:
            rels.append({'kind': 'm2o', 'sym': False, 'a': S(rng.randrange(nent)), 'b': S(h, coll=True, casc=True)})
            pack += [('r', len(rels) - 1, 'b'), ('r', len(rels) - 1, 'a')]
        if rng.random() < 0.5:      # somebody's cascading collection of hubs: removing hubs from it deletes them — or is refused for some
            rels.append({'kind': 'm2o', 'sym': False, 'a': S(h), 'b': S(rng.randrange(nent), coll=True, casc=True)})
            pack += [('r', len(rels) - 1, 'b'), ('r', len(rels) - 1, 'a')]
        if rng.random() < 0.65: rels.append({'kind': 'm2o', 'sym': False, 'a': S(dep, req=True), 'b': S(h, coll=True, casc=False)})
        else: rels.append({'kind': 'o2o', 'sym': False, 'a': S(dep, req=True), 'b': S(h, casc=False)})
        pack += [('r', len(rels) - 1, 'b'), ('r', len(rels) - 1, 'a')]
        # the package keeps its relative order (the blocking attribute comes last); it is spliced into the shuffled declarations
        cut = sorted(rng.randrange(len(decl) + 1) for _ in pack)
        for off, (c, d) in enumerate(zip(cut, pack)): decl.insert(c + off, d)
    attrs = []
    pos = {}
    for d in decl:
        if d[0] == 's':
            attrs.append({'ent': d[1], 'kind': 'scalar', 'req': d[2], 'unique': d[3]})
        else:
            r = rels[d[1]]; s = r[d[2]]
            pos[(d[1], d[2])] = len(attrs)
            attrs.append({'ent': s['ent'], 'kind': 'coll' if s['coll'] else 'ref', 'req': s['req'], 'opt_casc': s['opt_casc'], 'rel': d[1], 'side': d[2], 'relkind': r['kind']})
    for i, a in enumerate(attrs):
        if a['kind'] != 'scalar':
            r = rels[a['rel']]
            a['rev'] = i if r['sym'] else pos[(a['rel'], 'b' if a['side'] == 'a' else 'a')]
    ckeys = []
    for e in range(nent):
        sc = [i for i, a in enumerate(attrs) if a['kind'] == 'scalar' and a['ent'] == e]
        if len(sc) >= 2 and rng.random() < 0.5:
            k = rng.sample(sc, 2 if (len(sc) == 2 or rng.random() < 0.7) else 3)
            ckeys.append(sorted(k) if rng.random() < 0.7 else k)
    return {'nent': nent, 'autopk': [rng.random() < 0.35 for _ in range(nent)], 'attrs': attrs, 'ckeys': ckeys}


def aname(i): return 'a%02d' % i


class World:
    """real entity classes built from a schema spec + bookkeeping to translate between model ids and real objects"""
    def __init__(self, spec):
        self.spec = spec
        self.db = db = Database()
        nent = spec['nent']
        dicts = [dict() for _ in range(nent)]
        for e in range(nent):
            dicts[e]['id'] = PrimaryKey(int, auto=bool(spec['autopk'][e]))
        self.attr = []
        for i, a in enumerate(spec['attrs']):
            if a['kind'] == 'scalar':
                at = (Required if a['req'] else Optional)(int, unique=True) if a['unique'] else (Required if a['req'] else Optional)(int)
            else:
                cls = Set if a['kind'] == 'coll' else (Required if a['req'] else Optional)
                kw = {'reverse': aname(a['rev'])}
                if a.get('opt_casc') is not None: kw['cascade_delete'] = a['opt_casc']
                at = cls('E%d' % spec['attrs'][a['rev']]['ent'], **kw)
            dicts[a['ent']][aname(i)] = at
            self.attr.append(at)
        for k in spec['ckeys']:
            d = dicts[spec['attrs'][k[0]]['ent']]
            d.setdefault('_indexes_', []).append(core.Index(*[d[aname(i)] for i in k], is_pk=False, is_unique=True))
        self.classes = [type('E%d' % e, (db.Entity,), dicts[e]) for e in range(nent)]
        db.bind('sqlite', ':memory:')
        db.generate_mapping(create_tables=True)
        self.aid = {at: i for i, at in enumerate(self.attr)}
        # the model's schema is read back from the real attribute objects (effective flags after Attribute.linked)
        ms = []
        for i, at in enumerate(self.attr):
            a = spec['attrs'][i]
            ms.append({'ent': self.classes.index(at.entity), 'kind': a['kind'], 'req': bool(at.is_required), 'casc': bool(getattr(at, 'cascade_delete', False)),
                       'rev': self.aid[at.reverse] if at.reverse else i, 'unique': bool(at.is_unique) and a['kind'] == 'scalar',
                       'bit': bool(at.entity._bits_.get(at, 0))})
        self.model_schema = {'nent': nent, 'autopk': [bool(x) for x in spec['autopk']], 'attrs': ms, 'ckeys': [list(k) for k in spec['ckeys']]}
        self.ent_attrs = [[i for i, m in enumerate(ms) if m['ent'] == e] for e in range(nent)]
        for e, cls in enumerate(self.classes):     # declaration order of the real classes must be the model's
            real = [a.name for a in cls._attrs_ if a.name != 'id']
            assert real == [aname(i) for i in self.ent_attrs[e]], (real, self.ent_attrs[e])
            assert [tuple(self.aid[a] for a in k) for k in cls._composite_keys_] == [tuple(k) for k in spec['ckeys'] if spec['attrs'][k[0]]['ent'] == e], cls._composite_keys_
        self.objs = []
        self.cache = None
        self.plan = []

    def idx(self, x):
        for i, o in enumerate(self.objs):
            if o is x: return i
        return -1

    def conv(self, a, v):
        """model value -> python value for attribute a"""
        if 'bad' in v: return 'x'
        if 's' in v: return v['s']
        if 'ref' in v: return None if v['ref'] is None else self.objs[v['ref']]
        return [self.objs[i] for i in v['coll']]

    def apply(self, op):
        """run one call on real Pony; returns None or the exception class name"""
        k = op['k']
        try:
            if k == 'flush':
                flush(); return None
            if k == 'create':
                kw = {}
                for a, v in op['vals']: kw[aname(a)] = self.conv(a, v)
                if op.get('pk') is not None: kw['id'] = op['pk']
                o = self.classes[op['e']](**kw)
                self.objs.append(o)
                return None
            obj = self.objs[op['o']]
            if k == 'delete':
                obj.delete(); return None
            if k == 'setm':
                obj.set(**{aname(a): self.conv(a, v) for a, v in op['kv']}); return None
            name = aname(op['a'])
            if k == 'set':
                setattr(obj, name, self.conv(op['a'], op['v']))
            elif k == 'add':
                getattr(obj, name).add([self.objs[i] for i in op['items']])
            elif k == 'remove':
                getattr(obj, name).remove([self.objs[i] for i in op['items']])
            elif k == 'clear':
                getattr(obj, name).clear()
            else:
                raise SystemError('unknown op ' + k)
            return None
        except SystemError:
            raise
        except Exception as e:
            return type(e).__name__

    # ---- observation
    def snapshot(self):
        cache = self.cache
        I = self.idx
        objs = []
        for o in self.objs:
            e = self.classes.index(type(o))
            vals, colls = {}, {}
            V = o._vals_ or {}
            for i in self.ent_attrs[e]:
                at = self.attr[i]
                if at.is_collection:
                    sd = V.get(at)
                    if sd is None: colls[i] = None
                    else: colls[i] = {'items': sorted(I(x) for x in sd), 'added': sorted(I(x) for x in (sd.added or ())),
                                      'removed': sorted(I(x) for x in (sd.removed or ())), 'count': sd.count, 'full': bool(sd.is_fully_loaded)}
                else:
                    v = V.get(at)
                    vals[i] = I(v) if isinstance(v, core.Entity) else v
            wb = o._wbits_
            objs.append({'ent': e, 'status': o._status_, 'pk': o._pkval_, 'save_pos': o._save_pos_,
                         'wbits': None if wb is None else sorted(i for i in self.ent_attrs[e] if wb & o._bits_.get(self.attr[i], 0)),
                         'vals': vals, 'colls': colls, 'in_cache': o in cache.objects})
        pkidx, sidx, cidx = {}, {}, {}
        for key, d in cache.indexes.items():
            if isinstance(key, tuple):
                if key and key[0].pk_offset is not None:
                    pkidx[self.classes.index(key[0].entity)] = sorted([k, I(o)] for k, o in d.items())
                else:
                    kid = self.spec['ckeys'].index([self.aid[a] for a in key])
                    cidx[kid] = sorted([list(k), I(o)] for k, o in d.items())
            else:
                sidx[self.aid[key]] = sorted([k, I(o)] for k, o in d.items())
        return {'objs': objs,
                'to_save': [None if o is None else I(o) for o in cache.objects_to_save],
                'pkidx': {e: v for e, v in pkidx.items() if v}, 'idx': {a: v for a, v in sidx.items() if v}, 'cidx': {k: v for k, v in cidx.items() if v},
                'modcoll': {self.aid[a]: sorted(I(o) for o in s) for a, s in cache.modified_collections.items() if s},
                'modified': bool(cache.modified),
                'strangers': len([o for o in cache.objects if I(o) < 0]),
                # a live object holds a deleted object (only possible after a deleted object was passed to a call as a value)
                'dangling': any(o._status_ not in DEL and any((isinstance(v, core.Entity) and v._status_ in DEL) or
                                                               (isinstance(v, core.SetData) and any(x._status_ in DEL for x in v))
                                                               for v in (o._vals_ or {}).values()) for o in self.objs)}


def diff_fields(before, after):
    """names of the parts of the observation that differ (for the key of a violation), and one detail"""
    cats, detail = set(), None
    def note(cat, d):
        nonlocal detail
        cats.add(cat)
        if detail is None: detail = d
    for i, (b, a) in enumerate(zip(before['objs'], after['objs'])):
        for f in ('status', 'pk', 'save_pos', 'wbits', 'in_cache'):
            if b[f] != a[f]: note(f, {'obj': i, f: [b[f], a[f]]})
        for k in b['vals']:
            if b['vals'][k] != a['vals'].get(k): note('value', {'obj': i, 'attr': k, 'value': [b['vals'][k], a['vals'].get(k)]})
        for k in b['colls']:
            # no SetData at all == an empty SetData that is not loaded and has nothing pending (reverse_add creates such a placeholder)
            EMPTY = {'items': [], 'added': [], 'removed': [], 'count': None, 'full': False}
            cb, ca = b['colls'][k] or EMPTY, a['colls'].get(k) or EMPTY
            if cb == ca: continue
            if cb is None or ca is None: note('items', {'obj': i, 'attr': k, 'setdata': [cb, ca]}); continue
            for f in ('items', 'added', 'removed', 'count', 'full'):
                if cb[f] != ca[f]: note(f, {'obj': i, 'attr': k, f: [cb[f], ca[f]]})
    if len(before['objs']) != len(after['objs']): note('objects', {'n': [len(before['objs']), len(after['objs'])]})
    for f in ('to_save', 'pkidx', 'idx', 'cidx', 'modcoll', 'strangers'):
        if before[f] != after[f]: note(f, {f: [before[f], after[f]]})
    return sorted(cats), detail


# ---------------------------------------------------------------- histories

SVALS = [0, 1, 2, 3]
PKS = [1, 2, 3, 4, 5, 6, 7]

def drop_both_ends(ms, kv):
    """one call must not give values for both ends of a self-relationship (contradictory arguments are C12's subject, not C13's)"""
    out, seen = [], set()
    for a, v in kv:
        m = ms['attrs'][a]
        if m['kind'] != 'scalar' and m['rev'] != a and m['rev'] in seen: continue
        seen.add(a); out.append([a, v])
    return out


def blocker_attrs(w, i):
    """attributes of live object i that refuse its delete right now: [(attr id, is_collection)]"""
    ms = w.model_schema
    o = w.objs[i]
    V = o._vals_ or {}
    out = []
    for a in w.ent_attrs[w.classes.index(type(o))]:
        m = ms['attrs'][a]
        if m['kind'] == 'scalar' or m['casc']: continue
        rm = ms['attrs'][m['rev']]
        if rm['kind'] != 'ref' or not rm['req']: continue
        v = V.get(w.attr[a])
        if m['kind'] == 'coll' and v: out.append((a, True))
        if m['kind'] == 'ref' and v is not None: out.append((a, False))
    return out


def delete_refused(w, i, seen=None):
    """would obj.delete() of live object i be refused somewhere in its cascade (approximation by DFS over cascade links)"""
    seen = seen if seen is not None else set()
    if i in seen or i < 0: return False
    seen.add(i)
    o = w.objs[i]
    if o._status_ in DEL: return False
    if blocker_attrs(w, i): return True
    ms = w.model_schema
    V = o._vals_ or {}
    for a in w.ent_attrs[w.classes.index(type(o))]:
        m = ms['attrs'][a]
        if m['kind'] == 'scalar' or not m['casc']: continue
        v = V.get(w.attr[a])
        kids = list(v) if m['kind'] == 'coll' and v else ([v] if m['kind'] == 'ref' and v is not None else [])
        if any(delete_refused(w, w.idx(x), seen) for x in kids): return True
    return False


def links(w, i):
    V = w.objs[i]._vals_ or {}
    return sum(len(v) if isinstance(v, core.SetData) else (1 if isinstance(v, core.Entity) else 0) for v in V.values())


def plan_late_failure(rng, w):
    """a short script of calls that ends in a call failing AFTER it changed something (appended to w.plan); returns a tag or None"""
    ms = w.model_schema
    objs = w.objs
    alive = [o._status_ not in DEL for o in objs]
    live_of = lambda e: [i for i, o in enumerate(objs) if alive[i] and w.classes.index(type(o)) == e]
    dead_of = lambda e: [i for i, o in enumerate(objs) if not alive[i] and w.classes.index(type(o)) == e]
    kind = rng.choice(['refused-delete', 'refused-delete', 'set-late', 'cascade-refused', 'coll-late', 'coll-late'])
    if kind == 'coll-late':
        # add / assign on a one-to-many collection: good items plus one deleted object; remove on a cascading one: one item whose delete is refused
        cands = []
        for i in range(len(objs)):
            if not alive[i]: continue
            for c in w.ent_attrs[w.classes.index(type(objs[i]))]:
                m = ms['attrs'][c]
                if m['kind'] != 'coll' or ms['attrs'][m['rev']]['kind'] != 'ref': continue
                te = ms['attrs'][m['rev']]['ent']
                cur = [w.idx(x) for x in (objs[i]._vals_.get(w.attr[c]) or ())]
                fresh = [x for x in live_of(te) if x not in cur and x != i]
                if dead_of(te) and fresh: cands.append(('add', i, c, fresh, dead_of(te), cur))
                if m['casc'] and len(cur) >= 2 and any(delete_refused(w, x) for x in cur) and not all(delete_refused(w, x) for x in cur):
                    cands.append(('remove', i, c, cur, None, cur))
                if m['casc']:
                    pool = [x for x in live_of(te) if x != i]
                    blocked = [x for x in pool if delete_refused(w, x)]
                    free = [x for x in pool if not delete_refused(w, x)]
                    if blocked and free:
                        for _ in range(3): cands.append(('remove-build', i, c, blocked, free, cur))
        if not cands: return None
        how, i, c, pool, dead, cur = rng.choice(cands)
        if how == 'remove':
            w.plan.append({'k': 'remove', 'o': i, 'a': c, 'items': sorted(cur)})
            return 'plan:remove-cascade-refused-midway'
        if how == 'remove-build':
            # put an item whose delete is refused and some whose delete is not into a cascading collection, then remove them together
            items = sorted(set([rng.choice(pool)] + rng.sample(dead, min(len(dead), rng.choice([1, 2])))))
            new = [x for x in items if x not in cur]
            if new: w.plan.append({'k': 'add', 'o': i, 'a': c, 'items': new})
            if rng.random() < 0.3: w.plan.append({'k': 'flush'})
            w.plan.append({'k': 'remove' if rng.random() < 0.7 else 'set', 'o': i, 'a': c, 'items': items} if True else None)
            if w.plan[-1]['k'] == 'set': w.plan[-1] = {'k': 'clear', 'o': i, 'a': c}
            return 'plan:remove-cascade-refused-midway(built)'
        items = sorted(set(rng.sample(pool, min(len(pool), rng.choice([1, 2, 3]))) + [rng.choice(dead)]))
        if rng.random() < 0.6: w.plan.append({'k': 'add', 'o': i, 'a': c, 'items': items})
        else: w.plan.append({'k': 'set', 'o': i, 'a': c, 'v': {'coll': sorted(set(items + (cur[:1] if rng.random() < 0.5 else [])))}})
        return 'plan:collection-call-fails-on-a-deleted-item-midway'
    if kind == 'refused-delete':
        # an object with a blocker and a collection that the delete clears through Set.__set__(obj, (), undo_funcs) before it is refused
        cands = []
        for i in range(len(objs)):
            if not alive[i]: continue
            bl = blocker_attrs(w, i)
            if not bl: continue
            for c in w.ent_attrs[w.classes.index(type(objs[i]))]:
                m = ms['attrs'][c]
                if m['kind'] != 'coll' or m['casc'] or ms['attrs'][m['rev']]['req']: continue
                if any((not is_coll) or b > c for b, is_coll in bl): cands.append((i, c))
        if not cands: return None
        i, c = rng.choice(cands)
        m = ms['attrs'][c]
        pool = [x for x in live_of(ms['attrs'][m['rev']]['ent'])]
        if not pool: return None
        cur = [w.idx(x) for x in (objs[i]._vals_.get(w.attr[c]) or ())]
        fresh = [x for x in pool if x not in cur]
        script = []
        if fresh and rng.random() < 0.8: script.append({'k': 'add', 'o': i, 'a': c, 'items': sorted(rng.sample(fresh, min(len(fresh), rng.choice([1, 2, 2]))))})
        if rng.random() < 0.6: script.append({'k': 'flush'})
        r = rng.random()
        have = cur + [x for op in script if op['k'] == 'add' for x in op['items']]
        if r < 0.4 and have: script.append({'k': 'remove', 'o': i, 'a': c, 'items': [rng.choice(have)]})
        elif r < 0.8 and pool: script.append({'k': 'add', 'o': i, 'a': c, 'items': sorted(rng.sample(pool, min(len(pool), rng.choice([1, 2]))))})
        elif pool: script.append({'k': 'set', 'o': i, 'a': c, 'v': {'coll': sorted(rng.sample(pool, min(len(pool), rng.choice([1, 2]))))}})
        script.append({'k': 'delete', 'o': i})
        w.plan.extend(script)
        return 'plan:refused-delete-after-collection-change'
    if kind == 'cascade-refused':
        cands = [i for i in range(len(objs)) if alive[i] and not blocker_attrs(w, i) and delete_refused(w, i)]
        if not cands: return None
        w.plan.append({'k': 'delete', 'o': rng.choice(cands)})
        return 'plan:cascade-refused'
    # set-late: obj.set(first collection rewritten, a later one-to-many collection holds a deleted object)
    cands = []
    for i in range(len(objs)):
        if not alive[i]: continue
        e = w.classes.index(type(objs[i]))
        colls = [c for c in w.ent_attrs[e] if ms['attrs'][c]['kind'] == 'coll']
        for c2 in colls:
            m2 = ms['attrs'][c2]; r2 = ms['attrs'][m2['rev']]
            if r2['kind'] != 'ref' or not dead_of(r2['ent']): continue
            for c1 in colls:
                if c1 != c2 and ms['attrs'][c1]['rev'] != c2: cands.append((i, c1, c2))
    if not cands: return None
    i, c1, c2 = rng.choice(cands)
    m1 = ms['attrs'][c1]; m2 = ms['attrs'][c2]
    pool1 = live_of(ms['attrs'][m1['rev']]['ent'])
    dead2 = dead_of(ms['attrs'][m2['rev']]['ent'])
    live2 = live_of(ms['attrs'][m2['rev']]['ent'])
    kv = []
    e = w.classes.index(type(objs[i]))
    sc = [a for a in w.ent_attrs[e] if ms['attrs'][a]['kind'] == 'scalar']
    if sc and rng.random() < 0.6: kv.append([rng.choice(sc), {'s': rng.randrange(40, 90)}])
    kv.append([c1, {'coll': sorted(rng.sample(pool1, min(len(pool1), rng.choice([0, 1, 2]))))}])
    kv.append([c2, {'coll': sorted(set(rng.sample(live2, min(len(live2), rng.choice([0, 1]))) + [rng.choice(dead2)]))}])
    if rng.random() < 0.5 and pool1:
        w.plan.append({'k': 'add', 'o': i, 'a': c1, 'items': [rng.choice(pool1)]})
    w.plan.append({'k': 'setm', 'o': i, 'kv': kv})
    return 'plan:set-fails-on-a-later-collection'


def gen_op(rng, w, pbad, force_create=False):
    if w.plan:
        return w.plan.pop(0), 'planned'
    if not force_create and pbad > 0 and rng.random() < 0.3:
        t = plan_late_failure(rng, w)
        if t is not None: return w.plan.pop(0), t
    ms = w.model_schema
    objs = w.objs
    alive = [o._status_ not in DEL for o in objs]
    by_ent = {}
    for i, o in enumerate(objs): by_ent.setdefault(w.classes.index(type(o)), []).append(i)
    bad = rng.random() < pbad
    tag = [None]
    def settag(t):
        if tag[0] is None: tag[0] = t
    def pick_obj(ent, b):
        cands = by_ent.get(ent, [])
        live = [i for i in cands if alive[i]]
        if b and rng.random() < 0.7:
            dead = [i for i in cands if not alive[i]]
            if dead and rng.random() < 0.8: settag('dead-value'); return rng.choice(dead)
            other = [i for i in range(len(objs)) if i not in cands]
            if other: settag('wrong-type'); return rng.choice(other)
        return rng.choice(live) if live else None
    def scalar_val(a, b, for_obj=None):
        m = ms['attrs'][a]
        if b and rng.random() < 0.3: settag('bad-scalar'); return {'bad': True}
        if b and m['req'] and rng.random() < 0.3: settag('required-none'); return {'s': None}
        if (b or rng.random() < 0.3) and (m['unique'] or any(a in k for k in ms['ckeys'])):
            used = [o._vals_.get(w.attr[a]) for i, o in enumerate(objs) if alive[i] and o._vals_ and w.attr[a] in o._vals_ and i != for_obj]
            used = [u for u in used if u is not None]
            if used: settag('key-clash?'); return {'s': rng.choice(used)}
        if not m['req'] and rng.random() < 0.15: return {'s': None}
        return {'s': rng.choice(SVALS + [rng.randrange(4, 40)] * (3 if m['unique'] else 0))}
    def ref_val(a, b):
        m = ms['attrs'][a]
        if rng.random() < (0.2 if not m['req'] else (0.25 if b else 0.0)):
            if m['req']: settag('required-none')
            return {'ref': None}
        return {'ref': pick_obj(ms['attrs'][m['rev']]['ent'], b)}
    def coll_val(a, b, cur=None, prefer_cur=0.0):
        m = ms['attrs'][a]
        items = []
        k = rng.choice([0, 1, 1, 2, 2, 2, 3, 3])
        bad_at = rng.randrange(k) if (b and k) else -1           # one bad item among good ones: failure midway
        for j in range(k):
            if cur and rng.random() < prefer_cur: v = rng.choice(cur)
            else: v = pick_obj(ms['attrs'][m['rev']]['ent'], j == bad_at)
            if v is not None and v not in items: items.append(v)
        return sorted(items)
    r = rng.random()
    if force_create: r = 0.2
    if r < 0.11 and objs:
        return {'k': 'flush'}, None
    if r < 0.30 or not objs:
        e = rng.randrange(ms['nent'])
        if not bad or rng.random() < 0.7:     # prefer an entity whose Required references can be satisfied
            ok = [x for x in range(ms['nent']) if all(any(alive[i] for i in by_ent.get(ms['attrs'][ms['attrs'][a]['rev']]['ent'], []))
                                                        for a in w.ent_attrs[x] if ms['attrs'][a]['kind'] == 'ref' and ms['attrs'][a]['req'])]
            if ok: e = rng.choice(ok)
        vals = []
        for a in w.ent_attrs[e]:
            m = ms['attrs'][a]
            if m['kind'] == 'scalar':
                if m['req'] and bad and rng.random() < 0.15: settag('required-missing'); continue
                if m['req'] or rng.random() < 0.6: vals.append([a, scalar_val(a, bad and rng.random() < 0.35)])
            elif m['kind'] == 'ref':
                if m['req'] and bad and rng.random() < 0.15: settag('required-missing'); continue
                if m['req'] or rng.random() < 0.7:
                    v = ref_val(a, bad and rng.random() < 0.35)
                    if v['ref'] is None and m['req'] and tag[0] is None: settag('required-none')
                    vals.append([a, v])
            else:
                if rng.random() < 0.6: vals.append([a, {'coll': coll_val(a, bad and rng.random() < 0.35)}])
        vals = drop_both_ends(ms, vals)
        pk = None
        if not ms['autopk'][e] or rng.random() < 0.3:
            used = [o._pkval_ for i, o in enumerate(objs) if type(o) is w.classes[e] and o._pkval_ is not None and o._status_ != 'deleted' and o._status_ != 'cancelled']
            free = [p for p in PKS + list(range(8, 30)) if p not in used]
            if bad and used and rng.random() < 0.3: settag('pk-clash'); pk = rng.choice(used)
            else: pk = free[0] if rng.random() < 0.7 else rng.choice(free)
        return {'k': 'create', 'e': e, 'pk': pk, 'vals': vals}, tag[0]
    live = [i for i in range(len(objs)) if alive[i]]
    pool = list(range(len(objs))) if (bad and rng.random() < 0.15) else (live or list(range(len(objs))))
    o = rng.choice(pool)
    if not alive[o]: settag('dead-target')
    if r < 0.50:
        if bad and live and rng.random() < 0.8:
            # prefer an object whose delete is refused somewhere after it did some work
            ref = [i for i in live if delete_refused(w, i)]
            best = sorted(ref or live, key=lambda i: links(w, i))[-max(1, len(ref or live) // 2):]
            o = rng.choice(best)
        return {'k': 'delete', 'o': o}, tag[0]
    e = w.classes.index(type(objs[o]))
    attrs = w.ent_attrs[e]
    if r < 0.62 and len(attrs) >= 1:
        kv = []
        for a in rng.sample(attrs, min(len(attrs), rng.choice([1, 2, 2, 3, 4]))):
            m = ms['attrs'][a]
            b = bad and rng.random() < 0.5
            if m['kind'] == 'scalar': kv.append([a, scalar_val(a, b, for_obj=o)])
            elif m['kind'] == 'ref': kv.append([a, ref_val(a, b)])
            else: kv.append([a, {'coll': coll_val(a, b)}])
        return {'k': 'setm', 'o': o, 'kv': drop_both_ends(ms, kv)}, tag[0]
    a = rng.choice(attrs)
    m = ms['attrs'][a]
    if m['kind'] == 'scalar': return {'k': 'set', 'o': o, 'a': a, 'v': scalar_val(a, bad, for_obj=o)}, tag[0]
    if m['kind'] == 'ref': return {'k': 'set', 'o': o, 'a': a, 'v': ref_val(a, bad)}, tag[0]
    k = rng.choice(['add', 'add', 'add', 'remove', 'remove', 'set', 'set', 'clear'])
    if k == 'clear': return {'k': 'clear', 'o': o, 'a': a}, tag[0]
    sd = objs[o]._vals_.get(w.attr[a]) if objs[o]._vals_ is not None else None
    cur = [w.idx(x) for x in (sd or ())]
    items = coll_val(a, bad, cur, {'remove': 0.8, 'set': 0.5, 'add': 0.0}[k])
    if k == 'set': return {'k': 'set', 'o': o, 'a': a, 'v': {'coll': items}}, tag[0]
    return {'k': k, 'o': o, 'a': a, 'items': items}, tag[0]


# ---------------------------------------------------------------- running a history on the real code

def logical_db(w, pks):
    """the committed database read back in a fresh session, object by object in creation order, with references given as creation
    indexes: independent of the values the database chose for auto primary keys (their order follows the flush order)"""
    key = {}
    for i, (o, pk) in enumerate(zip(w.objs, pks)):
        if pk is not None: key[(type(o), pk)] = i
    out = []
    with db_session:
        for i, (o, pk) in enumerate(zip(w.objs, pks)):
            cls = type(o)
            x = cls.get(id=pk) if pk is not None else None
            if x is None: out.append(None); continue
            row = {}
            for a in w.ent_attrs[w.classes.index(cls)]:
                at = w.attr[a]
                v = getattr(x, at.name)
                if at.is_collection: row[a] = sorted(key.get((type(y), y.id), -1) for y in v)
                elif isinstance(v, core.Entity): row[a] = ['obj', key.get((type(v), v.id), -1)]
                else: row[a] = v
            out.append(row)
        counts = {c.__name__: len(c.select()[:]) for c in w.classes}
    return {'objects': out, 'rows': counts}


def dump_db(w):
    out = {}
    con = w.db.get_connection()
    tables = [r[0] for r in con.execute("select name from sqlite_master where type='table' order by name")]
    for t in tables:
        out[t] = sorted(map(list, con.execute('select * from "%s"' % t)), key=repr)
    return out


def run_real(spec, ops, want_db=False, stop_on_change=True):
    """replays a fixed history on fresh real classes.
    returns dict: steps=[(err, snapshot)], changed=(i, cats, detail)|None, db=dump|None|'commit failed: X', w"""
    w = World(spec)
    steps = []
    changed = None
    db = None
    with db_session:
        w.cache = w.db._get_cache()
        prev = w.snapshot()
        for i, op in enumerate(ops):
            err = w.apply(op)
            snap = w.snapshot()
            if op['k'] == 'flush' and 'ids' not in op: op['ids'] = flush_ids(prev, snap)
            steps.append((err, snap))
            if err is not None and op['k'] != 'flush':
                cats, detail = diff_fields(prev, snap)
                if cats and changed is None:
                    changed = (i, cats, detail)
                    if stop_on_change: break
            if err is not None and op['k'] == 'flush': break
            prev = snap
        if want_db and changed is None and not (steps and steps[-1][0] is not None and ops[len(steps) - 1]['k'] == 'flush'):
            try:
                commit()
                pks = [o._pkval_ if o._status_ not in ('deleted', 'cancelled') else None for o in w.objs]
                db = True
            except Exception as e:
                db = 'commit failed: ' + type(e).__name__
                rollback()
        else:
            rollback()
    if db is True: db = logical_db(w, pks)
    w.db.disconnect()
    return {'steps': steps, 'changed': changed, 'db': db, 'w': w}


def flush_ids(prev, snap):
    """primary keys the database assigned during a flush (input of the model's flush)"""
    return [[i, a['pk']] for i, (b, a) in enumerate(zip(prev['objs'], snap['objs'])) if b['pk'] is None and a['pk'] is not None]


def uses_dead(w, op):
    """a value operand of the call is a deleted object"""
    ids = []
    def val(v):
        if 'ref' in v and v['ref'] is not None: ids.append(v['ref'])
        if 'coll' in v: ids.extend(v['coll'])
    for _, v in op.get('vals', []) + op.get('kv', []): val(v)
    if 'v' in op: val(op['v'])
    ids.extend(op.get('items', []))
    return any(0 <= i < len(w.objs) and w.objs[i]._status_ in DEL for i in ids)


def vkey(op, err, cats):
    return 'failed-call-changed-session:%s/%s/%s' % (op['k'], err, '+'.join(cats))


def first_change(spec, ops):
    try:
        r = run_real(spec, ops)
    except Exception:
        return None
    if r['changed'] is None: return None
    i, cats, detail = r['changed']
    return i, vkey(ops[i], r['steps'][i][0], cats), detail


def shrink(spec, ops, key):
    """greedy: drop calls (never a successful create: object numbering) while the same kind of violation remains at the last call"""
    v = first_change(spec, ops)
    if v is None: return ops
    ops = ops[:v[0] + 1]
    changed = True
    while changed:
        changed = False
        r = run_real(spec, ops, stop_on_change=False)
        ok_create = [op['k'] == 'create' and r['steps'][i][0] is None for i, op in enumerate(ops)]
        for i in range(len(ops) - 2, -1, -1):
            if ok_create[i]: continue
            cand = ops[:i] + ops[i + 1:]
            v2 = first_change(spec, cand)
            if v2 is not None and v2[1] == key and v2[0] == len(cand) - 1:
                ops = cand; changed = True; break
    return ops


def report_change(ctx, spec, ops, i, key, detail):
    small = shrink(spec, ops[:i + 1], key)
    v = first_change(spec, small)
    if v is not None: key, detail = v[1], v[2]
    ctx.violation('a call that raised left the session changed (%s)' % key, {'schema': spec, 'ops': small}, observed=detail,
                  expected='observation after the failing call == observation before it', key=key)


def oracle_phase(ctx, rng, nhist, nops):
    """random histories on the real code; returns the histories for the model tie"""
    batch = []
    for h in range(nhist):
        spec = gen_schema(rng)
        try:
            w = World(spec)
        except Exception as e:
            ctx.count('schema-rejected:' + type(e).__name__); continue
        pbad = rng.choice([0.3, 0.45, 0.6])
        ops, real = [], []
        violated = False
        final_db = None
        with db_session:
            w.cache = w.db._get_cache()
            prev = w.snapshot()
            flush_failed = False
            warm = rng.choice([3, 5, 7])
            tainted = False      # a deleted object was passed as a value to a call that accepted it
            for step_no in range(nops):
                op, tag = gen_op(rng, w, 0.0 if step_no < warm else pbad, force_create=step_no < warm and rng.random() < 0.8)
                dead_operand = uses_dead(w, op)
                err = w.apply(op)
                snap = w.snapshot()
                tainted = tainted or (dead_operand and err is None)
                snap['tainted'] = tainted
                if op['k'] == 'flush': op['ids'] = flush_ids(prev, snap)
                ops.append(op)
                ctx.count('op:%s:%s' % (op['k'], err or 'ok'))
                if tag: ctx.count('bad-operand:%s:%s' % (tag, err or 'ok'))
                ctx.case({'schema': w.model_schema, 'op': op, 'i': len(ops)}, nontrivial=True, kind='call')
                if op['k'] == 'flush' and err is not None:
                    ctx.count('flush-failed:' + err); flush_failed = True; ops.pop(); break
                if err is not None:
                    ctx.count('failing-calls')
                    if err in ('KeyError', 'AttributeError', 'AssertionError', 'IndexError'):
                        ctx.extra.setdefault('internal_error_histories', [])
                        if len(ctx.extra['internal_error_histories']) < 5: ctx.extra['internal_error_histories'].append({'schema': spec, 'ops': list(ops), 'err': err})
                    if len(op.get('items', [])) > 1 or len(op.get('kv', [])) > 1: ctx.count('multi-item-call-failed:%s:%s' % (op['k'], err))
                    cats, detail = diff_fields(prev, snap)
                    if cats:
                        ctx.count('oracle:state-changed')
                        report_change(ctx, spec, list(ops), len(ops) - 1, vkey(op, err, cats), detail)
                        violated = True; break
                    if prev['modified'] != snap['modified']: ctx.count('observation:cache.modified-set-by-failed-call')
                real.append((err, snap))
                prev = snap
            if violated or flush_failed: rollback()
            else:
                try:
                    commit(); final_pks = [o._pkval_ if o._status_ not in ('deleted', 'cancelled') else None for o in w.objs]
                except Exception as e:
                    final_pks = None
                    ctx.count('commit-failed:' + type(e).__name__); rollback()
        if not (violated or flush_failed) and final_pks is not None: final_db = logical_db(w, final_pks)
        w.db.disconnect()
        if violated: continue
        if final_db is not None and any(e is not None for e, _ in real):
            good = [op for op, (e, _) in zip(ops, real) if e is None]
            # object numbering: failed creates never got an id, so the successful calls replay unchanged
            try:
                r2 = run_real(spec, good, want_db=True)
                ctx.case({'commit-compare': h}, nontrivial=False, kind='commit-compare')
                if len(r2['steps']) != len(good) or any(e is not None for e, _ in r2['steps']):
                    # a call that succeeded in the history did not succeed in the replay (a cascade's outcome depends on Python's set
                    # iteration order): the two databases are not comparable
                    ctx.count('commit-compare:replay-did-not-reproduce-the-successful-calls')
                elif r2['db'] != final_db:
                    ctx.count('oracle:commit-differs')
                    if not isinstance(r2['db'], dict): bad = ['commit']
                    else: bad = ['rows'] * (r2['db']['rows'] != final_db['rows']) + ['object %d' % i for i, (x, y) in enumerate(zip(final_db['objects'], r2['db']['objects'])) if x != y]
                    ctx.violation('after commit the database differs from a replay of only the successful calls',
                                  {'schema': spec, 'ops': ops}, observed={'differs': bad[:6], 'db': final_db},
                                  expected={'db': r2['db']}, key='commit-differs:' + ('rows' if 'rows' in bad else 'objects' if bad != ['commit'] else 'commit'))
            except Exception as e:
                ctx.count('commit-compare-replay-crashed:' + type(e).__name__)
        if len(real) == len(ops): batch.append((spec, w, ops, real))
    return batch


def norm_real(snap):
    """real observation in the shape of the model's dump"""
    objs = []
    for o in snap['objs']:
        objs.append({'ent': o['ent'], 'status': o['status'], 'pk': o['pk'], 'save_pos': o['save_pos'], 'wbits': o['wbits'],
                     'vals': [[a, v] for a, v in sorted(o['vals'].items())],
                     'colls': [[a, c['items'], c['added'], c['removed'], c['count']] if c is not None else [a, None] for a, c in sorted(o['colls'].items())]})
    return {'objs': objs, 'to_save': snap['to_save'],
            'pkidx': sorted([e, k, o] for e, l in snap['pkidx'].items() for k, o in l),
            'idx': sorted([a, k, o] for a, l in snap['idx'].items() for k, o in l),
            'cidx': sorted([c, k, o] for c, l in snap['cidx'].items() for k, o in l),
            'modcoll': sorted([a, l] for a, l in snap['modcoll'].items()), 'modified': snap['modified']}


def norm_model(obs):
    return {'objs': obs['objs'], 'to_save': obs['to_save'], 'pkidx': sorted(obs['pkidx']), 'idx': sorted(obs['idx']), 'cidx': sorted(obs['cidx']),
            'modcoll': sorted(obs['modcoll']), 'modified': obs['modified']}


def obs_diff(m, r):
    """first difference between model and real observation, or None.  The order inside objects_to_save may differ
    (the real order follows Python set iteration): then only the set of queued objects and the holes are compared."""
    if m == r: return None
    order_only = False
    if m['to_save'] != r['to_save']:
        # the order of the queue and its None holes (an object queued as 'modified' and then re-queued by its delete leaves one) depend on
        # the order in which a cascade visits objects; what flush works from is the set of queued objects
        key = lambda l: sorted(x for x in l if x is not None)
        if key(m['to_save']) != key(r['to_save']): return ('to_save', m['to_save'], r['to_save'])
        order_only = True
    for f in ('pkidx', 'idx', 'cidx', 'modcoll', 'modified'):
        if m[f] != r[f]: return (f, m[f], r[f])
    if len(m['objs']) != len(r['objs']): return ('number of objects', len(m['objs']), len(r['objs']))
    for i, (a, b) in enumerate(zip(m['objs'], r['objs'])):
        if a == b: continue
        for f in a:
            if a[f] != b[f]:
                # values kept by deleted objects depend on the order in which a cascade visited them (Python set order); flush drops parts of them
                if f in ('vals', 'colls', 'wbits') and a['status'] == b['status'] and a['status'] in ('deleted', 'marked_to_delete', 'cancelled'): continue
                if f == 'save_pos' and order_only and (a[f] is None) == (b[f] is None): continue
                return ('obj %d %s' % (i, f), a[f], b[f])
    return None


LOOSE_ERR = {'RecursionError'}


def real_outcome_can_be(spec, ops, want):
    """re-executes the history on fresh real classes (up to 30 times; object addresses, hence set orders, differ between executions):
    does the real code ever give the outcome `want` for the last call?"""
    junk = []
    for attempt in range(30):
        junk.append([object() for _ in range((attempt * 37) % 101 + 1)])     # shifts the addresses (hence the hashes) of the next objects
        try:
            r = run_real(spec, [dict(o) for o in ops], stop_on_change=False)
        except Exception:
            return False
        if len(r['steps']) == len(ops) and r['steps'][-1][0] == want: return True
    return False


def dangling(snap):
    """a live object references an object that is deleted"""
    objs = snap['objs']
    dead = {i for i, o in enumerate(objs) if o['status'] in DEL}
    for o in objs:
        if o['status'] in DEL: continue
        for c in o['colls'].values():
            if c and dead.intersection(c['items']): return True
    return False


def real_wf(snap):
    """the hypothesis WF of the theorems evaluated on the real objects: `_save_pos_` and objects_to_save agree; the unique
    and composite indexes hold exactly the current values of live objects (the latter is the invariant of property C11)"""
    objs = snap['objs']
    live = lambda i: 0 <= i < len(objs) and objs[i]['status'] not in DEL
    for i, o in enumerate(objs):
        p = o['save_pos']
        if p is not None and not (p < len(snap['to_save']) and snap['to_save'][p] == i): return 'save_pos of object %d' % i
        if o['status'] in ('inserted', 'updated') and p is not None: return 'saved object %d is queued' % i
    for a, l in snap['idx'].items():
        for v, i in l:
            if live(i) and objs[i]['vals'].get(a) != v: return 'index %d entry %r' % (a, v)
    return None

def tie_phase(ctx, batch):
    if not ctx.driver.ok:
        ctx.note('driver unavailable: the correspondence part is skipped, the oracle still runs'); return
    outs = ctx.driver('C13', [{'op': 'run', 'schema': w.model_schema, 'ops': ops} for _, w, ops, _ in batch])
    for (spec, w, ops, real), out in zip(batch, outs):
        steps = out.get('steps')
        if steps is None:
            if 'unknown property' in str(out.get('driver_error')): raise SystemError('the shared driver executable was replaced while running: %r' % out)
            ctx.divergence('driver error', {'schema': spec, 'ops': ops}, model=out); continue
        for i, (err, snap) in enumerate(real):
            m = steps[i]
            hist = {'schema': spec, 'ops': ops[:i + 1]}
            merr = m['err']
            if merr in ('NoSuchObject', 'NoSuchAttr'):
                ctx.divergence('model rejected a call the engine generated', hist, model=merr, impl=err); break
            # calls that walk over several objects (cascades, item lists): their failure point depends on Python's set iteration order
            multi = ops[i]['k'] in ('delete', 'setm', 'create', 'clear', 'remove') or len(ops[i].get('items', [])) > 1 or 'coll' in (ops[i].get('v') or {})
            prev_snap = real[i - 1][1] if i else None
            if err in ('AssertionError', 'UnrepeatableReadError') and merr != err and prev_snap is not None and \
                    (dangling(prev_snap) or prev_snap.get('dangling') or prev_snap.get('tainted')):
                # a deleted object was passed as a value earlier (Pony accepts it in places): flush dropped its SetData / wrote a foreign key
                # to a row that does not exist or belongs to another object, so a later load disagrees with the session.
                # Outside the model (it has no database); the before/after oracle has checked the call
                ctx.count('tie:%s-on-a-reference-to-a-deleted-object' % err); break
            if (merr is None) != (err is None):
                if merr in LOOSE_ERR or err in LOOSE_ERR: ctx.count('tie:cascade-cycle-outcome-differs'); break
                if 'ConstraintError' in (merr, err) and ops[i]['k'] in ('delete', 'remove', 'clear', 'set', 'setm') and real_outcome_can_be(spec, ops[:i + 1], merr):
                    # whether a cascade reaches a refusing object before or after that object was deleted through another path depends
                    # on Python's set iteration order: re-executing the history on the real code gave the model's outcome as well
                    ctx.count('tie:cascade-outcome-depends-on-set-order'); break
                ctx.divergence('outcome of the call differs', hist, model=merr, impl=err); break
            if merr != err:
                if multi or merr in LOOSE_ERR or err in LOOSE_ERR: ctx.count('tie:error-class-differs-in-multi-step-call:%s/%s' % (merr, err))
                else: ctx.divergence('error class of the call differs', hist, model=merr, impl=err); break
            d = obs_diff(norm_model(m['obs']), norm_real(snap))
            if d is not None and d[0] == 'modified' and err is not None and multi:
                # cache.modified is never restored: after a failed multi-step call its value depends on how far the call got (set order)
                ctx.count('tie:cache.modified-after-failed-call-depends-on-set-order'); break
            if d is not None:
                ctx.divergence('observation after the call differs: ' + d[0], hist, model=d[1], impl=d[2]); break
            if not m.get('guard', True):
                ctx.divergence('the guard of theorem C13_reachable (SchemaWf, createdOk) is not met on a generated history', hist, model='guard = false'); break
            if not m.get('wf', True):
                ctx.divergence('a reachable state does not satisfy the hypothesis WF of theorem C13 (model)', hist, model='wf = false'); break
            rw = real_wf(snap)
            if rw is not None:
                ctx.divergence('a reachable state does not satisfy the hypothesis WF of theorem C13 (real objects)', hist, impl=rw); break
            ctx.count('tie:calls-compared')
            if err is not None:
                ctx.count('tie:failing-call-undo-entries:%s' % min(m['trail'], 6))
            if ops[i]['k'] == 'flush': ctx.count('tie:flush-compared')


# ---------------------------------------------------------------- regression inputs (defects found by this check, repaired in /repo)

def _c(ent, rev, casc=None): return {'ent': ent, 'kind': 'coll', 'req': False, 'opt_casc': casc, 'rev': rev}
def _r(ent, rev, req=False): return {'ent': ent, 'kind': 'ref', 'req': req, 'opt_casc': None, 'rev': rev}
def _s(ent, unique=False): return {'ent': ent, 'kind': 'scalar', 'req': False, 'unique': unique}

REGRESSIONS = [
    # fix: the undo of Set.reverse_remove used the flag of the last object for all of them
    ('reverse-remove-undo-in-added', 'ConstraintError',
     {'nent': 3, 'autopk': [False, False, False], 'ckeys': [], 'attrs': [_c(0, 1), _c(1, 0), _c(1, 3, casc=False), _r(2, 2, req=True)]},
     [{'k': 'create', 'e': 0, 'pk': 1, 'vals': []}, {'k': 'create', 'e': 0, 'pk': 2, 'vals': []}, {'k': 'create', 'e': 1, 'pk': 1, 'vals': []},
      {'k': 'add', 'o': 2, 'a': 1, 'items': [0]}, {'k': 'flush'}, {'k': 'add', 'o': 2, 'a': 1, 'items': [1]},
      {'k': 'create', 'e': 2, 'pk': 1, 'vals': [[3, {'ref': 2}]]}, {'k': 'delete', 'o': 2}]),
    # fix: Entity._delete_ undo ran in the wrong order (object that is a member of its own collection, cascade from a parent whose delete is refused)
    ('delete-undo-order', 'ConstraintError',
     {'nent': 3, 'autopk': [False, False, False], 'ckeys': [],
      'attrs': [_c(0, 2, casc=True), _c(0, 6, casc=False), _r(1, 0), _r(1, 4), _c(1, 3), _s(1), _r(2, 1, req=True)]},
     [{'k': 'create', 'e': 0, 'pk': 1, 'vals': []}, {'k': 'create', 'e': 1, 'pk': 1, 'vals': [[2, {'ref': 0}]]},
      {'k': 'create', 'e': 2, 'pk': 1, 'vals': [[6, {'ref': 0}]]}, {'k': 'flush'}, {'k': 'set', 'o': 1, 'a': 3, 'v': {'ref': 1}}, {'k': 'flush'},
      {'k': 'delete', 'o': 0}]),
    # fix: the undo of a failed attribute assignment raised KeyError when the old value was not loaded
    ('set-undo-pop-not-loaded', 'CacheIndexError',
     {'nent': 1, 'autopk': [False], 'ckeys': [[0, 1], [0, 2]], 'attrs': [_s(0), _s(0), _s(0)]},
     [{'k': 'create', 'e': 0, 'pk': 1, 'vals': [[0, {'s': 1}], [1, {'s': 1}], [2, {'s': 1}]]},
      {'k': 'create', 'e': 0, 'pk': 2, 'vals': [[1, {'s': 2}], [2, {'s': 1}]]}, {'k': 'flush'}, {'k': 'set', 'o': 1, 'a': 0, 'v': {'s': 1}}]),
]


def regressions(ctx):
    batch = []
    for name, experr, spec, ops in REGRESSIONS:
        ops = [dict(op) for op in ops]
        r = run_real(spec, ops, stop_on_change=False)
        ctx.case({'regression': name}, nontrivial=True, kind='regression')
        lasterr = r['steps'][-1][0] if len(r['steps']) == len(ops) else None
        ctx.count('regression:%s:%s' % (name, lasterr))
        if r['changed'] is not None:
            i, cats, detail = r['changed']
            report_change(ctx, spec, ops, i, vkey(ops[i], r['steps'][i][0], cats), detail)
        elif lasterr != experr:
            ctx.divergence('regression input no longer fails the way it did', {'schema': spec, 'ops': ops}, model=experr, impl=lasterr)
        elif len(r['steps']) == len(ops):
            batch.append((spec, r['w'], ops, r['steps']))
    tie_phase(ctx, batch)


# ---------------------------------------------------------------- primary keys that contain a relationship attribute (oracle only)

def generic_snapshot(cache, objs):
    """the whole session by introspection, independent of any schema description: every registered object (status, pk, _save_pos_,
    write bits, every value / SetData), every index of cache.indexes, objects_to_save, modified_collections, and the objects of
    cache.objects / index entries that are NOT registered (an object whose constructor raised must not be there)"""
    def I(x):
        for i, o in enumerate(objs):
            if o is x: return i
        return -1
    def C(v):
        if isinstance(v, core.Entity): return ['obj', I(v)]
        if isinstance(v, tuple): return [C(x) for x in v]
        if isinstance(v, core.SetData):
            return {'items': sorted(I(x) for x in v), 'added': sorted(I(x) for x in (v.added or ())), 'removed': sorted(I(x) for x in (v.removed or ())), 'count': v.count}
        return v
    out = {'objs': [], 'indexes': {}, 'to_save': [None if o is None else I(o) for o in cache.objects_to_save],
           'modcoll': {a.name + '@' + a.entity.__name__: sorted(I(o) for o in st) for a, st in cache.modified_collections.items() if st},
           'strangers': sorted(repr(type(o).__name__) + ':' + str(o._status_) for o in cache.objects if I(o) < 0)}
    for o in objs:
        out['objs'].append({'status': o._status_, 'pk': C(o._pkval_), 'save_pos': o._save_pos_, 'wbits': o._wbits_, 'in_cache': o in cache.objects,
                            'vals': {a.name: C(v) for a, v in sorted((o._vals_ or {}).items(), key=lambda p: p[0].name)}})
    for key, d in cache.indexes.items():
        name = '+'.join(a.name for a in key) + '@' + key[0].entity.__name__ if isinstance(key, tuple) else key.name + '@' + key.entity.__name__
        ent = sorted(([C(k), I(o)] for k, o in d.items()), key=repr)
        if ent: out['indexes'][name] = ent
    return out


def generic_diff(b, a):
    cats = []
    for i, (x, y) in enumerate(zip(b['objs'], a['objs'])):
        for f in x:
            if x[f] != y[f]: cats.append('value' if f == 'vals' else f)
    if len(b['objs']) != len(a['objs']): cats.append('objects')
    if b['indexes'] != a['indexes']: cats.append('index')
    for f in ('to_save', 'modcoll', 'strangers'):
        if b[f] != a[f]: cats.append('cache.objects' if f == 'strangers' else f)
    return sorted(set(cats))


def relpk_classes(kind):
    """entities whose primary key contains a relationship attribute"""
    db = Database()
    dp = {'id': PrimaryKey(int), 'child': Optional('C', reverse='p'), 'tag': Optional(int)}
    dq = {'id': PrimaryKey(int), 'cs': Set('C', reverse='q')}
    if kind == 'single':          # C.p is the whole primary key (one-to-one)
        dc = {'p': PrimaryKey('P', reverse='child'), 'q': Optional('Q', reverse='cs'), 'label': Optional(int)}
    elif kind == 'pair':          # PrimaryKey(p, no): one-to-one partner + int
        dc = {'p': Required('P', reverse='child'), 'no': Required(int), 'q': Optional('Q', reverse='cs'), 'label': Optional(int)}
        dc['_indexes_'] = [core.Index(dc['p'], dc['no'], is_pk=True)]
    elif kind == 'two-first':     # PrimaryKey(p, q): the one-to-one partner is linked first
        dc = {'p': Required('P', reverse='child'), 'q': Required('Q', reverse='cs'), 'label': Optional(int)}
        dc['_indexes_'] = [core.Index(dc['p'], dc['q'], is_pk=True)]
    else:                         # PrimaryKey(q, p): the many-to-one parent is linked first, then the one-to-one partner fails
        dc = {'q': Required('Q', reverse='cs'), 'p': Required('P', reverse='child'), 'label': Optional(int)}
        dc['_indexes_'] = [core.Index(dc['q'], dc['p'], is_pk=True)]
    P = type('P', (db.Entity,), dp); Q = type('Q', (db.Entity,), dq); Cc = type('C', (db.Entity,), dc)
    db.bind('sqlite', ':memory:'); db.generate_mapping(create_tables=True)
    return db, P, Q, Cc


def relpk_run(kind, ops):
    """replays a history; returns (step index, error class, categories) of the first failing call that changed the session, or None"""
    db, P, Q, Cc = relpk_classes(kind)
    objs = []
    bad = None
    relpk_run.errors = errors = []
    with db_session:
        cache = db._get_cache()
        for i, op in enumerate(ops):
            refs = [v for f, v in (op[1].items() if op[0] == 'C' else []) if f in ('p', 'q') and v is not None] + \
                   ([op[1]] if op[0] in ('delete', 'set') else []) + ([op[3]] if op[0] == 'set' and op[2] in ('p', 'q', 'child') and op[3] is not None else [])
            if any(r >= len(objs) for r in refs): continue      # an earlier constructor failed: the object this call names does not exist
            before = generic_snapshot(cache, objs)
            err = None
            try:
                k = op[0]
                if k == 'P': objs.append(P(id=op[1]))
                elif k == 'Q': objs.append(Q(id=op[1]))
                elif k == 'C':
                    kw = dict(op[1])
                    for f in ('p', 'q'):
                        if kw.get(f) is not None: kw[f] = objs[kw[f]]
                    objs.append(Cc(**kw))
                elif k == 'flush': flush()
                elif k == 'delete': objs[op[1]].delete()
                elif k == 'set': setattr(objs[op[1]], op[2], objs[op[3]] if op[2] in ('p', 'q', 'child') and op[3] is not None else op[3])
            except Exception as e:
                err = type(e).__name__
            if err is not None: errors.append((op[0], err))
            if err is not None and op[0] != 'flush':
                cats = generic_diff(before, generic_snapshot(cache, objs))
                if cats: bad = (i, err, cats); break
            if err is not None and op[0] == 'flush': break
        rollback()
    db.disconnect()
    return bad


def relpk_phase(ctx, rng, nhist):
    """constructors (and other calls) on entities whose primary key contains a relationship attribute: _get_from_identity_map_ links the
    primary-key attributes itself, before Entity.__init__ handles the others.  Before/after oracle on the real objects only (the Lean model
    has int primary keys)."""
    directed = [('pair', [('P', 1), ('C', {'p': 0, 'no': 1}), ('C', {'p': 0, 'no': 2})]),
                ('pair', [('P', 1), ('C', {'p': 0, 'no': 1}), ('flush',), ('C', {'p': 0, 'no': 2, 'label': 5})]),
                ('single', [('P', 1), ('P', 2), ('delete', 1), ('C', {'p': 1})]),
                ('two-second', [('P', 1), ('Q', 1), ('Q', 2), ('C', {'p': 0, 'q': 1}), ('C', {'p': 0, 'q': 2})])]
    hists = list(directed)
    for _ in range(nhist):
        kind = rng.choice(['single', 'pair', 'pair', 'two-first', 'two-second'])
        ops, ents = [], []           # ents[i] = 'P' | 'Q' | 'C' for created (attempted-successful not known in advance: replay decides)
        n = {'P': 0, 'Q': 0}
        def idx_of(e): return [i for i, x in enumerate(ents) if x == e]
        for step in range(rng.choice([5, 7, 9])):
            r = rng.random()
            if step < 2 or r < 0.2:
                e = 'P' if (step == 0 or rng.random() < 0.6) else 'Q'
                n[e] += 1; ops.append((e, n[e] if rng.random() < 0.9 else 1)); ents.append(e)
            elif r < 0.6 and idx_of('P'):
                kw = {'p': rng.choice(idx_of('P'))}
                if kind in ('two-first', 'two-second'):
                    if not idx_of('Q'): continue
                    kw['q'] = rng.choice(idx_of('Q'))
                elif idx_of('Q') and rng.random() < 0.5: kw['q'] = rng.choice(idx_of('Q'))
                if kind == 'pair': kw['no'] = rng.choice([1, 1, 2, 3])
                if rng.random() < 0.4: kw['label'] = rng.choice([0, 1])
                ops.append(('C', kw)); ents.append('C')
            elif r < 0.7: ops.append(('flush',))
            elif r < 0.85 and ents: ops.append(('delete', rng.randrange(len(ents))))
            elif idx_of('C'): ops.append(('set', rng.choice(idx_of('C')), 'label', rng.choice([0, 1, None])))
        hists.append((kind, ops))
    for kind, ops in hists:
        # object numbering follows successful constructor calls: a history whose earlier constructor fails is renumbered by dropping it
        ops = list(ops)
        while True:
            try: bad = relpk_run(kind, ops)
            except IndexError: bad = 'renumber'
            except Exception as e:
                ctx.count('relpk:history-crashed:' + type(e).__name__); bad = None
            break
        ctx.case({'relpk': kind, 'ops': ops}, nontrivial=True, kind='relpk-history')
        for opk, e in getattr(relpk_run, 'errors', []): ctx.count('relpk:failing-call:%s:%s:%s' % (kind, opk, e))
        if bad == 'renumber' or bad is None:
            ctx.count('relpk:histories-unchanged' if bad is None else 'relpk:history-skipped'); continue
        i, err, cats = bad
        small = ops[:i + 1]
        changed = True
        while changed:                       # greedy shrink: drop calls that are neither constructors nor needed
            changed = False
            for j in range(len(small) - 2, -1, -1):
                if small[j][0] in ('P', 'Q', 'C'): continue
                cand = small[:j] + small[j + 1:]
                try: b2 = relpk_run(kind, cand)
                except Exception: b2 = None
                if b2 is not None and b2 != 'renumber' and b2[0] == len(cand) - 1 and b2[1:] == (err, cats):
                    small = cand; changed = True; break
        ctx.count('oracle:relpk-state-changed')
        ctx.violation('a call that raised left the session changed (primary key with a relationship attribute)',
                      {'relpk_kind': kind, 'ops': [list(o) for o in small]}, observed={'error': err, 'changed': cats},
                      expected='observation after the failing call == observation before it',
                      key='failed-call-changed-session:relpk-%s/%s/%s/%s' % (kind, small[-1][0], err, '+'.join(cats)))


def run(ctx):
    rng = ctx.rng
    regressions(ctx)
    relpk_phase(ctx, rng, ctx.scale(60, 1500))
    batch = oracle_phase(ctx, rng, ctx.scale(150, 3000), ctx.scale(22, 30))
    tie_phase(ctx, batch)


def replay(ctx, data):
    inp = data.get('input') or {}
    if 'relpk_kind' in inp:
        ops = [tuple(o) for o in inp['ops']]
        bad = relpk_run(inp['relpk_kind'], ops)
        ctx.case({'replay': True}, kind='replay')
        if bad is not None:
            ctx.violation('a call that raised left the session changed (primary key with a relationship attribute)', inp,
                          observed={'error': bad[1], 'changed': bad[2]}, key=data.get('key'))
    elif 'schema' in inp and 'ops' in inp:
        v = first_change(inp['schema'], inp['ops'])
        ctx.case({'replay': True}, kind='replay')
        if v is not None: report_change(ctx, inp['schema'], inp['ops'], v[0], v[1], v[2])
    else:
        run(ctx)
