"""C04 — outer-scope expressions inside a query are evaluated exactly as Python would.

Model (lean/PonyVerif/Model/PyPrint.lean): PythonTranslator's printer as written + a reference parser of the Python
expression grammar; theorems in Props/C04.lean: parse (print e) = e for every expression of the modelled grammar.

Tie / oracle, every run:
 (1) random + exhaustive-small ASTs (built with Python's `ast`) -> real `ast2src` text compared EXACTLY with the
     model's text (divergence when different);
 (2) real CPython `ast.parse(ast2src(e), mode='eval')` compared with `e` (`ast.dump` after normalising) -- the
     property's second sentence on the real code: a changed tree is a VIOLATION; SyntaxError/AttributeError/
     NotImplementedError are accepted loud outcomes and are counted;  the same reparse validates the Lean reference
     parser (model `parse` == model `norm`, and a separate stream compares the Lean parser with CPython on token
     strings whose parentheses were randomly removed);
 (3) end-to-end: real queries (generator, lambda and string forms) whose condition contains an external
     subexpression over a random caller scope (locals, globals, closures, calls, attribute chains, subscripts,
     conditional expressions, f-strings); the parameter value Pony binds (`query._vars`) is compared with the value
     Python computes for the subexpression in place.
"""
import ast, copy, itertools, json, random, re, sys, traceback, warnings

warnings.simplefilter('ignore', SyntaxWarning)

from pony.orm.asttranslation import ast2src

ML, MR = '', ''

BINOPS = [(ast.BitOr, '|'), (ast.BitXor, '^'), (ast.BitAnd, '&'), (ast.LShift, '<<'), (ast.RShift, '>>'), (ast.Add, '+'),
          (ast.Sub, '-'), (ast.Mult, '*'), (ast.Div, '/'), (ast.FloorDiv, '//'), (ast.Mod, '%'), (ast.Pow, '**')]
BINOP_TEXT = dict(BINOPS)
CMPOPS = [(ast.Eq, '=='), (ast.NotEq, '!='), (ast.Lt, '<'), (ast.LtE, '<='), (ast.Gt, '>'), (ast.GtE, '>='), (ast.Is, 'is'),
          (ast.IsNot, 'is not'), (ast.In, 'in'), (ast.NotIn, 'not in')]
CMPOP_TEXT = dict(CMPOPS)


class Outside(Exception):
    """the tree uses something the Lean model does not cover (the real code is still checked by oracle 2)"""


def const_text(value):
    """text `postConstant` produces (Python's repr/str are trusted primitives)"""
    if value is Ellipsis: return '...'
    src = repr(value)
    if type(value) is float:
        s = str(value)
        if float(s) == value: src = s
    return src


def to_model(n):
    """Python ast -> the JSON encoding of the model's Expr (raises Outside for nodes outside the modelled grammar)"""
    t = type(n)
    if t is ast.Name: return ['name', n.id]
    if t is ast.Constant:
        s = const_text(n.value)
        return ['neg', s[1:]] if s.startswith('-') else ['const', s]
    if t is ast.BoolOp:
        if len(n.values) < 2: raise Outside('BoolOp with one value')
        return ['bool', isinstance(n.op, ast.Or), [to_model(v) for v in n.values]]
    if t is ast.UnaryOp:
        if isinstance(n.op, ast.Not): return ['not', to_model(n.operand)]
        if isinstance(n.op, ast.USub): return ['un', '-', to_model(n.operand)]
        if isinstance(n.op, ast.UAdd): return ['un', '+', to_model(n.operand)]
        raise Outside('Invert')
    if t is ast.Compare:
        if not n.ops: raise Outside('empty compare')
        return ['cmp', to_model(n.left), [[CMPOP_TEXT[type(o)], to_model(c)] for o, c in zip(n.ops, n.comparators)]]
    if t is ast.BinOp:
        if type(n.op) not in BINOP_TEXT: raise Outside('MatMult')
        return ['bin', BINOP_TEXT[type(n.op)], to_model(n.left), to_model(n.right)]
    if t is ast.IfExp: return ['if', to_model(n.body), to_model(n.test), to_model(n.orelse)]
    if t is ast.Lambda:
        a = n.args
        if a.posonlyargs or a.kwonlyargs: raise Outside('lambda posonly/kwonly')
        k = len(a.args) - len(a.defaults)
        ps = [['p', x.arg] for x in a.args[:k]] + [['d', x.arg, to_model(d)] for x, d in zip(a.args[k:], a.defaults)]
        if a.vararg: ps.append(['v', a.vararg.arg])
        if a.kwarg: ps.append(['k', a.kwarg.arg])
        return ['lam', ps, to_model(n.body)]
    if t is ast.Attribute: return ['attr', to_model(n.value), n.attr]
    if t is ast.Call:
        if len(n.args) == 1 and isinstance(n.args[0], ast.GeneratorExp): raise Outside('genexp')
        args = [['star', to_model(a.value)] if isinstance(a, ast.Starred) else ['pos', to_model(a)] for a in n.args]
        args += [['dstar', to_model(k.value)] if k.arg is None else ['kw', k.arg, to_model(k.value)] for k in n.keywords]
        return ['call', to_model(n.func), args]
    if t is ast.Subscript:
        x = n.slice
        if isinstance(x, ast.Tuple) and x.elts:
            return ['subT', to_model(n.value), [idx_model(i) for i in x.elts]]
        if isinstance(x, ast.Constant) and isinstance(x.value, tuple): raise Outside('constant tuple subscript')
        return ['sub', to_model(n.value), idx_model(x)]
    if t in (ast.List, ast.Tuple):
        return ['list' if t is ast.List else 'tuple',
                [['star', to_model(a.value)] if isinstance(a, ast.Starred) else ['pos', to_model(a)] for a in n.elts]]
    if t is ast.Dict:
        if any(k is None for k in n.keys): raise Outside('dict unpack')
        return ['dict', [[to_model(k), to_model(v)] for k, v in zip(n.keys, n.values)]]
    if t is ast.JoinedStr: return ['fstr', fparts(n.values)]
    if t is ast.FormattedValue: return ['fstr', fparts([n])]     # postFormattedValue: a one-field f-string
    raise Outside(t.__name__)


def idx_model(x):
    if isinstance(x, ast.Slice):
        return ['sl'] + [None if p is None else to_model(p) for p in (x.lower, x.upper, x.step)]
    if isinstance(x, ast.Starred): raise Outside('starred subscript')
    return ['ie', to_model(x)]


def fparts(values):
    out = []
    for it in values:
        if isinstance(it, ast.Constant):
            if not isinstance(it.value, str): raise Outside('non-str f-string part')
            out.append(['lit', it.value])
        elif isinstance(it, ast.FormattedValue):
            spec = it.format_spec
            if spec is not None:
                spec = fparts(spec.values if isinstance(spec, ast.JoinedStr) else [spec])
            out.append(['field', to_model(it.value), '' if it.conversion == -1 else chr(it.conversion), spec])
        else:
            raise Outside('f-string part ' + type(it).__name__)
    return out


def literal_escape(s):
    """the trusted primitive inside `joined_str_body.literal`: Python's repr-escaping of literal f-string text"""
    return repr('"' + s)[2:-1].replace('"', '\\"')


def finish_model_text(s):
    """the model leaves literal f-string text between markers; escaping it is Python's repr (glue, not modelled)"""
    return re.sub(ML + '(.*?)' + MR, lambda m: literal_escape(m.group(1)), s, flags=re.S)


# ---------------------------------------------------------------------------------------------------------------
# normalisation for oracle (2)

class _Norm(ast.NodeTransformer):
    def visit_UnaryOp(self, n):
        self.generic_visit(n)
        if isinstance(n.op, ast.USub) and isinstance(n.operand, ast.Constant) and type(n.operand.value) in (int, float, complex) \
                and not repr(n.operand.value).startswith(('-', '(')):
            return ast.Constant(value=-n.operand.value)       # the compiler folds it, the parser does not
        return n
    def visit_Tuple(self, n):
        self.generic_visit(n)
        if n.elts and all(isinstance(e, ast.Constant) for e in n.elts):
            return ast.Constant(value=tuple(e.value for e in n.elts))     # the compiler folds constant tuples
        return n
    def visit_JoinedStr(self, n):
        self.generic_visit(n)
        vals = []
        for v in n.values:
            if isinstance(v, ast.Constant):
                if v.value == '': continue
                if vals and isinstance(vals[-1], ast.Constant):
                    vals[-1] = ast.Constant(value=vals[-1].value + v.value); continue
            vals.append(v)
        return ast.JoinedStr(values=vals)
    def visit_FormattedValue(self, n):
        if n.format_spec is not None and not isinstance(n.format_spec, ast.JoinedStr):
            n.format_spec = ast.JoinedStr(values=[n.format_spec])
        self.generic_visit(n)
        return n


class _Fold(ast.NodeTransformer):
    """what the bytecode compiler folds (applied to both sides when a parameter is matched against the query text)"""
    OK = (int, float, str, bool)
    def visit_BinOp(self, n):
        self.generic_visit(n)
        if isinstance(n.left, ast.Constant) and isinstance(n.right, ast.Constant) and type(n.left.value) in self.OK and type(n.right.value) in self.OK:
            try:
                v = eval(compile(ast.fix_missing_locations(ast.Expression(body=copy.deepcopy(n))), '<fold>', 'eval'), {})
            except Exception:
                return n
            if type(v) in self.OK and len(repr(v)) < 40: return ast.Constant(value=v)
        return n
    def visit_UnaryOp(self, n):
        self.generic_visit(n)
        if isinstance(n.operand, ast.Constant) and type(n.operand.value) in (int, float) and not isinstance(n.op, ast.Not):
            try: v = eval(compile(ast.fix_missing_locations(ast.Expression(body=copy.deepcopy(n))), '<fold>', 'eval'), {})
            except Exception: return n
            return ast.Constant(value=v)
        return n


def normal_dump(tree, fold=False):
    t = copy.deepcopy(tree)
    if isinstance(t, ast.FormattedValue): t = ast.JoinedStr(values=[t])
    # lone FormattedValue nodes below the top
    class Lone(ast.NodeTransformer):
        def visit_JoinedStr(self, n):
            for v in n.values:
                if isinstance(v, ast.FormattedValue):
                    v.value = self.visit(v.value)
                    if v.format_spec is not None:
                        if isinstance(v.format_spec, ast.JoinedStr): self.visit_JoinedStr(v.format_spec)
                        elif isinstance(v.format_spec, ast.FormattedValue):
                            v.format_spec = ast.JoinedStr(values=[v.format_spec]); self.visit_JoinedStr(v.format_spec)
            return n
        def visit_FormattedValue(self, n):
            return self.visit_JoinedStr(ast.JoinedStr(values=[n]))
    t = Lone().visit(t)
    t = _Norm().visit(t)
    if fold: t = _Norm().visit(_Fold().visit(t))
    return ast.dump(t)


# ---------------------------------------------------------------------------------------------------------------
# generators of ASTs of the external-expression grammar

NAMES = ['a', 'b', 'c', 'x', 'f', 'g', 'o', 'd']
L = ast.Load()


def nm(s): return ast.Name(id=s, ctx=L)


class Gen:
    def __init__(self, rng, fold_neg=True, exotic=True):
        self.rng = rng; self.fold_neg = fold_neg; self.exotic = exotic
    def const(self):
        r = self.rng
        k = r.random()
        if k < .45: v = r.choice([0, 1, 2, 3, 10, 255, 2 ** 70])
        elif k < .6: v = r.choice([1.5, 0.0, 1e-7, 1e22, 2.5])
        elif k < .8: v = r.choice(['', 'a', "it's", 'q"t', 'a\nb', '{x}', 'back\\slash', 'é\x00'])
        elif k < .88: v = r.choice([None, True, False, Ellipsis, b'by', 1j])
        else: v = r.choice([-1, -2, -1.5, -0.0, -3]) if self.fold_neg else 7
        return ast.Constant(value=v)
    def atom(self):
        return nm(self.rng.choice(NAMES)) if self.rng.random() < .6 else self.const()
    def expr(self, d):
        r = self.rng
        if d <= 0 or r.random() < .12: return self.atom()
        k = r.choice(['bool', 'not', 'cmp', 'bin', 'bin', 'bin', 'un', 'pow', 'if', 'lam', 'attr', 'call', 'sub', 'list', 'tuple',
                      'dict', 'fstr', 'bin', 'cmp', 'attr', 'call', 'sub'])
        e = lambda: self.expr(d - 1)
        if k == 'bool': return ast.BoolOp(op=r.choice([ast.Or, ast.And])(), values=[e() for _ in range(r.choice([2, 2, 3]))])
        if k == 'not': return ast.UnaryOp(op=ast.Not(), operand=e())
        if k == 'cmp':
            n = r.choice([1, 1, 2])
            return ast.Compare(left=e(), ops=[r.choice(CMPOPS)[0]() for _ in range(n)], comparators=[e() for _ in range(n)])
        if k == 'bin': return ast.BinOp(left=e(), op=r.choice(BINOPS)[0](), right=e())
        if k == 'pow': return ast.BinOp(left=e(), op=ast.Pow(), right=e())
        if k == 'un': return ast.UnaryOp(op=r.choice([ast.USub, ast.UAdd])(), operand=e())
        if k == 'if': return ast.IfExp(test=e(), body=e(), orelse=e())
        if k == 'lam':
            names = r.sample(['u', 'v', 'w', 'z'], r.choice([0, 1, 2, 3]))
            nd = r.randint(0, len(names))
            args = ast.arguments(posonlyargs=[], args=[ast.arg(arg=x) for x in names], vararg=None, kwonlyargs=[], kw_defaults=[],
                                 kwarg=None, defaults=[e() for _ in range(nd)])
            if r.random() < .25: args.vararg = ast.arg(arg='rest')
            if r.random() < .25: args.kwarg = ast.arg(arg='kws')
            return ast.Lambda(args=args, body=e())
        if k == 'attr': return ast.Attribute(value=e(), attr=r.choice(['real', 'n', 'u']), ctx=L)
        if k == 'call':
            args = []
            for _ in range(r.choice([0, 1, 1, 2, 3])):
                args.append(ast.Starred(value=e(), ctx=L) if r.random() < .15 else e())
            kws = []
            for i in range(r.choice([0, 0, 1, 2])):
                kws.append(ast.keyword(arg=None if r.random() < .25 else 'k%d' % i, value=e()))
            return ast.Call(func=e(), args=args, keywords=kws)
        if k == 'sub':
            def item():
                if r.random() < .35:
                    return ast.Slice(lower=e() if r.random() < .6 else None, upper=e() if r.random() < .6 else None,
                                     step=e() if r.random() < .3 else None)
                return e()
            q = r.random()
            if q < .6: sl = item()
            elif q < .65: sl = ast.Tuple(elts=[], ctx=L)
            else: sl = ast.Tuple(elts=[item() for _ in range(r.choice([1, 1, 2, 3]))], ctx=L)
            return ast.Subscript(value=e(), slice=sl, ctx=L)
        if k in ('list', 'tuple'):
            elts = [ast.Starred(value=self.expr(0) if r.random() < .7 else e(), ctx=L) if r.random() < .12 else e()
                    for _ in range(r.choice([0, 1, 1, 2, 3]))]
            return (ast.List if k == 'list' else ast.Tuple)(elts=elts, ctx=L)
        if k == 'dict':
            n = r.choice([0, 1, 2])
            return ast.Dict(keys=[e() for _ in range(n)], values=[e() for _ in range(n)])
        if k == 'fstr': return self.fstr(d)
        raise AssertionError(k)
    def fstr(self, d, spec=False):
        r = self.rng
        vals = []
        for _ in range(r.choice([0, 1, 1, 2, 3])):
            if r.random() < .45:
                pool = ['', 'a', ' ', '>3', "'", '"', 'x\ny', '\\', 'é'] + ([] if spec else ['{', '}', '{{a}}'])
                s = r.choice(pool)
                if vals and isinstance(vals[-1], ast.Constant): continue
                if s == '': continue
                vals.append(ast.Constant(value=s))
            else:
                fs = None
                if r.random() < .35 and d > 0: fs = self.fstr(d - 1, spec=True)
                vals.append(ast.FormattedValue(value=self.expr(d - 1), conversion=r.choice([-1, -1, -1, 114, 115, 97]), format_spec=fs))
        return ast.JoinedStr(values=vals)


def fix(e):
    return ast.fix_missing_locations(ast.Expression(body=e)).body


def kinds_of(e):
    return sorted({type(n).__name__ if not isinstance(n, (ast.BinOp, ast.BoolOp, ast.UnaryOp)) else type(n.op).__name__
                   for n in ast.walk(e) if isinstance(n, ast.expr)})


def exhaustive_pairs():
    """every (parent kind, child position, child kind) combination: the place where a missing parenthesis would show"""
    def children():
        a, b, c = nm('a'), nm('b'), nm('c')
        yield 'name', lambda: nm('x')
        yield 'const', lambda: ast.Constant(value=1)
        yield 'negconst', lambda: ast.Constant(value=-1)
        yield 'negfloat', lambda: ast.Constant(value=-1.5)
        yield 'str', lambda: ast.Constant(value='s')
        yield 'or', lambda: ast.BoolOp(op=ast.Or(), values=[nm('a'), nm('b')])
        yield 'and', lambda: ast.BoolOp(op=ast.And(), values=[nm('a'), nm('b')])
        yield 'not', lambda: ast.UnaryOp(op=ast.Not(), operand=nm('a'))
        yield 'cmp', lambda: ast.Compare(left=nm('a'), ops=[ast.Lt()], comparators=[nm('b')])
        yield 'in', lambda: ast.Compare(left=nm('a'), ops=[ast.NotIn()], comparators=[nm('b')])
        for cls, txt in BINOPS:
            yield txt, (lambda cls=cls: ast.BinOp(left=nm('a'), op=cls(), right=nm('b')))
        yield 'usub', lambda: ast.UnaryOp(op=ast.USub(), operand=nm('a'))
        yield 'uadd', lambda: ast.UnaryOp(op=ast.UAdd(), operand=nm('a'))
        yield 'if', lambda: ast.IfExp(test=nm('a'), body=nm('b'), orelse=nm('c'))
        yield 'lambda', lambda: ast.Lambda(args=ast.arguments(posonlyargs=[], args=[ast.arg(arg='u')], vararg=None, kwonlyargs=[],
                                                            kw_defaults=[], kwarg=None, defaults=[]), body=nm('u'))
        yield 'lambda0', lambda: ast.Lambda(args=ast.arguments(posonlyargs=[], args=[], vararg=None, kwonlyargs=[],
                                                             kw_defaults=[], kwarg=None, defaults=[]), body=nm('a'))
        yield 'attr', lambda: ast.Attribute(value=nm('a'), attr='n', ctx=L)
        yield 'call', lambda: ast.Call(func=nm('f'), args=[nm('a')], keywords=[])
        yield 'sub', lambda: ast.Subscript(value=nm('a'), slice=nm('b'), ctx=L)
        yield 'list', lambda: ast.List(elts=[nm('a')], ctx=L)
        yield 'tuple', lambda: ast.Tuple(elts=[nm('a'), nm('b')], ctx=L)
        yield 'tuple1', lambda: ast.Tuple(elts=[nm('a')], ctx=L)
        yield 'tuple0', lambda: ast.Tuple(elts=[], ctx=L)
        yield 'dict', lambda: ast.Dict(keys=[nm('a')], values=[nm('b')])
        yield 'fstr', lambda: ast.JoinedStr(values=[ast.Constant(value='p'), ast.FormattedValue(value=nm('a'), conversion=-1, format_spec=None)])
    def parents(ch):
        one = lambda: nm('y')
        yield 'or.0', lambda: ast.BoolOp(op=ast.Or(), values=[ch(), one()])
        yield 'or.1', lambda: ast.BoolOp(op=ast.Or(), values=[one(), ch()])
        yield 'or.2', lambda: ast.BoolOp(op=ast.Or(), values=[one(), one(), ch()])
        yield 'and.0', lambda: ast.BoolOp(op=ast.And(), values=[ch(), one()])
        yield 'and.1', lambda: ast.BoolOp(op=ast.And(), values=[one(), ch()])
        yield 'not', lambda: ast.UnaryOp(op=ast.Not(), operand=ch())
        yield 'cmp.l', lambda: ast.Compare(left=ch(), ops=[ast.Eq()], comparators=[one()])
        yield 'cmp.r', lambda: ast.Compare(left=one(), ops=[ast.Eq()], comparators=[ch()])
        yield 'cmp.m', lambda: ast.Compare(left=one(), ops=[ast.Lt(), ast.Is()], comparators=[ch(), one()])
        yield 'cmp.rr', lambda: ast.Compare(left=one(), ops=[ast.Lt(), ast.In()], comparators=[one(), ch()])
        for cls, txt in BINOPS:
            yield txt + '.l', (lambda cls=cls: ast.BinOp(left=ch(), op=cls(), right=one()))
            yield txt + '.r', (lambda cls=cls: ast.BinOp(left=one(), op=cls(), right=ch()))
        yield 'usub', lambda: ast.UnaryOp(op=ast.USub(), operand=ch())
        yield 'uadd', lambda: ast.UnaryOp(op=ast.UAdd(), operand=ch())
        yield 'if.body', lambda: ast.IfExp(test=one(), body=ch(), orelse=one())
        yield 'if.test', lambda: ast.IfExp(test=ch(), body=one(), orelse=one())
        yield 'if.else', lambda: ast.IfExp(test=one(), body=one(), orelse=ch())
        yield 'lambda.body', lambda: ast.Lambda(args=ast.arguments(posonlyargs=[], args=[ast.arg(arg='u')], vararg=None, kwonlyargs=[],
                                                                 kw_defaults=[], kwarg=None, defaults=[]), body=ch())
        yield 'lambda.default', lambda: ast.Lambda(args=ast.arguments(posonlyargs=[], args=[ast.arg(arg='u')], vararg=None, kwonlyargs=[],
                                                                    kw_defaults=[], kwarg=None, defaults=[ch()]), body=one())
        yield 'attr', lambda: ast.Attribute(value=ch(), attr='n', ctx=L)
        yield 'call.func', lambda: ast.Call(func=ch(), args=[], keywords=[])
        yield 'call.arg', lambda: ast.Call(func=nm('f'), args=[ch(), one()], keywords=[])
        yield 'call.star', lambda: ast.Call(func=nm('f'), args=[ast.Starred(value=ch(), ctx=L)], keywords=[])
        yield 'call.kw', lambda: ast.Call(func=nm('f'), args=[], keywords=[ast.keyword(arg='k', value=ch())])
        yield 'call.dstar', lambda: ast.Call(func=nm('f'), args=[], keywords=[ast.keyword(arg=None, value=ch())])
        yield 'sub.value', lambda: ast.Subscript(value=ch(), slice=one(), ctx=L)
        yield 'sub.index', lambda: ast.Subscript(value=nm('d'), slice=ch(), ctx=L)
        yield 'sub.lower', lambda: ast.Subscript(value=nm('d'), slice=ast.Slice(lower=ch(), upper=one(), step=None), ctx=L)
        yield 'sub.upper', lambda: ast.Subscript(value=nm('d'), slice=ast.Slice(lower=None, upper=ch(), step=one()), ctx=L)
        yield 'sub.step', lambda: ast.Subscript(value=nm('d'), slice=ast.Slice(lower=None, upper=None, step=ch()), ctx=L)
        yield 'sub.tuple1', lambda: ast.Subscript(value=nm('d'), slice=ast.Tuple(elts=[ch()], ctx=L), ctx=L)
        yield 'sub.tuple2', lambda: ast.Subscript(value=nm('d'), slice=ast.Tuple(elts=[one(), ch()], ctx=L), ctx=L)
        yield 'list', lambda: ast.List(elts=[ch(), one()], ctx=L)
        yield 'list.star', lambda: ast.List(elts=[ast.Starred(value=ch(), ctx=L)], ctx=L)
        yield 'tuple', lambda: ast.Tuple(elts=[one(), ch()], ctx=L)
        yield 'tuple1', lambda: ast.Tuple(elts=[ch()], ctx=L)
        yield 'tuple.star', lambda: ast.Tuple(elts=[ast.Starred(value=ch(), ctx=L)], ctx=L)
        yield 'dict.key', lambda: ast.Dict(keys=[ch()], values=[one()])
        yield 'dict.value', lambda: ast.Dict(keys=[one()], values=[ch()])
        yield 'fstr.field', lambda: ast.JoinedStr(values=[ast.FormattedValue(value=ch(), conversion=-1, format_spec=None)])
        yield 'fstr.field!r:spec', lambda: ast.JoinedStr(values=[ast.Constant(value='{'), ast.FormattedValue(
            value=ch(), conversion=114, format_spec=ast.JoinedStr(values=[ast.Constant(value='>'), ast.FormattedValue(value=ch(), conversion=-1, format_spec=None)]))])
        yield 'fvalue', lambda: ast.FormattedValue(value=ch(), conversion=-1, format_spec=None)
        yield 'fvalue:spec', lambda: ast.FormattedValue(value=ch(), conversion=115, format_spec=ast.Constant(value='>3'))
    for cname, ch in children():
        for pname, mk in parents(ch):
            yield pname + '<-' + cname, fix(mk())
    # grand-parent chains for the positions that matter most
    for cname, ch in children():
        for pname, mk in parents(ch):
            if pname in ('**.l', '**.r', 'usub', 'attr', 'not', 'if.else', 'lambda.body', 'cmp.r', '-.r'):
                for gname, gk in parents(mk):
                    if gname in ('**.l', '**.r', 'usub', 'attr', '*.l', 'if.body', 'and.1', 'call.func', 'sub.value', 'fstr.field'):
                        yield gname + '<-' + pname + '<-' + cname, fix(gk())


# ---------------------------------------------------------------------------------------------------------------
# oracles (1) and (2)

LOUD = (SyntaxError, AttributeError, NotImplementedError, AssertionError, TypeError, ValueError)


def real_print(tree):
    t = copy.deepcopy(tree)
    try:
        return {'src': ast2src(t)}
    except LOUD as e:
        return {'error': type(e).__name__}


def reparse(src):
    try:
        return ast.parse(src, mode='eval').body
    except (SyntaxError, ValueError, MemoryError, RecursionError) as e:
        return None


def shrink_tree(tree, bad):
    """greedy: replace the tree by a sub-expression, or a sub-expression by a name, while `bad` stays true"""
    cur = tree
    for _ in range(200):
        changed = False
        for sub in ast.walk(cur):
            if sub is cur or not isinstance(sub, ast.expr) or isinstance(sub, (ast.Starred, ast.Slice)): continue
            try:
                if bad(fix(copy.deepcopy(sub))):
                    cur = fix(copy.deepcopy(sub)); changed = True; break
            except Exception:
                pass
        if changed: continue
        for parent in ast.walk(cur):
            for field, val in ast.iter_fields(parent):
                cands = [(None, val)] if isinstance(val, ast.expr) else [(i, v) for i, v in enumerate(val)] if isinstance(val, list) else []
                for i, v in cands:
                    if not isinstance(v, ast.expr) or isinstance(v, (ast.Name, ast.Starred, ast.Slice, ast.FormattedValue)): continue
                    if isinstance(parent, ast.JoinedStr): continue
                    trial = copy.deepcopy(cur)
                    # locate the same position in the copy
                    for p2 in ast.walk(trial):
                        if ast.dump(p2) == ast.dump(parent):
                            if i is None: setattr(p2, field, nm('q'))
                            else: getattr(p2, field)[i] = nm('q')
                            break
                    try:
                        if ast.dump(trial) != ast.dump(cur) and bad(fix(trial)):
                            cur = fix(trial); changed = True; break
                    except Exception:
                        pass
                if changed: break
            if changed: break
        if not changed: break
    return cur


def meaning_changed(tree):
    r = real_print(tree)
    if 'src' not in r: return False
    back = reparse(r['src'])
    return back is not None and normal_dump(back) != normal_dump(tree)


def canon_names(tree):
    """rename names in order of first appearance so that the key of a finding is stable"""
    t = copy.deepcopy(tree); m = {}
    for n in ast.walk(t):
        if isinstance(n, ast.Name):
            n.id = m.setdefault(n.id, 'v%d' % len(m))
    return t


def check_trees(ctx, trees, kind):
    """trees: list of (label, ast).  Runs the model and the real printer on all of them."""
    reqs, idx = [], []
    for i, (label, tree) in enumerate(trees):
        try:
            reqs.append({'op': 'print', 'e': to_model(tree)}); idx.append(i)
        except Outside as e:
            ctx.count('outside-model:' + str(e).split(' ')[0])
    outs = ctx.driver('C04', reqs) if (ctx.driver.ok and reqs) else []
    model = {i: o for i, o in zip(idx, outs)}
    for i, (label, tree) in enumerate(trees):
        d = ast.dump(tree)
        ctx.case([kind, d], nontrivial=True, kind=kind)
        for k in kinds_of(tree): ctx.count('node:' + k)
        real = real_print(tree)
        m = model.get(i)
        # (1) exact text
        if m is not None:
            if 'driver_error' in m:
                ctx.divergence('driver rejected the expression', d, model=m, impl=real)
            elif 'src' in real:
                mt = finish_model_text(m['src'])
                if mt != real['src']:
                    ctx.divergence('model text differs from ast2src', d, model=mt, impl=real['src'])
                else:
                    ctx.count('text-equal')
                # the Lean parser on the model's tokens returns what the theorem says
                if m['parse'] != m['norm']:
                    ctx.count('lean-parse-differs-from-norm')
                    ctx.extra.setdefault('lean_parse_mismatch', []).append({'tree': d, 'src': real['src']})
                else:
                    ctx.count('lean-roundtrip-ok')
            else:
                ctx.count('real-error-inside-model:' + real['error'])
                ctx.divergence('real printer raises on an expression of the modelled grammar', d, model=m.get('src'), impl=real)
        # (2) the property on the real code
        if 'src' not in real:
            ctx.count('loud:print:' + real['error']); continue
        back = reparse(real['src'])
        if back is None:
            ctx.count('loud:recompile:SyntaxError')
            if m is not None and 'parse' in m and m['parse'] is not None and m['parse'] == m['norm']:
                ctx.count('cpython-rejects-what-the-token-model-accepts')    # e.g. `1.real`: tokenizer level
            continue
        if normal_dump(back) != normal_dump(tree):
            small = shrink_tree(tree, meaning_changed)
            ssrc = real_print(small).get('src')
            key = 'reparse:' + ast.dump(canon_names(small))
            ctx.violation('ast2src text compiles to a different expression', {'tree': ast.dump(small), 'found_in': d, 'stream': kind},
                          observed={'src': ssrc, 'reparsed': ast.dump(reparse(ssrc)) if ssrc else None},
                          expected=ast.dump(small), key=key)
        else:
            ctx.count('reparse-equal')
            if m is not None and m.get('parse') != m.get('norm'):
                # CPython agrees with the tree but the Lean reference parser does not: the reference parser is wrong
                ctx.divergence('Lean reference parser disagrees with CPython on printed text', d, model=m.get('parse'), impl=real['src'])


# ---------------------------------------------------------------------------------------------------------------
# the Lean reference parser against CPython on token strings with randomly removed / added parentheses

TOK_RE = re.compile(r"\s*(?:(\d+)|([A-Za-z_][A-Za-z_0-9]*)|(\*\*|//|<<|>>|<=|>=|==|!=|[-+*/%|^&<>()\[\]{},:.=]))")
KEYWORDS = {'lambda', 'if', 'else', 'or', 'and', 'not', 'in', 'is'}


def tokenize(src):
    out = []; pos = 0; src = src.strip()
    while pos < len(src):
        m = TOK_RE.match(src, pos)
        if not m: return None
        pos = m.end()
        if m.group(1): out.append(['c', m.group(1)])
        elif m.group(2):
            w = m.group(2)
            if w in ('None', 'True', 'False'): out.append(['c', w])
            elif w in KEYWORDS: out.append(w)
            else: out.append(['n', w])
        else: out.append(m.group(3))
    # `not in`, `is not` are single comparison tokens of the model
    res = []
    i = 0
    while i < len(out):
        if out[i] == 'not' and i + 1 < len(out) and out[i + 1] == 'in': res.append('not in'); i += 2
        elif out[i] == 'is' and i + 1 < len(out) and out[i + 1] == 'not': res.append('is not'); i += 2
        else: res.append(out[i]); i += 1
    return res


def parser_tie(ctx, n):
    """random expressions without strings/f-strings/negative constants -> text -> drop or add parentheses at random ->
    CPython's parse (tree or SyntaxError) must equal the Lean reference parser's result"""
    if not ctx.driver.ok: return
    rng = random.Random(ctx.seed * 7919 + 17)
    g = Gen(rng, fold_neg=False)
    g.const = lambda: ast.Constant(value=rng.choice([0, 1, 2, 7, None, True]))
    srcs = []
    tries = 0
    while len(srcs) < n and tries < n * 20:
        tries += 1
        t = fix(g.expr(rng.choice([1, 2, 2, 3])))
        if any(isinstance(x, (ast.JoinedStr, ast.FormattedValue)) for x in ast.walk(t)): continue
        r = real_print(t)
        if 'src' not in r: continue
        s = r['src']
        # mutate parentheses
        chars = list(s)
        for _ in range(rng.choice([0, 1, 1, 2])):
            opens = [i for i, c in enumerate(chars) if c == '(']
            if not opens: break
            i = rng.choice(opens)
            depth = 0
            for j in range(i, len(chars)):
                if chars[j] == '(': depth += 1
                elif chars[j] == ')':
                    depth -= 1
                    if depth == 0:
                        if i > 0 and (chars[i - 1].isalnum() or chars[i - 1] in ')]_'): break     # a call: keep
                        chars[j] = ' '; chars[i] = ' '; break
        s2 = ' '.join(''.join(chars).split())
        if re.search(r'\d\s*\.', s2): continue      # `1.real`: a tokenizer matter, outside the token model
        srcs.append(s2)
    reqs, keep = [], []
    for s in srcs:
        tk = tokenize(s)
        if tk is None: ctx.count('parser-tie:untokenizable'); continue
        reqs.append({'op': 'parse_toks', 'toks': tk}); keep.append(s)
    outs = ctx.driver('C04', reqs)
    for s, o in zip(keep, outs):
        ctx.case(['parser-tie', s], kind='parser-tie')
        py = reparse(s)
        if py is None:
            try: ast.parse(s, mode='eval'); msg = ''
            except SyntaxError as e: msg = str(e)
            except Exception as e: msg = type(e).__name__
            if re.search(r'follows|duplicate argument|keyword argument repeated|may appear only once|cannot follow var-keyword|must follow bare', msg):
                # order / multiplicity rules of argument and parameter lists (one *name, nothing after **name, defaults last):
                # outside the expression grammar that is modelled - the printer writes parameters in postarguments' fixed order
                ctx.count('parser-tie:cpython-argument-order-rule'); continue
        try:
            want = None if py is None else to_model(py)
        except Outside:
            ctx.count('parser-tie:outside'); continue
        got = o.get('parse') if 'driver_error' not in o else {'driver_error': o['driver_error']}
        if want is None: ctx.count('parser-tie:both-reject' if got is None else 'parser-tie:lean-accepts-cpython-rejects')
        else: ctx.count('parser-tie:accepted')
        if got is None and isinstance(py, ast.Tuple):
            ctx.count('parser-tie:bare-top-level-tuple'); continue     # `a, b` at top level: not an expression of the grammar
        if got != want:
            ctx.divergence('Lean reference parser and CPython disagree', s, model=got, impl=want)


# ---------------------------------------------------------------------------------------------------------------
# oracle (3): end-to-end on real queries

class TExpr:
    """typed random source text of an external expression over the scope built by `scope_values`"""
    def __init__(self, rng): self.r = rng
    def i(self, d):
        r = self.r
        if d <= 0 or r.random() < .2:
            return r.choice(['a', 'b', 'c', 'k', 'n1', 'n2', 'GA', 'GB', '0', '1', '2', '3', '5', '(-1)', '(-2)', 'o.n', 'o.u.n', 'GO.n',
                             'lst[0]', 'lst[-1]', "d['k']", 'd[1, 2]', 'd[(k,)]', 'd[k,]', 'len(s)', 'gf(a)', 'cf(b)', 'o.m(c)',
                             'o.m(c, y=a)', 'o.u.m(k)', 'GD[GA]', 'lst[1:][0]', 'd[()]'])
        X = lambda: self.i(d - 1); B = lambda: self.b(d - 1); S = lambda: self.s(d - 1)
        k = r.randrange(31)
        if k < 8: return '%s %s %s' % (self.par(X()), r.choice(['+', '-', '*', '&', '|', '^']), self.par(X()))
        if k == 8: return '%s %s (%s %% 3 + 1)' % (self.par(X()), r.choice(['//', '%']), X())
        if k == 9: return '%s %s (%s %% 3)' % (self.par(X()), r.choice(['<<', '>>']), X())
        if k == 10: return '%s ** (%s %% 3)' % (self.par(X()), X())
        if k == 11: return '(-%s) ** 2' % r.choice(['1', '2', '3'])
        if k == 12: return '%s%s' % (r.choice(['-', '+', '- -', '-+']), self.par(X()))
        if k == 13: return '%s if %s else %s' % (X(), B(), X())
        if k == 14: return '(%s if %s else %s) %s %s' % (X(), B(), X(), r.choice(['+', '*', '-', '**']), r.choice(['1', '2', 'a']))
        if k == 15: return '(%s, %s)[%s]' % (X(), X(), B())
        if k == 16: return '%s(%s, %s)' % (r.choice(['max', 'min', 'gf', 'cf', 'o.m']), X(), X())
        if k == 17: return 'abs(%s)' % X()
        if k == 18: return 'gf(*[%s, %s])' % (X(), X())
        if k == 19: return "gf(%s, **{'y': %s})" % (X(), X())
        if k == 20: return '%s and %s or %s' % (B(), X(), X())
        if k == 21: return '(%s or %s) + 1' % (X(), X())
        if k == 22: return '(%s and %s) * 2' % (X(), X())
        if k == 23: return 'int(%s)' % B()
        if k == 24: return 'len(%s)' % S()
        if k == 25: return '(lambda u, v=%s: u + v)(%s)' % (X(), X())
        if k == 26: return 'lst[%s %% 3]' % X()
        if k == 27: return '(%s).real' % X()
        if k == 28: return '[%s, %s][%s:][0]' % (X(), X(), B())
        if k == 29: return r.choice(['[(lambda: %s)()][0]', "{'k': (lambda: %s)()}['k']", '[(lambda u: u + %s)(1)][0]', 'gf(*[(lambda: %s)()])',
                                     'gf(0, *[(lambda u: u + %s)(1)])']) % X()
        return "{'p': %s, 'q': %s}[%s]" % (X(), X(), "'p' if %s else 'q'" % B())
    def par(self, x):
        return '(%s)' % x if self.r.random() < .5 else x
    def b(self, d):
        r = self.r
        X = lambda: self.i(d - 1)
        k = r.randrange(9)
        if k == 0: return '%s %s %s' % (X(), r.choice(['<', '<=', '==', '!=', '>', '>=']), X())
        if k == 1: return '%s < %s <= %s' % (X(), X(), X())
        if k == 2: return 'not %s' % self.par(X())
        if k == 3: return '%s %s lst' % (X(), r.choice(['in', 'not in']))
        if k == 4: return '%s %s None' % (r.choice(['a', 'o', 'GN']), r.choice(['is', 'is not']))
        if k == 5 and d > 0: return '%s %s %s' % (self.par(self.b(d - 1)), r.choice(['and', 'or']), self.par(self.b(d - 1)))
        if k == 6 and d > 0: return 'not (%s) == %s' % (self.b(d - 1), r.choice(['True', 'False']))
        if k == 7: return "s.startswith('a')"
        return r.choice(['True', 'False', 'a', 'b > 0'])
    def s(self, d):
        r = self.r
        if d <= 0 or r.random() < .2:
            return r.choice(['s', 't', 'cs', 'GS', "'lit'", '"it\'s"', 'o.name', "d['s']", 'lst2[0]'])
        X = lambda: self.i(d - 1); B = lambda: self.b(d - 1); S = lambda: self.s(d - 1)
        k = r.randrange(28)
        if k == 0: return '%s + %s' % (S(), S())
        if k == 1: return '%s * (%s %% 3)' % (self.par(S()), X())
        if k == 2: return '%s[%s %% 2:]' % (self.par(S()), X())
        if k == 3: return '%s.upper()' % self.par(S())
        if k == 4: return "%s.replace('a', %s)" % (self.par(S()), S())
        if k == 5: return 'str(%s)' % X()
        if k == 6: return "'-'.join([%s, %s])" % (S(), S())
        if k == 7: return "'%%s=%%d' %% (%s, %s)" % (S(), X())
        if k == 8: return '%s if %s else %s' % (S(), B(), S())
        if k == 9: return 'f"{%s}"' % S()
        if k == 10: return 'f"{%s}"' % X()
        if k == 11: return 'f"{%s!r}"' % r.choice([S(), X()])
        if k == 12: return 'f"{%s!r:>{%s %% 5 + 3}}"' % (S(), X())
        if k == 13: return 'f"{{{%s}}}"' % S()
        if k == 14: return 'f"{%s:03d}|{%s:^7}"' % (X(), S())
        if k == 15: return 'f"{\'\\t\'.join([%s, %s])}"' % (S(), S())
        if k == 16: return 'f"{ {1: %s} }"' % X()
        if k == 17: return 'f"{%s + \'\\n\'}x"' % S()
        if k == 18: return 'f"{%s if %s else %s:>4}"' % (X(), B(), X())
        if k == 19: return 'f"{(lambda: %s)()}"' % S()
        if k == 20: return 'f"{d[\'k\']}{%s!a}"' % S()
        if k == 21: return 'f"{f\'{%s}\':>5}"' % X()
        if k == 22: return 'f"a{%s}b{%s!s}c"' % (X(), S())
        if k == 23: return 'f"{%s:{%s}}"' % (S(), r.choice(['a + 3', "'>5'", 'k + 4']))
        if k == 24: return 'f"{%s:>3}"' % X()
        if k == 25: return 'f"\\{%s}\\n\'q\'"' % S()
        if k == 26: return 'f"{%s}" + f"{%s}"' % (X(), S())
        return "f'{%s}{{}}' 'tail'" % S()


class Obj:
    def __init__(self, n, name, u=None): self.n = n; self.name = name; self.u = u
    def m(self, x, y=1): return x * 2 + y - self.n


def _gf(x, y=0): return x - y


E2E_GLOBALS = None
_keep = []


def e2e_setup():
    global E2E_GLOBALS
    if E2E_GLOBALS is not None: return E2E_GLOBALS
    from pony.orm import Database, Required, Optional, select, db_session
    db = Database()
    class P(db.Entity):
        x = Optional(int)
        s = Optional(str)
        f = Optional(float)
    db.bind('sqlite', ':memory:')
    db.generate_mapping(create_tables=True)
    E2E_GLOBALS = {'P': P, 'select': select, 'db_session': db_session, 'gf': _gf, 'GN': None, '__name__': 'c04_e2e'}
    return E2E_GLOBALS


TEMPLATE = """
def outer(n1, n2, cs, cf):
    def run(a, b, c, s, t, o, d, lst, lst2, k):
        n1, n2, cs, cf
        try: exp = ('ok', %(expr)s)
        except Exception as e: exp = ('err', type(e).__name__)
        q = None
        try:
            q = %(query)s
            res = ('ok', q)
        except Exception as e:
            res = ('err', e)
        return exp, res
    return run
"""


def query_text(form, col, expr):
    cond = 'p.%s == (%s)' % (col, expr)
    if form == 'gen': return 'select(p for p in P if %s)' % cond
    if form == 'lam': return 'P.select(lambda p: %s)' % cond
    if form == 'str': return 'select(%r)' % ('p for p in P if %s' % cond)
    if form == 'lamstr': return 'P.select(%r)' % ('lambda p: %s' % cond)
    if form == 'filter': return 'P.select().filter(lambda p: %s)' % cond
    raise AssertionError(form)


def scope_values(rng):
    iv = lambda: rng.choice([-3, -2, -1, 0, 1, 2, 3, 4, 7])
    sv = lambda: rng.choice(['', 'a', 'ab', 'Abc', "q'z", 'x"y', '{b}', 'a\\b', 'é'])
    k = rng.choice([0, 1, 2])
    u = Obj(iv(), sv())
    o = Obj(iv(), sv(), u)
    d = {'k': iv(), 's': sv(), (1, 2): iv(), (k,): iv() + 100, k: iv() + 200, (): 42}
    lst = [iv(), iv(), iv(), iv()]
    clo = dict(n1=iv(), n2=iv(), cs=sv(), cf=lambda x, y=0, m=iv(): x + m - y)
    loc = dict(a=iv(), b=iv(), c=iv(), s=sv(), t=sv(), o=o, d=d, lst=lst, lst2=[sv(), sv()], k=k)
    glo = dict(GA=rng.choice([0, 1, 2]), GB=iv(), GS=sv(), GO=Obj(iv(), sv()), GD={0: iv(), 1: iv(), 2: iv()},
               a=1000 + iv(), s='GLOBAL' + sv())     # module-level names shadowed by the caller's locals
    return clo, loc, glo


def typed(v):
    if isinstance(v, list): v = tuple(v)       # extract_vars: an unsupported sequence type is passed as a tuple
    return [type(v).__name__, v if isinstance(v, (int, float, str, bool, type(None))) else repr(v)]


def e2e_case(ctx, recorder, form, expr, clo, loc, glo, label):
    """returns a failure dict or None"""
    G = e2e_setup()
    G.update(glo)
    results = {}
    # the column is chosen by the type of the value Python computes
    probe_src = TEMPLATE % {'expr': expr, 'query': 'None'}
    ns = {}
    try:
        exec(compile(probe_src, '<c04-probe>', 'exec'), G, ns)
    except SyntaxError:
        ctx.count('e2e:generator-made-invalid-source'); return None
    exp, _ = ns['outer'](**clo)(**loc)
    col = 'x'
    if exp[0] == 'ok':
        v = exp[1]
        col = 's' if isinstance(v, str) else 'f' if isinstance(v, float) else 'x'
        if not isinstance(v, (int, float, str)):
            ctx.count('e2e:value-of-unsupported-type'); return None
    src = TEMPLATE % {'expr': expr, 'query': query_text(form, col, expr)}
    ns = {}
    exec(compile(src, '<c04-e2e-%d>' % len(_keep), 'exec'), G, ns)
    run = ns['outer'](**clo); _keep.append(run)
    recorder.clear(); recorder.trees = []
    with G['db_session']:
        exp, res = run(**loc)
    ctx.case(['e2e', form, expr, label], kind='e2e:' + form)
    for n in ast.walk(ast.parse(expr, mode='eval')):
        if isinstance(n, (ast.IfExp, ast.JoinedStr, ast.Lambda, ast.Subscript, ast.Attribute, ast.Call, ast.BoolOp, ast.Compare, ast.Starred)):
            ctx.count('e2e-node:' + type(n).__name__)
    from pony.orm.core import ExprEvalError
    if res[0] == 'err':
        e = res[1]
        if isinstance(e, ExprEvalError):
            cause = type(e.cause).__name__ if hasattr(e, 'cause') else re.sub(r'.* raises (\w+):.*', r'\1', str(e), flags=re.S)
            if exp[0] == 'err':
                ctx.count('e2e:both-raise')
                if cause != exp[1]:
                    return {'what': 'different exception', 'python': exp[1], 'pony': cause}
                return None
            if cause == 'NameError':
                ctx.count('e2e:loud:ExprEvalError(NameError)'); return None      # loud; e.g. a lambda body cannot see eval's locals
            fail = {'what': 'Pony fails to evaluate an expression Python evaluates', 'python': typed(exp[1]), 'pony': str(e)[:200]}
            # is it an operand Python skips (untaken branch of a conditional expression, short-circuited operand of and/or) that Pony
            # evaluates on its own, because the enclosing expression could not be external as a whole?
            m = re.match(r'`(.*)` raises \w+:', str(e), flags=re.S)
            back = reparse(m.group(1)) if m else None
            if back is not None:
                whole = ast.parse(expr, mode='eval').body
                nd = normal_dump(back, fold=True)
                if nd != normal_dump(whole, fold=True):
                    env = dict(G); env.update(clo); env.update(loc)
                    for n in ast.walk(whole):
                        if isinstance(n, ast.expr) and not isinstance(n, (ast.Starred, ast.Slice)) and normal_dump(n, fold=True) == nd:
                            try:
                                eval(compile(ast.fix_missing_locations(ast.Expression(body=copy.deepcopy(n))), '<sub>', 'eval'), env)
                            except Exception as e2:
                                if type(e2).__name__ == cause:
                                    fail['family'] = 'lazy-operand-evaluated-eagerly'
                                    fail['what'] = ('an operand Python does not evaluate (untaken branch / short-circuited operand) is evaluated '
                                                    'on its own as a separate parameter and its exception is raised')
                            break
            return fail
        smp = ctx.extra.setdefault('e2e_loud_samples', {}).setdefault(type(e).__name__, [])
        if len(smp) < 4: smp.append({'form': form, 'expr': expr, 'msg': str(e)[:160]})
        if not recorder:
            ctx.count('e2e:loud:' + type(e).__name__); return None
        ctx.count('e2e:translation-error-after-extraction:' + type(e).__name__)
    if not recorder:
        ctx.count('e2e:no-extraction'); return None
    vars = recorder[-1]
    bound = {k[1]: v for k, v in vars.items() if k[1] not in ('P', '.0')}
    tree = ast.parse(expr, mode='eval').body
    env = dict(G); env.update(clo); env.update(loc)
    def index(t):
        out = {}
        for n in ast.walk(t):
            if isinstance(n, ast.expr) and not isinstance(n, (ast.Starred, ast.Slice)):
                try: out.setdefault(normal_dump(n, fold=True), n)
                except Exception: pass
        return out
    subs = index(tree)
    pony_subs = {}
    for t in recorder.trees: pony_subs.update(index(t))
    whole = normal_dump(tree, fold=True)
    if len(bound) != 1: ctx.count('e2e:params-%d' % len(bound))
    for psrc, pval in bound.items():
        back = reparse(psrc)
        if back is None:
            return {'what': 'regenerated source of a parameter does not compile', 'pony': psrc}
        nd = normal_dump(back, fold=True)
        orig = subs.get(nd)
        if orig is None:
            orig = pony_subs.get(nd)
            if orig is None:
                return {'what': 'regenerated source of a parameter is not a subexpression of the query', 'pony': psrc, 'python': expr}
            ctx.count('e2e:matched-only-in-the-decompiled-tree')
        elif nd == whole:
            ctx.count('e2e:whole-expression-is-one-parameter')
            if exp[0] == 'err':
                return {'what': 'Python raises, Pony binds a value', 'python': exp[1], 'pony': typed(pval)}
        try: want = eval(compile(ast.fix_missing_locations(ast.Expression(body=copy.deepcopy(orig))), '<sub>', 'eval'), env)
        except Exception as e:
            return {'what': 'Python raises for a subexpression Pony evaluated', 'pony': psrc, 'python': type(e).__name__}
        if callable(want) or callable(pval): continue
        if typed(pval) != typed(want):
            return {'what': 'bound parameter differs from the value Python computes in place', 'python': typed(want),
                    'pony': typed(pval), 'regenerated_source': psrc}
    if exp[0] == 'ok' and len(bound) == 1 and not any(isinstance(n, ast.Lambda) for n in ast.walk(tree)):
        (psrc, pval), = bound.items()
        if normal_dump(reparse(psrc), fold=True) != whole:
            ctx.count('e2e:single-parameter-is-a-proper-part')
        elif typed(pval) != typed(exp[1]):
            return {'what': 'bound parameter differs from the value Python computes in place', 'python': typed(exp[1]),
                    'pony': typed(pval), 'regenerated_source': psrc}
        if form in ('gen', 'lam', 'filter') and typed(pval) != typed(exp[1]) and normal_dump(reparse(psrc), fold=True) != whole:
            ctx.count('e2e:decompiled-tree-differs-from-the-source(C03)')
    ctx.count('e2e:equal')
    return None


class Recorder(list):
    pass


def install_recorder():
    from pony.orm import core
    rec = Recorder()
    orig = core.extract_vars
    if getattr(orig, '_c04', False): return orig._rec
    def extract_vars(*a, **k):
        r = orig(*a, **k)
        rec.append(dict(r[0]))
        return r
    extract_vars._c04 = True; extract_vars._rec = rec
    core.extract_vars = extract_vars
    rec.trees = []
    orig_ce = core.create_extractors
    def create_extractors(code_key, tree, *a, **k):
        rec.trees.append(tree)
        return orig_ce(code_key, tree, *a, **k)
    core.create_extractors = create_extractors
    return rec


E2E_WITNESSES = [   # regression inputs of the defects found by this check (fixed in /repo) + anchors of the property
    ('x == (a if c else b) + 1', '(a if c else b) + 1'),
    ('(-1) ** y', '(-1) ** (a % 3 + 2)'),
    ('(-2.5) ** 2', '(-2.5) ** 2 + a'),
    ('(-1.5).__abs__()', '(-1.5).__abs__() + a'),
    ('d[(k,)]', 'd[(k,)]'),
    ('d[k,]', 'd[k,]'),
    ('f"{k}"', 'f"{k}"'),
    ('f"{k!r}"', 'f"{s!r}"'),
    ('f"{k:>3}"', 'f"{k:>3}"'),
    ('f"{k!r:>3}x"', 'f"{k!r:>3}x"'),
    ("f\"{'\\t'.join(a)}\"", 'f"{\'\\t\'.join([s, t])}"'),
    ('f"{ {1:2} }"', 'f"{ {1: a} }"'),
    ('len(f"{a:>3}")', 'len(f"{s:>3}") + 0'),
    ('len(f"{{w}}")', 'len(f"{{{s}}}") + 0'),
    ('(lambda: x)()', '(lambda u: u + 1)(a)'),
    ('(a + b).real', '(a + b).real'),
    ('not a == b', 'int(not a == b)'),
    ('-a ** 2', '-a ** 2'),
    ('(-a) ** 2', '(-a) ** 2'),
    ('2 ** -1', '2 ** -1 + 0.5'),
    ('a - (b - c)', 'a - (b - c)'),
    ('a // (b * c)', 'a // (b * c + 1)'),
    ('a << (b & 3)', '(a << (b & 3)) >> 1'),
    ('a < b < c', 'int(a < b < c) + int((a < b) < c)'),
    ('(a or b) and c', 'int(bool((a or b) and c))'),
    ('a or (b and c)', 'int(bool(a or b and c))'),
    ('(a, b)[0]', '(a, b)[k > 0]'),
    ('chain', 'o.u.m(lst[k], y=d["k"]) + GO.n'),
    ('star-args', "gf(*[a, b]) + gf(a, **{'y': c})"),
    ('slice', 'lst[k:][0] + lst[::2][1] + lst[:-1][0]'),
    ('lambda in a list display', '[(lambda: a)()][0]'),
    ('lambda in a dict display', "{'k': (lambda: a)()}['k']"),
    ('lambda under starred arguments', 'gf(*[(lambda: a)()])'),
    ('lambda under starred arguments in a display', "{'q': gf(*[[(lambda u: u + gf(a))(1)][0], 2])}['q']"),
]


def e2e(ctx):
    rec = install_recorder()
    rng = random.Random(ctx.seed * 1000003 + 4)
    forms = ['gen', 'lam', 'str', 'lamstr', 'filter']
    fails = []
    def one(form, expr, label):
        clo, loc, glo = scope_values(rng)
        try:
            f = e2e_case(ctx, rec, form, expr, clo, loc, glo, label)
        except RecursionError:
            ctx.count('e2e:recursion'); return
        if f:
            f.update({'form': form, 'expr': expr,
                      'scope': {k: typed(v) for k, v in list(clo.items()) + list(loc.items()) + list(glo.items())
                                if isinstance(v, (int, str))}})
            fails.append(f)
    for label, expr in E2E_WITNESSES:
        for form in forms: one(form, expr, 'witness:' + label)
    n = ctx.scale(120, 2500)
    te = TExpr(rng)
    for i in range(n):
        d = rng.choice([1, 2, 2, 3])
        expr = te.i(d) if rng.random() < .55 else te.s(d)
        for form in rng.sample(forms, 2 if not ctx.thorough else 3):
            one(form, expr, 'random')
    report_e2e_failures(ctx, fails)


def report_e2e_failures(ctx, fails):
    seen = set()
    for f in fails:
        key = 'e2e:%s:%s' % (f['form'] if f['form'] in ('str', 'lamstr') else 'bytecode', f['expr'])
        if f.get('family'): key = 'e2e:' + f['family']
        try:
            et = ast.parse(f['expr'], mode='eval')
            if any(isinstance(n, ast.Starred) and any(isinstance(x, ast.Lambda) for x in ast.walk(n)) for n in ast.walk(et)):
                key = 'e2e:starred-lambda-evaluated-in-globals'     # one defect: postStarred marks *expr external whatever it holds
        except SyntaxError:
            pass
        if key in seen: continue
        seen.add(key)
        ctx.violation(f['what'], {'form': f['form'], 'expr': f['expr'], 'scope': f['scope']}, observed=f.get('pony'),
                      expected=f.get('python'), key=key)


# ---------------------------------------------------------------------------------------------------------------

WITNESS_SRC = [   # regression inputs for oracle (1)/(2): earlier defects (now fixed in /repo) and corner cases
    'x == (a if c else b) + 1', 'a if b else (c if d else e)', '(a if b else c) if d else e', '(lambda: x)()', '(lambda: x).y',
    'lambda: (lambda: x)', 'lambda x=lambda: y: x', 'f(lambda: x, y)', 'd[lambda: x]', 'd[lambda: x:y]', 'd[x:lambda: y]',
    '{lambda: x: y}', '(a + b).c', '(-a).b', '(a ** b).c', '(not a).b', '(a, b)[0]', 'd[(x,)]', 'd[x,]', 'd[()]', 'd[1, 2]',
    'd[(1, 2), 3]', 'd[1:2, 3]', 'd[a:b:c]', 'd[::c]', 'd[a::]', 'd[:]', 'd[:, :]', 'd[x:y,]', '-1 ** 2', '(-1) ** 2', '2 ** -1',
    '-a ** -b', 'a ** b ** c', '(a ** b) ** c', 'a - (b - c)', 'a - b - c', 'a / (b * c)', 'not not a', 'not (a and b)', '(not a) == b',
    'not a == b', 'a < b < c', '(a < b) < c', 'a < (b < c)', 'a is not b', 'a not in b', 'a and b or c and d', 'a and (b or c)',
    '(a or b) or c', 'a or (b or c)', 'a or b or c', 'a | b ^ c & d << e + f * -g ** h', 'f(*a or b)', 'f(**a or b)', 'f(*a, k=b, **c)',
    'f(a)(b)[c].d', 'f()', '()', '(a,)', '(*a,)', '(*a, b)', '[*a]', '[]', '{}', '{a: b, c: d}', '1 .real', '1.5.real', '...', 'x[...]',
    "f'{x!r:>{w}}'", "f'{{x}}'", "f'{x:{y}{z}}'", "f'a{x}b' 'c'", "f'{x=}'", "f'{(lambda: 1)()}'", "f'{a if b else c}'",
    "f'{ {1:2}[1] }'", "f'{ {1:2} }'", "f\"{'a'}\"", "f'''{\"a'b\"}'''", "f'{x!s}'", "f'{x:%Y-%m-%d}'", "f\"{x + '\\n'}\\n\"",
    "f\"{'\\t'.join(a)}\"", "f\"{d['k'] + \"it's\"}\"", "f\"{f'{x}'}\"", "f''", "f'{x:}'", "f\"{x:>{'{'}}\"", 'f"{a != b}"',
    'f"{x:{ {} }}"', "f'{x}' + f\"{y!r}\"", "f'{a}'.b", "-f'{a}'", "f'{-1}'",
]

OUTSIDE_NOTES = ['lambda a, /, b: a + b', 'lambda *, k=1: k', 'lambda *a, k: k', '~x', '{a, b}', "{**a, 'b': 1}", 'a @ b', '(x := 1)',
                 '[x for x in y]', 'f(x for x in y)']


def run(ctx):
    if not ctx.driver.ok:
        ctx.note('Lean driver unavailable: oracle (1) skipped, (2) and (3) still run')
    # corpus of earlier failures first
    wit = []
    for s in WITNESS_SRC:
        try: wit.append(('witness:' + s, ast.parse(s.strip(), mode='eval').body))
        except SyntaxError: ctx.count('witness-syntax-error')
    # constants the compiler folds (cannot be written as source)
    folded = [('folded:' + n, fix(t)) for n, t in [
        ('-1 ** 2', ast.BinOp(left=ast.Constant(value=-1), op=ast.Pow(), right=ast.Constant(value=2))),
        ('2 ** -1', ast.BinOp(left=ast.Constant(value=2), op=ast.Pow(), right=ast.Constant(value=-1))),
        ('(-1.5).real', ast.Attribute(value=ast.Constant(value=-1.5), attr='real', ctx=L)),
        ('(-1)(x)', ast.Call(func=ast.Constant(value=-1), args=[nm('x')], keywords=[])),
        ('(-1)[x]', ast.Subscript(value=ast.Constant(value=-1), slice=nm('x'), ctx=L)),
        ('- -1', ast.UnaryOp(op=ast.USub(), operand=ast.Constant(value=-1))),
        ('a * -1', ast.BinOp(left=nm('a'), op=ast.Mult(), right=ast.Constant(value=-1))),
        ('-0.0', ast.Constant(value=-0.0)),
        ('d[1, 2] const', ast.Subscript(value=nm('d'), slice=ast.Constant(value=(1, 2)), ctx=L)),
        ('d[1,] const', ast.Subscript(value=nm('d'), slice=ast.Constant(value=(1,)), ctx=L)),
        ('fvalue', ast.FormattedValue(value=nm('k'), conversion=-1, format_spec=None)),
        ('fvalue!r', ast.FormattedValue(value=nm('k'), conversion=114, format_spec=None)),
        ('fvalue:>3', ast.FormattedValue(value=nm('k'), conversion=-1, format_spec=ast.Constant(value='>3'))),
        ('fvalue:{w}', ast.FormattedValue(value=nm('k'), conversion=-1, format_spec=ast.FormattedValue(value=nm('w'), conversion=-1, format_spec=None))),
        ('fvalue+1', ast.BinOp(left=ast.FormattedValue(value=ast.BinOp(left=nm('a'), op=ast.Add(), right=nm('b')), conversion=-1, format_spec=None),
                               op=ast.Mult(), right=ast.Constant(value=2))),
    ]]
    check_trees(ctx, wit + folded, 'witness')
    check_trees(ctx, list(exhaustive_pairs()), 'pairs')
    g = Gen(ctx.rng)
    n = ctx.scale(1500, 60000)
    trees = []
    for i in range(n):
        trees.append(('random', fix(g.expr(ctx.rng.choice([1, 2, 2, 3, 3, 4])))))
    check_trees(ctx, trees, 'random')
    pretrans_tie(ctx, [t for _, t in wit + folded] + [t for _, t in exhaustive_pairs()] + [t for _, t in trees])
    # constructs the printer handles loudly or that are never recompiled: counted, not violations
    for s in OUTSIDE_NOTES:
        t = ast.parse(s, mode='eval').body
        r = real_print(t)
        if 'src' in r:
            back = reparse(r['src'])
            same = back is not None and normal_dump(back) == normal_dump(t)
            ctx.count('note:outside:%s -> %s [%s]' % (s, r['src'], 'same' if same else 'SyntaxError' if back is None else 'DIFFERENT (never recompiled: lambdas are not external)'))
        else:
            ctx.count('note:outside:%s -> %s' % (s, r['error']))
    parser_tie(ctx, ctx.scale(500, 12000))
    e2e(ctx)
    lazy_stream(ctx)
    xscope(ctx)
    scope_tie(ctx)
    nested_stream(ctx)
    ctx.extra['lean_parse_mismatch'] = ctx.extra.get('lean_parse_mismatch', [])[:5]


LAZY_WHOLE = [     # the whole expression is external: Python's laziness must be kept (the skipped operand would raise)
    'a if k < 50 else lst[99]', "a if k < 50 else d['missing']", 'a if k < 50 else 1 // (k - k)', 'a if k < 50 else o.missing',
    'lst[99] if k > 50 else b', "d['missing'] if k > 50 else b", '(k < 50 or lst[99]) + a', '(k > 50 and 1 // (k - k)) + a',
    "(a if k < 50 else GD['nope']) + (b if k < 50 else GO.nope)", 'gf(a if k < 50 else lst[99], y=(k < 50 or o.missing))',
    "f\"{a if k < 50 else lst[99]}\"", "(lst[99] if k > 50 else s) + 'x'",
]
LAZY_SPLIT = [     # another operand depends on the query variable: the expression cannot be external as a whole
    ('IndexError', 'p.x == (lst[99] if k > 50 else p.x)'), ('KeyError', "p.x == (d['missing'] if k > 50 else p.x)"),
    ('ZeroDivisionError', 'p.x == (1 // (k - k) if k > 50 else p.x)'), ('AttributeError', 'p.x == (o.missing if k > 50 else p.x)'),
    ('IndexError', 'k < 50 or p.x == lst[99]'), ('KeyError', "k > 50 and p.x == d['missing']"),
    ('IndexError', 'p.x == (p.x if k < 50 else lst[99])'),
]


def lazy_stream(ctx):
    """conditional expressions / and / or whose operand that Python skips would raise, in every query form"""
    rec = install_recorder()
    rng = random.Random(ctx.seed * 911 + 3)
    forms = ['gen', 'lam', 'str', 'lamstr', 'filter']
    fails = []
    for expr in LAZY_WHOLE:
        for form in forms:
            for _ in range(ctx.scale(1, 3)):
                clo, loc, glo = scope_values(rng)
                f = e2e_case(ctx, rec, form, expr, clo, loc, glo, 'lazy-whole')
                if f:
                    f.update({'form': form, 'expr': expr, 'scope': {k: typed(v) for k, v in list(clo.items()) + list(loc.items()) if isinstance(v, (int, str))}})
                    fails.append(f)
    report_e2e_failures(ctx, fails)
    # split case: built directly, the condition mentions the query variable
    G = e2e_setup()
    from pony.orm.core import ExprEvalError
    for cause, cond in LAZY_SPLIT:
        for form in forms:
            clo, loc, glo = scope_values(rng)
            G.update(glo)
            q = {'gen': 'select(p for p in P if %s)', 'lam': 'P.select(lambda p: %s)', 'str': 'select(%r)' % ('p for p in P if %s' % cond),
                 'lamstr': 'P.select(%r)' % ('lambda p: %s' % cond), 'filter': 'P.select().filter(lambda p: %s)'}[form]
            if form in ('gen', 'lam', 'filter'): q = q % cond
            src = TEMPLATE % {'expr': 'None', 'query': q}
            ns = {}
            exec(compile(src, '<c04-lazy-%d>' % len(_keep), 'exec'), G, ns)
            run_ = ns['outer'](**clo); _keep.append(run_)
            rec.clear(); rec.trees = []
            with G['db_session']:
                exp, res = run_(**loc)
            ctx.case(['lazy-split', form, cond], kind='lazy-split:' + form)
            if res[0] == 'err' and isinstance(res[1], ExprEvalError):
                got = type(res[1].cause).__name__
                ctx.count('lazy-split:ExprEvalError:' + got)
                # Python evaluates the query for every row without raising: the operand is in a position it skips
                ctx.violation('an operand Python does not evaluate (untaken branch / short-circuited operand) is evaluated on its own as a '
                              'separate parameter and its exception is raised',
                              {'form': form, 'condition': cond, 'skipped_operand_raises': cause}, observed=str(res[1])[:200],
                              expected='no exception: the operand is never evaluated', key='e2e:lazy-operand-evaluated-eagerly')
            elif res[0] == 'err':
                ctx.count('lazy-split:loud:' + type(res[1]).__name__)
            else:
                ctx.count('lazy-split:no-error')


def replay(ctx, data):
    inp = data.get('input') if isinstance(data, dict) else None
    if isinstance(inp, dict) and 'expr' in inp and 'form' in inp:
        # an end-to-end failure: the same expression, every query form, many scopes
        rec = install_recorder()
        rng = random.Random(ctx.seed + 99)
        fails = []
        for form in ['gen', 'lam', 'str', 'lamstr', 'filter']:
            for _ in range(60):
                clo, loc, glo = scope_values(rng)
                try: f = e2e_case(ctx, rec, form, inp['expr'], clo, loc, glo, 'replay')
                except RecursionError: continue
                if f:
                    f.update({'form': form, 'expr': inp['expr'], 'scope': {k: typed(v) for k, v in list(clo.items()) + list(loc.items()) if isinstance(v, (int, str))}})
                    fails.append(f)
        report_e2e_failures(ctx, fails)
        return
    run(ctx)


# ---------------------------------------------------------------------------------------------------------------
# oracle (3b): queries CREATED in one scope and EXECUTED from another, with clashing names

XS_CREATOR = '''
GV = %(GV)r
def outer(cv):
    def make(v):
        w = %(w)r
        q = %(create)s
        return q, (%(expr)s)
    return make
class K:
    def __init__(self, cv): self.cv = cv
    def make(self, v):
        cv = self.cv; w = %(w)r
        q = %(create)s
        return q, (%(expr)s)
def plain(v, w=%(w)r, cv=%(cv)r):
    q = %(create)s
    return q, (%(expr)s)
'''

XS_EXECUTOR = '''
import functools
%(gclash)s
def execute(q):
    %(lclash)s
    return %(entry)s
def via(q):
    return execute(q)
def via2(q):
    def inner():
        return via(q)
    return inner()
class Runner:
    def run(self, q):
        return via(q)
'''

XS_EXPRS = ['v + 1', 'w * 2 + v', 'cv - v', 'GV + v', 'GV', '(v if w else cv) + GV', 'max(v, w) + cv', 'GV * 2 - cv', 'w', 'abs(cv) + GV']

XS_ENTRIES = {
    'gen': ['select(q)', 'left_join(q)', 'exists(q)', 'get(q)', 'delete(q)', 'functools.partial(select, q)()', 'count(q)',
            'select(q).count()', 'select(p for p in select(q))'],
    'genx': ["select(q, {'P': P}, {'v': 9101, 'w': 9102, 'cv': 9103})", "left_join(q, {'P': P}, {'v': 9101, 'w': 9102, 'cv': 9103})",
             "exists(q, {'P': P}, {'v': 9101, 'cv': 9103})"],
    'gennum': ['sum(q)', 'min(q)', 'max(q)', 'avg(q)', 'select(q)'],
    'lam': ['P.select(q)', 'P.get(q)', 'P.exists(q)', 'P.select().filter(q)', 'P.select().where(q)',
            'select(p for p in P).filter(q)', 'functools.partial(P.select, q)()',
            '(P.select(q), P.select().filter(q))[1]', '(P.select().where(q), P.select(q), P.exists(q))[1]'],
    'lamord': ['P.select().order_by(q)', 'select(p for p in P).order_by(q)'],
    'strgen': ['select(q[0], q[1], q[2])', 'left_join(q[0], q[1], q[2])', 'exists(q[0], q[1], q[2])'],
    'strlam': ['P.select(q[0], q[1], q[2])', 'P.select().filter(q[0], q[1], q[2])', 'P.select().where(q[0], q[1], q[2])'],
}


def xs_create(kind, expr):
    if kind in ('gen', 'genx'): return '(p for p in P if p.x == (%s))' % expr
    if kind == 'gennum': return '(p.x for p in P if p.x == (%s))' % expr
    if kind == 'lam': return 'lambda p: p.x == (%s)' % expr
    if kind == 'lamord': return 'lambda p: p.x + (%s)' % expr
    if kind == 'strgen': return '(%r, globals(), dict(v=v, w=w, cv=cv))' % ('p for p in P if p.x == (%s)' % expr)
    if kind == 'strlam': return '(%r, globals(), dict(v=v, w=w, cv=cv))' % ('lambda p: p.x == (%s)' % expr)
    raise AssertionError(kind)


def xscope_case(ctx, rec, rng, kind, entry, expr, creator, route, clash_locals, clash_globals):
    from pony.orm import select, left_join, exists, get, delete, count, sum as psum, min as pmin, max as pmax, avg, db_session
    base = e2e_setup()
    vals = {n: rng.choice([-3, -1, 0, 1, 2, 5]) for n in ('GV', 'v', 'w', 'cv')}
    other = {n: 9000 + i for i, n in enumerate(('GV', 'v', 'w', 'cv'))}
    GA = {'P': base['P'], '__name__': 'c04_creator'}
    GB = {'P': base['P'], 'select': select, 'left_join': left_join, 'exists': exists, 'get': get, 'delete': delete, 'count': count,
          'sum': psum, 'min': pmin, 'max': pmax, 'avg': avg, '__name__': 'c04_executor'}
    src_a = XS_CREATOR % {'GV': vals['GV'], 'w': vals['w'], 'cv': vals['cv'], 'create': xs_create(kind, expr), 'expr': expr}
    src_b = XS_EXECUTOR % {
        'gclash': '\n'.join('%s = %r' % (n, other[n] + 500) for n in clash_globals) or 'pass',
        'lclash': '; '.join('%s = %r' % (n, other[n]) for n in clash_locals) or 'pass',
        'entry': entry}
    exec(compile(src_a, '<c04-xs-creator-%d>' % len(_keep), 'exec'), GA)
    exec(compile(src_b, '<c04-xs-executor-%d>' % len(_keep), 'exec'), GB)
    _keep.append((GA, GB))
    if creator == 'closure': q, exp = GA['outer'](vals['cv'])(vals['v'])
    elif creator == 'method': q, exp = GA['K'](vals['cv']).make(vals['v'])
    else: q, exp = GA['plain'](vals['v'])
    rec.clear(); rec.trees = []
    err = None
    with db_session:
        try:
            r = {'execute': GB['execute'], 'via': GB['via'], 'via2': GB['via2'], 'method': GB['Runner']().run}[route](q)
            if hasattr(r, '_vars'): pass
        except Exception as e:
            err = e
    program = {'creator_module': src_a.strip(), 'executor_module': src_b.strip(), 'creator': creator, 'route': route,
               'creator_values': vals}
    ctx.case(['xscope', kind, entry, expr, creator, route, sorted(clash_locals), sorted(clash_globals)], kind='xscope:' + kind)
    ctx.count('xscope-entry:' + entry)
    from pony.orm.core import ExprEvalError
    if isinstance(err, ExprEvalError):
        # every program of this stream is valid Python whose expression evaluates in the creating scope: Pony must evaluate it too
        return {'what': 'Pony fails to evaluate (ExprEvalError) an expression that Python evaluates in the creating scope',
                'program': program, 'entry': entry, 'expr': expr, 'pony': str(err)[:200], 'python': typed(exp),
                'clash_locals': sorted(clash_locals), 'clash_globals': sorted(clash_globals), 'kind': kind, 'evalerror': True}
    bound = []
    for vars in rec:
        for k, v in vars.items():
            if k[1] in ('P', '.0') or not isinstance(v, (int, float, str)) or isinstance(v, bool): continue
            bound.append((k[1], v))
    if not bound:
        ctx.count('xscope:no-parameter' + (':' + type(err).__name__ if err else '')); return None
    bad = [(s, v) for s, v in bound if typed(v) != typed(exp)]
    if bad:
        return {'what': 'a query created in one scope and executed from another binds the value of the EXECUTING scope',
                'program': program, 'entry': entry, 'expr': expr, 'pony': [[s, typed(v)] for s, v in bad], 'python': typed(exp),
                'clash_locals': sorted(clash_locals), 'clash_globals': sorted(clash_globals), 'kind': kind}
    ctx.count('xscope:equal')
    return None


def xscope(ctx):
    rec = install_recorder()
    rng = random.Random(ctx.seed * 7477 + 11)
    names = ['GV', 'v', 'w', 'cv']
    cases = []
    # every entry point at least once with full clashes, then random combinations
    for kind, entries in XS_ENTRIES.items():
        for entry in entries:
            for expr in ('GV + v', 'w * 2 + v', 'cv - v'):
                if kind == 'genx' and 'GV' in expr: continue
                cases.append((kind, entry, expr, rng.choice(['closure', 'method', 'plain']), rng.choice(['execute', 'via', 'via2', 'method']),
                              set(names), set(names)))
    for _ in range(ctx.scale(120, 3000)):
        kind = rng.choice(list(XS_ENTRIES))
        cl = set(n for n in names if rng.random() < .6)
        cg = set(n for n in names if rng.random() < .4)
        cases.append((kind, rng.choice(XS_ENTRIES[kind]), rng.choice([x for x in XS_EXPRS if kind != 'genx' or 'GV' not in x]), rng.choice(['closure', 'method', 'plain']),
                      rng.choice(['execute', 'via', 'via2', 'method']), cl, cg))
    seen = set()
    for kind, entry, expr, creator, route, cl, cg in cases:
        try:
            f = xscope_case(ctx, rec, rng, kind, entry, expr, creator, route, cl, cg)
        except RecursionError:
            continue
        if not f: continue
        used = sorted(n.id for n in ast.walk(ast.parse(expr, mode='eval')) if isinstance(n, ast.Name) and n.id in names)
        if f.get('evalerror'):
            key = 'xscope:%s:expr-eval-error:%s' % ('generator' if kind.startswith('gen') else 'lambda' if kind.startswith('lam') else 'string',
                                                     re.sub(r'[^A-Za-z]+', '-', f['pony'])[:60])
            if key not in seen:
                seen.add(key)
                ctx.violation(f['what'], {'program': f['program'], 'entry': f['entry'], 'expr': f['expr']}, observed=f['pony'],
                              expected=f['python'], key=key)
            continue
        has_global = 'GV' in used and ('GV' in f['clash_locals'] or 'GV' in f['clash_globals'])
        key = 'xscope:%s:%s' % ('generator' if kind.startswith('gen') else 'lambda' if kind.startswith('lam') else 'string',
                                'creator-global-shadowed-by-executing-scope' if has_global else 'creator-free-variable-shadowed-by-executing-scope')
        if key in seen: continue
        seen.add(key)
        ctx.violation(f['what'], {'program': f['program'], 'entry': f['entry'], 'expr': f['expr'], 'clash_locals': f['clash_locals'],
                                  'clash_globals': f['clash_globals']}, observed=f['pony'], expected=f['python'], key=key)


# ---------------------------------------------------------------------------------------------------------------
# tie (1b): the Lean model of PreTranslator (Model/PreTrans.lean) against the real class — which nodes become parameters

class _Dummy:
    """value of every name the classification evaluates (PreTranslator.postCall evals the callee to look it up)"""
    def __getattr__(self, name): return self
    def __hash__(self): return 7


def pt_children(n):
    from pony.orm.asttranslation import get_child_nodes
    if isinstance(n, ast.Lambda): return [n.body]
    return [c for c in get_child_nodes(n) if not isinstance(c, ast.cmpop)]


def pt_kind(n):
    if isinstance(n, ast.Name): return 'nameLoad'
    if isinstance(n, ast.Constant): return 'const'
    if isinstance(n, ast.Lambda): return 'lambda'
    if isinstance(n, ast.Starred): return 'starred'
    if isinstance(n, ast.List): return 'listD'
    if isinstance(n, ast.Dict): return 'dictD'
    if isinstance(n, ast.Slice): return 'slice'
    if isinstance(n, ast.keyword): return 'keyword'
    if isinstance(n, ast.Tuple): return 'tuple'
    return 'other'


def pt_encode(tree):
    labels = {}
    def go(n):
        lab = len(labels); labels[id(n)] = lab
        if isinstance(n, ast.Name): names = [n.id]
        elif isinstance(n, ast.Lambda):
            a = n.args
            names = [x.arg for x in a.args] + ([a.vararg.arg] if a.vararg else []) + ([a.kwarg.arg] if a.kwarg else [])
        else: names = []
        return [pt_kind(n), lab, names, [go(c) for c in pt_children(n)]]
    return go(tree), labels


def pretrans_tie(ctx, trees):
    """trees: list of ast expressions.  Real PreTranslator(tree).externals == model externals, as sets of node positions"""
    if not ctx.driver.ok: return
    from pony.orm.asttranslation import PreTranslator
    from pony.orm import core
    rng = random.Random(ctx.seed * 31337 + 5)
    reqs, reals, info = [], [], []
    pool = NAMES + ['u', 'v', 'w', 'z', 'rest', 'kws']
    glob = {n: _Dummy() for n in pool}
    for tree in trees:
        t = copy.deepcopy(tree)
        if any(isinstance(x, (ast.GeneratorExp, ast.ListComp, ast.SetComp, ast.DictComp, ast.NamedExpr)) for x in ast.walk(t)): continue
        bound = [n for n in NAMES if rng.random() < .3]
        enc, labels = pt_encode(t)
        try:
            pt = PreTranslator(t, glob, {}, core.special_functions, core.const_functions, set(bound))
            real = sorted(labels[id(n)] for n in pt.externals)
        except Exception as e:
            ctx.count('pretrans:real-raises:' + type(e).__name__); continue
        reqs.append({'op': 'classify', 't': enc, 'ctx': bound}); reals.append(real); info.append((ast.dump(tree), bound))
    outs = ctx.driver('C04', reqs)
    for (d, bound), real, o in zip(info, reals, outs):
        ctx.case(['pretrans', d, bound], kind='pretrans')
        got = sorted(set(o.get('externals', []))) if 'driver_error' not in o else o
        ctx.count('pretrans:externals-%d' % min(len(real), 5))
        if got != real:
            ctx.divergence('model of PreTranslator and the real class choose different external nodes', {'tree': d, 'bound': bound},
                           model=got, impl=real)
        else:
            ctx.count('pretrans:equal')


# ---------------------------------------------------------------------------------------------------------------
# tie (3c): the Lean model of get_globals_and_locals + extract_vars' cell override + eval of one name (Model/Scope.lean)
# against the real functions: for every test name, the value the real machinery resolves == the model's

SC_NAMES = ['GV', 'v', 'w', 'cv', 'X']      # X: a name the query's code does not mention (what raw_sql('$X') would look up)

SC_CREATOR = '''
%(gdefs)s
def outer(cv):
    def make(v):
        w = %(w)r
        return %(create)s
    return make
'''

SC_EXECUTOR = '''
%(gdefs)s
def call(q, core, xg, xl):
    %(ldefs)s
    if xg is None: return core.get_globals_and_locals((q,), None, 0, from_generator=%(fromgen)s)
    if xl is None: return core.get_globals_and_locals((q, xg), None, 0, from_generator=%(fromgen)s)
    return core.get_globals_and_locals((q, xg, xl), None, 0, from_generator=%(fromgen)s)
'''


def scope_tie(ctx):
    if not ctx.driver.ok: return
    from pony.orm import core
    from pony.orm.decompiling import decompile
    base = e2e_setup()
    rng = random.Random(ctx.seed * 4409 + 23)
    reqs, reals, infos = [], [], []
    exprs = ['GV + v', 'w * 2 + v', 'cv - v', 'GV', 'v', '(v if w else cv) + GV', 'GV * 2 - cv']
    for i in range(ctx.scale(150, 2500)):
        kind = rng.choice(['generator', 'function', 'text'])
        expr = rng.choice(exprs)
        used = sorted({n.id for n in ast.walk(ast.parse(expr, mode='eval')) if isinstance(n, ast.Name)})
        val = lambda: rng.choice([-3, -1, 0, 1, 2, 5])
        cre_globals = {n: val() for n in ('GV', 'X') if rng.random() < .8}
        free = {'v': val(), 'w': val(), 'cv': val()}
        cal_locals = {n: 9000 + j for j, n in enumerate(SC_NAMES) if rng.random() < .6}
        cal_globals = {n: 9500 + j for j, n in enumerate(SC_NAMES) if rng.random() < .5}
        explicit = rng.random() < .25
        xg = {n: 9700 + j for j, n in enumerate(SC_NAMES) if rng.random() < .5} if explicit else None
        xl = {n: 9800 + j for j, n in enumerate(SC_NAMES) if rng.random() < .5} if (explicit and rng.random() < .6) else None
        text = 'p for p in P if p.x == (%s)' % expr
        create = {'generator': '(%s)' % text, 'function': 'lambda p: p.x == (%s)' % expr, 'text': repr(text)}[kind]
        GA = {'P': base['P']}; GB = {'P': base['P']}
        exec(compile(SC_CREATOR % {'gdefs': '\n'.join('%s = %r' % kv for kv in cre_globals.items()) or 'pass', 'w': free['w'], 'create': create},
                     '<c04-sc-a-%d>' % len(_keep), 'exec'), GA)
        exec(compile(SC_EXECUTOR % {'gdefs': '\n'.join('%s = %r' % kv for kv in cal_globals.items()) or 'pass',
                                    'ldefs': '; '.join('%s = %r' % kv for kv in cal_locals.items()) or 'pass',
                                    'fromgen': kind != 'function' if kind != 'text' else rng.choice([True])},
                     '<c04-sc-b-%d>' % len(_keep), 'exec'), GB)
        _keep.append((GA, GB))
        q = GA['outer'](free['cv'])(free['v'])
        try:
            func, g, l = GB['call'](q, core, dict(xg, P=base['P']) if xg is not None else None, xl)
        except Exception as e:
            ctx.count('scope:real-raises:' + type(e).__name__); continue
        cells = None
        if kind == 'function':
            try: cells = decompile(func)[2]
            except Exception:       # the body is too complex for the decompiler: the cells are what `decompile` computes first
                ctx.count('scope:decompile-failed')
                cells = dict(zip(func.__code__.co_freevars, func.__closure__ or ()))
        real = {}
        for n in SC_NAMES:
            code = compile(n, '<name>', 'eval')
            try:
                vars, _ = core.extract_vars(('c04-scope', i, n), 0, {n: (lambda gg, ll, code=code: eval(code, gg, ll))}, g, l, cells)
                real[n] = list(vars.values())[0]
            except core.ExprEvalError:
                real[n] = None
        # model inputs, from the construction (not from the functions under test)
        own_locals = {n: free[n] for n in ('v', 'w', 'cv') if n in used} if kind == 'generator' else {}
        cell_env = {n: free[n] for n in ('v', 'w', 'cv') if n in used} if kind == 'function' else {}
        global_names = [n for n in used if n in ('GV', 'X')] if kind != 'text' else []
        env = lambda d: [[k, v] for k, v in d.items() if k in SC_NAMES]
        # the executor's frame also holds its parameters (q, core, xg, xl): none of them is a test name
        reqs.append({'op': 'resolve', 'kind': kind, 'names': SC_NAMES, 'callerLocals': env(cal_locals), 'callerGlobals': env(cal_globals),
                     'ownLocals': env(own_locals), 'ownGlobals': env(cre_globals), 'cells': env(cell_env), 'globalNames': global_names,
                     'explicitGlobals': env(xg) if xg is not None else None, 'explicitLocals': env(xl) if xl is not None else None})
        reals.append([real[n] for n in SC_NAMES])
        infos.append({'kind': kind, 'expr': expr, 'creator_globals': cre_globals, 'free': free, 'caller_locals': cal_locals,
                      'caller_globals': cal_globals, 'explicit_globals': xg, 'explicit_locals': xl})
    outs = ctx.driver('C04', reqs)
    for info, real, o in zip(infos, reals, outs):
        ctx.case(['scope', info], kind='scope:' + info['kind'] + (':explicit' if info['explicit_globals'] is not None else ''))
        got = o.get('values') if 'driver_error' not in o else o
        if got != real:
            ctx.divergence('model of get_globals_and_locals/extract_vars and the real functions resolve a name differently', info,
                           model=dict(zip(SC_NAMES, got)) if isinstance(got, list) else got, impl=dict(zip(SC_NAMES, real)))
        else:
            ctx.count('scope:equal')


# ---------------------------------------------------------------------------------------------------------------
# oracle (3d): queries built over queries over queries through ONE code object, a different outer-scope value at every level

NESTED_SRC = '''
def without(base, n):
    return select(p for p in base if p.x != n)
def above(base, n):
    return select(p for p in base if p.x > n - 100)
def without_s(base, n):
    return select("p for p in base if p.x != n")
def refine(q, m):
    return q.filter(lambda p: p.x != m)
def refine_w(q, m):
    return q.where(lambda p: p.x != m)
def refine_s(q, m):
    return q.filter("lambda p: p.x != m")
def rec(base, ns):
    if not ns: return base
    return rec(select(p for p in base if p.x != ns[0]), ns[1:])
HELPERS = {'without': without, 'above': above, 'without_s': without_s, 'refine': refine, 'refine_w': refine_w, 'refine_s': refine_s}
def build(steps):
    q = N
    for kind, val in steps:
        if kind == 'rec': q = rec(q, val)
        else:
            if kind.startswith('refine') and q is N: q = select(p for p in N)     # .where() names the query's own variable
            q = HELPERS[kind](q, val)
    return q
'''

_nested = {}


def nested_setup():
    if _nested: return _nested
    from pony.orm import Database, Required, select, db_session
    db = Database()
    class N(db.Entity):
        x = Required(int)
    db.bind('sqlite', ':memory:')
    db.generate_mapping(create_tables=True)
    with db_session:
        for i in range(12): N(x=i)
    G = {'N': N, 'select': select}
    exec(compile(NESTED_SRC, '<c04-nested>', 'exec'), G)
    _nested.update({'G': G, 'db_session': db_session, 'N': N})
    return _nested


def nested_expected(steps):
    rows = list(range(12)); params = []
    for kind, val in steps:
        if kind == 'rec':
            for n in val:
                rows = [r for r in rows if r != n]; params.append(n)
        elif kind == 'above':
            rows = [r for r in rows if r > val - 100]; params.append(val - 100)
        else:
            rows = [r for r in rows if r != val]; params.append(val)
    return rows, sorted(params)


def nested_run(steps):
    """-> None when the real code agrees with Python, else a description of the disagreement (exceptions included)"""
    env = nested_setup()
    rows, params = nested_expected(steps)
    try:
        with env['db_session']:
            q = env['G']['build'](steps)
            got = sorted(p.x for p in q)
            bound = sorted(v for k, v in q._vars.items() if isinstance(v, int) and not isinstance(v, bool))
    except Exception as e:
        return {'what': 'exception', 'observed': '%s: %s' % (type(e).__name__, str(e)[:160]), 'expected': {'rows': rows, 'parameters': params}}
    if got != rows:
        return {'what': 'rows', 'observed': {'rows': got, 'parameters': bound}, 'expected': {'rows': rows, 'parameters': params}}
    if bound != params:
        return {'what': 'parameters', 'observed': {'rows': got, 'parameters': bound}, 'expected': {'rows': rows, 'parameters': params}}
    return None


def nested_stream(ctx):
    rng = random.Random(ctx.seed * 6151 + 77)
    cases = [[('without', 3)], [('without', 3), ('without', 7)], [('without', 3), ('without', 7), ('without', 5)],
             [('without', 2), ('without', 8), ('without', 4), ('without', 6)], [('rec', [3, 7, 5, 9])], [('rec', [1, 2, 3, 4, 5, 6])],
             [('without_s', 3), ('without_s', 7), ('without_s', 5), ('without_s', 1)],
             [('without', 3), ('refine', 4), ('without', 7), ('refine', 8), ('without', 5)],
             [('refine', 4), ('refine', 5), ('refine_w', 6), ('refine', 7)], [('without', 1), ('refine_w', 2), ('refine_w', 3), ('without', 4), ('without', 5)],
             [('above', 103), ('above', 105), ('above', 107), ('above', 102)], [('refine_s', 2), ('refine_s', 3), ('refine_s', 4)],
             [('without', 3), ('above', 101), ('without', 7), ('above', 104), ('without_s', 9), ('refine_s', 10)]]
    kinds = ['without', 'without', 'above', 'without_s', 'refine', 'refine_w', 'refine_s', 'rec']
    for _ in range(ctx.scale(60, 1500)):
        steps = []
        for _ in range(rng.choice([3, 3, 4, 4, 5, 6])):
            k = rng.choice(kinds)
            if k == 'rec': steps.append((k, rng.sample(range(12), rng.choice([2, 3, 4]))))
            elif k == 'above': steps.append((k, 100 + rng.randrange(12)))
            else: steps.append((k, rng.randrange(12)))
        cases.append(steps)
    seen = set()
    for steps in cases:
        depth = sum(len(v) if k == 'rec' else 1 for k, v in steps)
        ctx.case(['nested', steps], kind='nested:depth-%d' % min(depth, 6))
        f = nested_run(steps)
        if f is None:
            ctx.count('nested:equal'); continue
        # shrink: drop steps / shorten recursion lists while the disagreement stays
        cur = [(k, list(v) if isinstance(v, list) else v) for k, v in steps]
        changed = True
        while changed:
            changed = False
            for i in range(len(cur)):
                trial = cur[:i] + cur[i + 1:]
                if cur[i][0] == 'rec' and len(cur[i][1]) > 1: trial = cur[:i] + [('rec', cur[i][1][:-1])] + cur[i + 1:]
                if trial and nested_run(trial) is not None:
                    cur = trial; changed = True; break
        f = nested_run(cur) or f
        key = 'nested:%s:%s' % (f['what'], '>'.join('%s*%d' % (k, len(v)) if k == 'rec' else k for k, v in cur))
        if key in seen: continue
        seen.add(key)
        ctx.violation('a query built over queries through one code object does not pass every level\'s outer-scope value to the database'
                      if f['what'] != 'exception' else 'building / running a valid nested query raises',
                      {'steps': cur, 'helpers': NESTED_SRC.strip(), 'found_in': steps}, observed=f['observed'], expected=f['expected'], key=key)
