"""C05 — query, SQL and result caches are transparent.

Oracle (the property itself, on the real code): every history (queries from generator / lambda / string / raw-SQL sources that
re-use the SAME code objects and query strings with different parameter VALUES and TYPES and caller scopes, interleaved with
in-session modifications, flushes, commits, rollbacks, bulk deletes, hooks) is executed twice on real Pony from the same
initial database — once with warm caches, once with every cache of the inventory forced to miss (recording dict subclasses whose
lookups never hit + the singleton slots reset before every step) — and the observation logs must be identical.
A difference is shrunk (ddmin over the steps) and reported with the minimal history as key.

Tie (model <-> code):
  * keys as coded: harness/gen_c05.py -> Gen/CacheKeys.lean (source analysis, every run); the keys observed in the real dicts must have
    the shape (arity / dict keys) of the generated key;
  * key functionality on the real code: in the all-miss run every store is recorded; two stores under one key with different
    (canonical) values contradict the model's transparency theorem for that cache -> divergence (unless the model predicts it);
  * memo protocol: the get/set/pop log of every real dict is replayed through Model.Memo (driver) and the hit/miss/reject events compared;
  * translator cache: pinned parameter values (slice bounds, getattr names) vs Model.trMemo;
  * result cache: random histories compiled to Model.ResultCache ops; hit/computed events, and every real answer against a raw
    SELECT on the same connection.
Witnesses of the three places where the code as it is violates the property are replayed on every run.
"""
import ast, datetime, decimal, gc, itertools, types, uuid, json, random, re, sys, traceback
from pony.orm import (Database, Required, Optional, Set, PrimaryKey, db_session, select, count, sum as psum, min as pmin, max as pmax,
                      avg, desc, raw_sql, commit, rollback, flush, delete, exists, get as pget)
from pony.orm import core, asttranslation, decompiling, ormtypes
from pony import utils as pony_utils

date = datetime.date

# ------------------------------------------------------------------------------------------------ recording dicts

MODE = {'cold': False}
MISSING = object()


def canon_sql(v, rows_only=False):
    """canonical form of a cached (sql, adapter[, attr_offsets]) tuple"""
    if v is None: return None
    if isinstance(v, tuple) and v and isinstance(v[0], str):
        sql = ' '.join(v[0].split())
        if rows_only:
            m = re.search(r'\bFROM\b', sql)
            sql = sql[m.start():] if m else sql
        off = None
        if len(v) > 2 and isinstance(v[2], dict) and not rows_only:
            off = sorted((a.name, tuple(o)) for a, o in v[2].items())
        return [sql, off]
    return repr(type(v))


def canon_translator(t):
    try:
        sql_ast, attr_offsets = t.construct_sql_ast()
        r = re.sub(r' at 0x[0-9a-f]+', '', repr(sql_ast))
        return [type(t).__name__, r[r.find("'FROM'"):], sorted((re.sub(r'\b\d{6,}\b', 'ID', repr(k)), repr(v)) for k, v in t.fixed_param_values.items()),
                sorted((re.sub(r'\b\d{6,}\b', 'ID', repr(k)), re.sub(r' at 0x[0-9a-f]+|\b\d{6,}\b', '', repr(v))) for k, v in t.func_vartypes.items())]   # what the re-check of a hit compares
    except Exception as e:
        return [type(t).__name__, 'construct failed: ' + type(e).__name__]


def decode(v):
    if isinstance(v, (tuple, list)): return [decode(i) for i in v]
    if hasattr(v, 'co_names'): return ['code', list(v.co_names), [c for c in v.co_consts if not hasattr(c, 'co_names')]]
    return v


CANON = {
    'extractors_cache': lambda v: sorted(v[1]),
    'ast_cache': lambda v: ast.dump(v[0]),
    'string2ast_cache': lambda v: ast.dump(v),
    'adapted_sql_cache': lambda v: [v[0], repr(v[1].co_consts)],
    'raw_sql_cache': lambda v: repr(decode(v)),
    '_translator_cache': canon_translator,
    '_constructed_sql_cache': lambda v: canon_sql(v, rows_only=True),
    '_find_sql_cache_': lambda v: canon_sql(v, rows_only=True),
    'query_results': lambda v: None,
}


def _k(key):
    """what the log keeps of a key: never a reference to a code object (the recording must not keep alive what the real dict would let die)"""
    if isinstance(key, types.CodeType): return ('code', key.co_name, hash(key))
    return key


class RecDict(dict):
    """a dict that logs get / set / pop / clear, can be forced to miss, and remembers every (key -> canonical value) ever stored"""
    def __init__(self, name, registry):
        dict.__init__(self)
        self.name = name
        self.log = []              # ('get', key, hit) / ('set', key) / ('pop', key, found) / ('clear',)
        self.stored = {}           # key -> canonical value (first store)
        self.collisions = []       # (key, first canonical, other canonical)
        self.text_variants = 0
        registry.append(self)
    def _kind(self):
        n = self.name.split(':')[0]
        return n
    def get(self, key, default=None):
        if MODE['cold']:
            self.log.append(('get', _k(key), False)); return default
        v = dict.get(self, key, MISSING)
        self.log.append(('get', _k(key), v is not MISSING))
        return default if v is MISSING else v
    def __getitem__(self, key):
        if MODE['cold']:
            self.log.append(('get', _k(key), False)); raise KeyError(key)
        try: v = dict.__getitem__(self, key)
        except KeyError:
            self.log.append(('get', _k(key), False)); raise
        self.log.append(('get', _k(key), True))
        return v
    def __contains__(self, key):
        return False if MODE['cold'] else dict.__contains__(self, key)
    def __setitem__(self, key, value):
        self.log.append(('set', _k(key)))
        fn = CANON.get(self._kind(), canon_sql)
        try: c = fn(value)
        except Exception as e: c = 'canon failed: %s' % type(e).__name__
        try:
            sk = _k(key)
            if sk in self.stored.keys():
                if self.stored[sk] != c and len(self.collisions) < 5: self.collisions.append((sk, self.stored[sk], c))
            else: self.stored[sk] = c
        except TypeError: pass
        dict.__setitem__(self, key, value)
    def setdefault(self, key, default=None):
        # a lookup and, on a miss, a store; with the caches forced to miss the caller's fresh value always wins
        if MODE['cold'] or not dict.__contains__(self, key):
            self.log.append(('get', _k(key), False))
            self[key] = default
            return default
        self.log.append(('get', _k(key), True))
        return dict.__getitem__(self, key)
    def pop(self, key, *default):
        self.log.append(('pop', _k(key), dict.__contains__(self, key)))
        return dict.pop(self, key, *default)
    def clear(self):
        self.log.append(('clear',))
        dict.clear(self)


class Installed(object):
    """all caches of one run replaced by recording dicts"""
    def __init__(self, db):
        self.db = db
        self.dicts = []
        self.saved = {}
        self.singletons = []
        r = self.dicts
        for mod, name in ((core, 'adapted_sql_cache'), (core, 'string2ast_cache'), (asttranslation, 'extractors_cache'),
                          (decompiling, 'ast_cache'), (ormtypes, 'raw_sql_cache')):
            self.saved[(mod, name)] = getattr(mod, name)
            setattr(mod, name, RecDict(name, r))
        # lambda_args_cache is keyed by code-object id / ast node: leave (not a query / SQL / result cache)
        db._translator_cache = RecDict('_translator_cache', r)
        db._constructed_sql_cache = RecDict('_constructed_sql_cache', r)
        db._insert_cache = RecDict('_insert_cache', r)
        for e in db.entities.values():
            for n in ('_find_sql_cache_', '_load_sql_cache_', '_batchload_sql_cache_', '_insert_sql_cache_', '_update_sql_cache_', '_delete_sql_cache_'):
                setattr(e, n, RecDict('%s:%s' % (n, e.__name__), r))
            self.singletons.append((e, '_cached_max_id_sql_'))
            for a in e._attrs_:
                if a.entity is not e: continue
                if isinstance(a, Set):
                    a.cached_load_sql = RecDict('cached_load_sql:%s.%s' % (e.__name__, a.name), r)
                    for n in ('cached_add_m2m_sql', 'cached_remove_m2m_sql', 'cached_count_sql', 'cached_empty_sql'):
                        self.singletons.append((a, n))
                else:
                    self.singletons.append((a, 'lazy_sql_cache'))
        self.orig_init = core.SessionCache.__init__
        inst = self
        def init(cache, database):
            inst.orig_init(cache, database)
            if database is inst.db: cache.query_results = RecDict('query_results', r)
        core.SessionCache.__init__ = init
    def reset_singletons(self):
        for o, n in self.singletons: setattr(o, n, None)
        pony_utils.lambda_args_cache.clear()      # keyed by get_codeobject_id / ast node
    def uninstall(self):
        core.SessionCache.__init__ = self.orig_init
        for (mod, name), v in self.saved.items(): setattr(mod, name, v)


# ------------------------------------------------------------------------------------------------ the schema and the data

HOOK = {'prog': [], 'log': [], 'env': None, 'depth': 0}


def build():
    db = Database()
    class G(db.Entity):
        name = Required(str, autostrip=False)
        k = Required(int)
        ps = Set('P')
    class T(db.Entity):
        w = Required(int)
        ps = Set('P')
    class P(db.Entity):
        a = Required(int)
        b = Optional(int)
        s = Required(str, autostrip=False)
        d = Optional(date)
        lz = Optional(str, lazy=True, nullable=True, autostrip=False)
        dec = Optional(decimal.Decimal, precision=10, scale=2)
        dt = Optional(datetime.datetime)
        tm = Optional(datetime.time)
        td = Optional(datetime.timedelta)
        uu = Optional(uuid.UUID)
        fl = Optional(float)
        g = Optional(G)
        tags = Set(T)
        def before_insert(self): run_hook()
        def before_update(self): run_hook()
    db.bind('sqlite', ':memory:')
    db.generate_mapping(create_tables=True)
    with db_session:
        gs = [G(name=n, k=k) for n, k in (('g1', 1), ('g2', 2), ('g3', 2))]
        ts = [T(w=w) for w in (0, 5, 9)]
        rows = [(0, None, 'ab', None, None, 0, [0]), (1, 1, 'abc', date(2020, 1, 1), 'L1', 0, [0, 1]), (2, None, 'b%', date(2021, 6, 1), 'L2', 1, []),
                (3, 3, 'x_y', None, None, None, [2]), (3, 0, '', date(2020, 1, 1), 'L4', 1, [1, 2]), (5, 2, 'abcd', date(1999, 12, 31), None, None, [])]
        for a, b, s, d, lz, g, tg in rows:
            P(a=a, b=b, s=s or 'z', d=d, lz=lz, g=gs[g] if g is not None else None, tags=[ts[i] for i in tg],
              dec=None if b is None else decimal.Decimal('%d.50' % (b + a)), dt=None if d is None else datetime.datetime(d.year, d.month, d.day, 10 + a, 30),
              tm=None if b is None else datetime.time(8 + b, 15), td=None if d is None else datetime.timedelta(hours=a, minutes=5),
              uu=None if b is None else uuid.UUID(int=1000 + a + 16 * b), fl=None if b is None else a + 0.25)
    return db, P, G, T


def run_hook():
    if not HOOK['prog'] or HOOK['depth']: return
    HOOK['depth'] += 1
    try:
        for st in HOOK['prog']:
            HOOK['log'].append(exec_step(HOOK['env'], st))
    finally: HOOK['depth'] -= 1


# ------------------------------------------------------------------------------------------------ the query code objects (each defined ONCE)

def ids(objs): return sorted(o.id for o in objs)
def srt(xs):
    return sorted(xs, key=lambda v: (v is None, repr(type(v)), v if not isinstance(v, tuple) else tuple((i is None, repr(i)) for i in v)))

def q_cmp(P, x): return srt(select(p.id for p in P if p.a == x)[:])
def q_cmpb(P, x): return srt(select(p.id for p in P if p.b == x)[:])
def q_ne(P, x): return srt(select(p.id for p in P if p.b != x)[:])
def q_date(P, x): return srt(select(p.id for p in P if p.d < x)[:])
def q_str(P, x): return srt(select(p.id for p in P if p.s == x)[:])
def q_in(P, xs): return srt(select(p.id for p in P if p.a in xs)[:])
def q_slice(P, i, j): return srt(select((p.id, p.s[i:j]) for p in P)[:])
def q_slice1(P, i): return srt(select((p.id, p.s[i:]) for p in P)[:])
def q_slice2(P, j): return srt(select((p.id, p.s[:j]) for p in P)[:])
def q_getattr(P, n): return srt(select((p.id, getattr(p, n)) for p in P)[:])
def q_iter(X): return srt(select(x.id for x in X)[:])
def q_obj(P, o): return srt(select(p.id for p in P if p.g == o)[:])
def q_fcall(P, f, y): return srt(select(p.id for p in P if p.a < f(y))[:])
def q_subq(P, G, x): return srt(select(p.id for p in P if p.a in select(g.k for g in G if g.k > x))[:])
def q_from(P, x, y):
    q = select(p for p in P if p.a > x)
    return srt(select(p.id for p in q if p.a < y)[:])
def q_strq(P, x): return srt(select("p.id for p in P if p.a > x")[:])
def q_strq2(P, x):   # the same query string from another scope
    y = x
    x = y
    return srt(select("p.id for p in P if p.a > x")[:])
def q_lambda(P, x): return ids(P.select(lambda p: p.a > x))
def q_lambda_s(P, x): return ids(P.select(lambda p: p.s.startswith(x)))
def q_strlambda(P, x): return ids(P.select("lambda p: p.a > x"))
def q_filter(P, x, n): return [p.id for p in select(p for p in P).filter(lambda p: p.a > x).order_by(P.id)[:n]]
def q_filter_s(P, x): return ids(select(p for p in P).filter("p.a > x"))
def q_where_a(P, x): return ids(select(p for p in P).where(a=x))
def q_where_b(P, x): return ids(select(p for p in P).where(b=x))
def q_order_s(P, x): return [p.id for p in select(p for p in P if p.a >= x).order_by("p.a", "p.id")]
def q_order_d(P, x): return [p.id for p in select(p for p in P if p.a >= x).order_by(desc(P.a), P.id)]
def q_order_l(P, x): return [p.id for p in select(p for p in P if p.a >= x).order_by(lambda p: (p.s, p.id))]
def _qa(P, x): return select(p.a for p in P if p.a > x)
def q_count(P, x): return _qa(P, x).count()
def q_sum(P, x): return _qa(P, x).sum()
def q_min(P, x): return _qa(P, x).min()
def q_max(P, x): return _qa(P, x).max()
def q_avg(P, x):
    r = _qa(P, x).avg()
    return None if r is None else round(r, 6)
def q_countd(P, x): return _qa(P, x).without_distinct().count()
def q_exists(P, x): return _qa(P, x).exists()
def q_first(P, x): return select(p for p in P if p.a > x).order_by(P.id).first() is not None
def q_get(P, x):
    o = select(p for p in P if p.a == x).get()
    return None if o is None else o.id
def q_page(P, x, n, k): return [p.id for p in select(p for p in P if p.a >= x).order_by(P.id).page(n, k)]
def q_limit(P, x, n, m): return [p.id for p in select(p for p in P if p.a >= x).order_by(P.id).limit(n, offset=m)]
def q_distinct(P, x): return srt(_qa(P, x).distinct()[:])
def q_nodistinct(P, x): return srt(_qa(P, x).without_distinct()[:])
def q_forupdate(P, x): return ids(select(p for p in P if p.a > x).for_update())
def q_prefetch_lz(P, x): return srt((p.id, p.lz) for p in select(p for p in P if p.a > x).prefetch(P.lz))
def q_prefetch_g(P, G, x): return srt((p.id, p.g.name if p.g else None) for p in select(p for p in P if p.a > x).prefetch(G))
def q_getsql_then_fetch(P, x):
    q = select(p for p in P if p.a > x).prefetch(P.lz)
    q.get_sql()
    return srt((p.id, p.lz) for p in q)
def q_noprefetch_lz(P, x): return srt((p.id, p.lz) for p in select(p for p in P if p.a > x))
def q_count_d(P, x, d): return _qa(P, x).count(distinct=d)
def q_sum_d(P, x, d): return _qa(P, x).sum(distinct=d)
def q_avg_d(P, x, d):
    r = _qa(P, x).avg(distinct=d)
    return None if r is None else round(r, 6)
def q_gc(P, x, sep, d):
    r = select(p.s for p in P if p.a > x).group_concat(sep, distinct=d)
    return None if r is None else sorted(r.split(sep or ','))
def q_count_ent_d(P, x, d): return select(p for p in P if p.a > x).count(distinct=d)
# a slice / index bound that is a parameter INSIDE a nested generator (pinned into the translator: must be re-checked at the root)
def q_nested_stop(P, G, n): return srt(select(g.id for g in G if exists(p for p in g.ps if p.s[:n] == g.name[:n]))[:])
def q_nested_slice(P, i, j): return srt(select(p.id for p in P if exists(q for q in P if q.a == p.a and q.s[i:j] == 'b'))[:])
def q_nested_start(P, G, i): return srt(select(g.id for g in G if exists(p for p in P if p.g == g and p.s[i:] == 'c'))[:])
def q_nested_getattr(P, G, n): return srt(select(g.id for g in G if exists(p for p in g.ps if getattr(p, n) == 1))[:])
# run-time compiled, short-lived lambdas and generators: the code object dies with the step and its address is re-used
CONDS = ['p.a > 1', 'p.a < 2', 'p.a == 3', 'p.a != 3', 'p.a >= 2', 'p.a <= 0', 'p.b == 1', 'p.s == "ab"']
def q_eval_lambda(P, c):
    func = eval('lambda p: ' + CONDS[c], {})
    try: return ids(P.select(func))
    finally:
        del func; gc.collect()
def q_eval_gen(P, c):
    gen = eval('(p.id for p in P if %s)' % CONDS[c], {'P': P})
    try: return srt(select(gen)[:])
    finally:
        del gen; gc.collect()
def q_eval_rounds(P, kind, order, rounds):
    # the same query sources compiled again and again at run time, used once and dropped, interleaved, with gc: EQUAL but distinct code objects.
    # every execution must give the answer of its own source
    out = []
    def conds():
        # (a) the fixed condition texts in the given order; (b) per round FRESH sources of equal length: A, A again, B — the freed code object
        #     of 'A again' and the new one of B have the same size, which is when an allocator re-uses the address
        for r in range(rounds):
            for c in order: yield CONDS[c]
        for r in range(rounds):
            b = 1 + (r + (order[0] if order else 0)) % 5
            for cond in ('p.a > %d' % b, 'p.a > %d' % b, 'p.a < %d' % b, 'p.a < %d' % b, 'p.b > %d' % b): yield cond
    for cond_text in conds():
        for c in (0,):
            CONDS_TEXT = cond_text
            if kind == 'gen':
                g = eval('(p.id for p in P if %s)' % CONDS_TEXT, {'P': P})
                try: out.append(srt(select(g)[:]))
                except Exception as e: out.append('exc:' + type(e).__name__)
                del g
            elif kind == 'lambda':
                f = eval('lambda p: ' + CONDS_TEXT, {})
                try: out.append(ids(P.select(f)))
                except Exception as e: out.append('exc:' + type(e).__name__)
                del f
            elif kind == 'filter':
                f = eval('lambda p: ' + CONDS_TEXT, {})
                try: out.append(ids(select(p for p in P).filter(f)))
                except Exception as e: out.append('exc:' + type(e).__name__)
                del f
            elif kind == 'expr':
                env = {'select': select, 'P': P}
                try: out.append(srt(eval(compile('select(p.id for p in P if %s)[:]' % CONDS_TEXT, '<console>', 'eval'), env)))
                except Exception as e: out.append('exc:' + type(e).__name__)
                del env
            else:
                ns = {'P': P, 'select': select}
                exec('def mk():\n    return select(p.id for p in P if %s)' % CONDS_TEXT, ns)
                try: out.append(srt(ns['mk']()[:]))
                except Exception as e: out.append('exc:' + type(e).__name__)
                del ns
            gc.collect()
    return out
def q_eval_filter(P, c):
    func = eval('lambda p: ' + CONDS[c], {})
    try: return ids(select(p for p in P).filter(func))
    finally:
        del func; gc.collect()
# queries DERIVED from another query (the source as first generator: extend-previous-query path; as nested source; through a limit),
# and the SOURCE query re-executed afterwards in forms not yet cached
def base_q(P, x): return select(p for p in P if p.a > x)          # one code object for every source query
def q_base(P, x): return ids(base_q(P, x))
def q_base_count(P, x): return base_q(P, x).count()
def q_base_limit(P, x, n): return [p.id for p in base_q(P, x).order_by(P.id)[:n]]
def q_base_sum(P, x): return select(p.a for p in base_q(P, x)).sum()
def q_derived(P, x, y):
    base = base_q(P, x)
    return ids(select(d for d in base if d.a < y))
def q_derived_plain(P, x):
    base = base_q(P, x)
    return srt(select(d.s for d in base)[:])
def q_derived_limit(P, x, n, y):
    base = base_q(P, x).order_by(P.id).limit(n)
    return ids(select(d for d in base if d.a < y))
def q_derived_nested(P, x, y):
    base = base_q(P, x)
    return srt(select(p.id for p in P if p.a < y and p in base)[:])
def q_derived_filter(P, x, y):
    base = base_q(P, x)
    return [ids(base.filter(lambda p: p.a < y)), ids(base.order_by(lambda p: p.s)), ids(base.where(b=None)), ids(base)]
def q_derived_then_base(P, x, y):
    base = base_q(P, x)
    d = ids(select(d for d in base if d.a < y))
    return [d, ids(base_q(P, x)), base_q(P, x).count(), [p.id for p in base_q(P, x).order_by(P.id)[:2]]]
# refinement lambdas over HYBRID functions whose globals change value / type between executions
HK = [None]
HV = None
def hyb_b(p): return p.b == HV
def hyb_a(p): return p.a > HV
def hyb_s(p): return p.s.startswith(HV)
def set_hv(v):
    global HV
    HV = v
def q_hyb_filter(P, v):
    set_hv(v); return ids(select(p for p in P).filter(lambda p: hyb_b(p)))
def q_hyb_where(P, v):
    set_hv(v); return ids(select(p for p in P).where(lambda p: hyb_b(p)))
def q_hyb_select(P, v):
    set_hv(v); return ids(select(p for p in P if hyb_b(p)))
def q_hyb_filter_a(P, v):
    set_hv(v); return ids(select(p for p in P).filter(lambda p: hyb_a(p)))
def q_hyb_order(P, v):
    set_hv(v); return [p.id for p in select(p for p in P).filter(lambda p: hyb_a(p)).order_by(lambda p: (p.a, p.id))]
# the SAME argument-less expression (text, or one zero-argument function object) used as order_by / sort_by and as filter / where
# on the same base query: the refinement kind must be part of the translator key
def base_all(P): return select(p for p in P)
TEXTS = ['p.b', 'p.a > 2', 'p.s', 'p.a']
ZF = [lambda: p.b, lambda: p.a > 2, lambda: p.a]
def _refine(P, method, arg):
    q = getattr(base_all(P), method)(arg)
    return [p.id for p in q] if method in ('order_by', 'sort_by') else ids(q)
def q_text_order_by(P, t): return _refine(P, 'order_by', TEXTS[t])
def q_text_sort_by(P, t): return _refine(P, 'sort_by', TEXTS[t])
def q_text_filter(P, t): return _refine(P, 'filter', TEXTS[t])
def q_text_where(P, t): return _refine(P, 'where', TEXTS[t])
def q_zf_order_by(P, t): return _refine(P, 'order_by', ZF[t])
def q_zf_filter(P, t): return _refine(P, 'filter', ZF[t])
def q_zf_where(P, t): return _refine(P, 'where', ZF[t])
# QueryResult.reverse() / sort() work on the list that the session's result cache holds
def q_ordered(P, x): return select(p.a for p in P if p.a > x).order_by(1)
def q_result_plain(P, x): return list(q_ordered(P, x)[:])
def q_result_reverse(P, x):
    r = q_ordered(P, x)[:]; first = list(r); r.reverse()
    return [first, list(r)]
def q_result_sort(P, x):
    r = q_ordered(P, x)[:]; first = list(r); r.sort(reverse=True)
    return [first, list(r)]
# ONE lambda object / ONE lambda text used as a whole query (Entity.select(f): a generator tree over '.0') and as a refinement of another query
LAMS = [lambda p: p.a > 1, lambda p: p.b is None, lambda p: p.s.startswith('a')]
LAMTEXTS = ['lambda p: p.a > 1', 'lambda p: p.b is None']
def q_lam_select(P, i): return ids(P.select(LAMS[i]))
def q_lam_filter(P, i): return ids(select(p for p in P).filter(LAMS[i]))
def q_lam_where(P, i): return ids(select(p for p in P).where(LAMS[i]))
def q_lam_exists(P, i): return P.exists(LAMS[i])
def q_lamtext_select(P, i): return ids(P.select(LAMTEXTS[i]))
def q_lamtext_filter(P, i): return ids(select(p for p in P).filter(LAMTEXTS[i]))
# order_by with attribute / number arguments on ONE base query; the same generator code through select() and left_join()
def q_order_attr(P, i):
    arg = [P.a, P.id, desc(P.a), P.s, desc(P.id)][i]
    return [p.id for p in base_all(P).order_by(arg, P.id) if True] if i != 1 and i != 4 else [p.id for p in base_all(P).order_by(arg)]
def q_order_num(P, i):
    return list(select((p.a, p.id) for p in P).order_by([1, 2, -1, -2][i], 2 if i in (0, 2) else 1))
def _pairs(G): return ((g.id, p.id) for g in G for p in g.ps)
def q_join(P, G, left):
    from pony.orm import left_join as lj
    gen = _pairs(G)
    return srt((lj if left else select)(gen)[:])
# every aggregate entry point over attribute types whose sql2py is not the identity, executed TWICE in the session (the second answer may
# come from cache.query_results): value AND type must be those of a cold execution; x beyond every row gives the empty-SUM case
AGG_ATTRS = ['d', 'dec', 'dt', 'tm', 'td', 'uu', 'fl', 'a', 's', 'b']
def _attr_q(P, name, x):
    if name == 'd': return select(p.d for p in P if p.a > x)
    if name == 'dec': return select(p.dec for p in P if p.a > x)
    if name == 'dt': return select(p.dt for p in P if p.a > x)
    if name == 'tm': return select(p.tm for p in P if p.a > x)
    if name == 'td': return select(p.td for p in P if p.a > x)
    if name == 'uu': return select(p.uu for p in P if p.a > x)
    if name == 'fl': return select(p.fl for p in P if p.a > x)
    if name == 'a': return select(p.a for p in P if p.a > x)
    if name == 's': return select(p.s for p in P if p.a > x)
    return select(p.b for p in P if p.a > x)
def q_aggr(P, func, name, x):
    def once():
        q = _attr_q(P, name, x)
        if func == 'group_concat':
            r = q.group_concat('|')
            return None if r is None else sorted(r.split('|'))
        return getattr(q, func)()
    return [once(), once()]
def q_aggr_top(P, func, name, x):
    # the top-level functions: max(p.d for p in P if ...) etc. (make_aggrfunc -> select(gen).max())
    def once():
        if name == 'd': gen = (p.d for p in P if p.a > x)
        elif name == 'dec': gen = (p.dec for p in P if p.a > x)
        elif name == 'dt': gen = (p.dt for p in P if p.a > x)
        elif name == 'tm': gen = (p.tm for p in P if p.a > x)
        elif name == 'td': gen = (p.td for p in P if p.a > x)
        elif name == 'fl': gen = (p.fl for p in P if p.a > x)
        else: gen = (p.a for p in P if p.a > x)
        return {'max': pmax, 'min': pmin, 'sum': psum, 'avg': avg, 'count': count}[func](gen)
    return [once(), once()]
def q_aggr_sel(P, func, name, x):
    # aggregate inside the query expression: select(max(p.d) for p in P if ...) — a fetch, converted by the row layout
    def once():
        if func == 'max':
            q = {'d': lambda: select(pmax(p.d) for p in P if p.a > x), 'dec': lambda: select(pmax(p.dec) for p in P if p.a > x),
                 'dt': lambda: select(pmax(p.dt) for p in P if p.a > x)}.get(name, lambda: select(pmax(p.a) for p in P if p.a > x))()
        else:
            q = {'dec': lambda: select(psum(p.dec) for p in P if p.a > x), 'fl': lambda: select(psum(p.fl) for p in P if p.a > x)}.get(name, lambda: select(psum(p.a) for p in P if p.a > x))()
        return q.get()
    return [once(), once()]
def q_rawq(P, x): return srt(select(p.id for p in P if raw_sql("p.a > $x"))[:])
def q_rawexpr(P, x): return srt(select((p.id, raw_sql("p.a + $x")) for p in P)[:])
def r_select(db, x): return srt(db.select("select id from P where a > $x"))
def r_select_pct(db, x): return srt(db.select("select id, '%' from P where a = $x"))
def r_select_pct2(db, x): return srt(db.select("select id, '%%' from P where a = $x"))
def r_get(db, x): return db.get("select count(*) from P where a > $x")
def r_exists(db, x): return db.exists("select 1 from P where a = $x")
def r_bysql(P, x): return ids(P.select_by_sql("select * from P where a > $x"))
def r_noparam(db): return srt(db.select("select id, '$$' from P where a > 2"))
def e_get_a(P, x):
    o = P.get(a=x)
    return None if o is None else o.id
def e_get_b(P, x):
    o = P.get(b=x)
    return None if o is None else o.id
def e_select_a(P, x): return ids(P.select(a=x))
def e_exists(P, x): return P.exists(a=x)
def e_select_ab(P, x, y): return ids(P.select(a=x, b=y))


def resolve(env, v):
    if isinstance(v, list) and v and v[0] == '@ent': return getattr(env, v[1])
    if isinstance(v, list) and v and v[0] == '@obj':
        E = getattr(env, v[1])
        return E.get(id=v[2])
    if isinstance(v, list) and v and v[0] == '@date': return date(*v[1:])
    if isinstance(v, list) and v and v[0] == '@tuple': return tuple(resolve(env, i) for i in v[1:])
    if isinstance(v, list) and v and v[0] == '@list': return [resolve(env, i) for i in v[1:]]
    if isinstance(v, list) and v and v[0] == '@fn': return {'len': len, 'count': count, 'max': max, 'psum': psum, 'abs': abs}[v[1]]
    return v


class Env(object):
    pass


QUERIES = {f.__name__: f for f in [q_cmp, q_cmpb, q_ne, q_date, q_str, q_in, q_slice, q_slice1, q_slice2, q_getattr, q_obj, q_fcall, q_lambda, q_lambda_s,
                                  q_strq, q_strq2, q_strlambda, q_filter, q_filter_s, q_where_a, q_where_b, q_order_s, q_order_d, q_order_l,
                                  q_count, q_sum, q_min, q_max, q_avg, q_countd, q_exists, q_first, q_get, q_page, q_limit, q_distinct, q_nodistinct,
                                  q_aggr, q_aggr_top, q_aggr_sel, q_eval_rounds,
                                  q_order_attr, q_order_num,
                                  q_lam_select, q_lam_filter, q_lam_where, q_lam_exists, q_lamtext_select, q_lamtext_filter,
                                  q_text_order_by, q_text_sort_by, q_text_filter, q_text_where, q_zf_order_by, q_zf_filter, q_zf_where,
                                  q_result_plain, q_result_reverse, q_result_sort,
                                  q_base, q_base_count, q_base_limit, q_base_sum, q_derived, q_derived_plain, q_derived_limit, q_derived_nested, q_derived_filter,
                                  q_derived_then_base, q_hyb_filter, q_hyb_where, q_hyb_select, q_hyb_filter_a, q_hyb_order,
                                  q_count_d, q_sum_d, q_avg_d, q_gc, q_count_ent_d, q_nested_slice, q_eval_lambda, q_eval_gen, q_eval_filter,
                                  q_forupdate, q_prefetch_lz, q_getsql_then_fetch, q_noprefetch_lz, q_rawq, q_rawexpr, r_bysql,
                                  e_get_a, e_get_b, e_select_a, e_exists, e_select_ab]}
DBQ = {f.__name__: f for f in [r_select, r_select_pct, r_select_pct2, r_get, r_exists, r_noparam]}


def jsonable(x):
    if isinstance(x, (list, tuple)): return [jsonable(i) for i in x]
    # the TYPE is part of the observation: '2021-03-04' is not date(2021, 3, 4), 7.5 is not Decimal('7.5')
    if isinstance(x, datetime.datetime): return ['datetime', x.isoformat()]
    if isinstance(x, date): return ['date', x.isoformat()]
    if isinstance(x, datetime.time): return ['time', x.isoformat()]
    if isinstance(x, datetime.timedelta): return ['timedelta', x.total_seconds()]
    if isinstance(x, decimal.Decimal): return ['Decimal', str(x)]
    if isinstance(x, uuid.UUID): return ['UUID', str(x)]
    if isinstance(x, bytes): return ['bytes', x.hex()]
    if isinstance(x, bool) or x is None: return x
    if isinstance(x, float): return ['float', round(x, 6)]
    if isinstance(x, (int, str)): return x
    if hasattr(x, '_pk_'): return [type(x).__name__, x.id]
    return repr(x)


def exec_step(env, st):
    """one step on the real code -> canonical observation"""
    name, args = st[0], st[1:]
    try:
        a = [resolve(env, v) for v in args]
        P, G, T, db = env.P, env.G, env.T, env.db
        if name in QUERIES: r = QUERIES[name](P, *a)
        elif name in DBQ: r = DBQ[name](db, *a)
        elif name == 'q_iter': r = q_iter(*a)
        elif name == 'q_subq': r = q_subq(P, G, *a)
        elif name == 'q_from': r = q_from(P, *a)
        elif name == 'q_prefetch_g': r = q_prefetch_g(P, G, *a)
        elif name == 'q_join': r = q_join(P, G, *a)
        elif name in ('q_nested_stop', 'q_nested_start', 'q_nested_getattr'): r = globals()[name](P, G, *a)
        elif name == 'pk': r = P[a[0]].a
        elif name == 'lazy':
            o = P.get(id=a[0]); r = None if o is None else o.lz
        elif name == 'load':
            o = P.get(id=a[0])
            if o is not None: o.load()
            r = None if o is None else [o.a, o.b, o.s]
        elif name == 'load_lz':
            o = P.get(id=a[0])
            if o is not None: o.load('lz')
            r = None if o is None else o.lz
        elif name == 'coll':
            o = G.get(id=a[0]); r = None if o is None else [ids(o.ps), o.ps.count(), o.ps.is_empty()]
        elif name == 'tags':
            o = P.get(id=a[0]); r = None if o is None else [ids(o.tags), o.tags.count(), o.tags.is_empty()]
        elif name == 'tps':
            o = T.get(id=a[0]); r = None if o is None else ids(o.ps)
        elif name == 'contains':
            o = G.get(id=a[0]); p = P.get(id=a[1]); r = None if o is None or p is None else (p in o.ps)
        elif name == 'create':
            o = P(a=a[0], b=a[1], s=a[2], g=G.get(id=a[3]) if a[3] else None); r = 'created'
        elif name == 'create_tag':
            o = P(a=a[0], s='tg', tags=[t for t in [T.get(id=a[1])] if t is not None]); r = 'created'
        elif name == 'set':
            o = P.get(id=a[0])
            if o is not None: setattr(o, a[1], a[2])
            r = o is not None
        elif name == 'set_g':
            o = P.get(id=a[0])
            if o is not None: o.g = G.get(id=a[1]) if a[1] else None
            r = o is not None
        elif name == 'read_b_set_a':   # optimistic check on b (None: IS NULL / value: = ?), update of a
            o = P.get(id=a[0])
            if o is not None:
                r = o.b; o.a = a[1]; flush()
            else: r = 'absent'
        elif name == 'read_ab_set_s':
            o = P.get(id=a[0])
            if o is not None:
                r = [o.a, o.b, o.d]; o.s = a[1]; flush()
            else: r = 'absent'
        elif name == 'delete':
            o = P.get(id=a[0])
            if o is not None: o.delete()
            r = o is not None
        elif name == 'tag_add':
            o = P.get(id=a[0]); t = T.get(id=a[1])
            if o is not None and t is not None: o.tags.add(t)
            r = o is not None and t is not None
        elif name == 'tag_remove':
            o = P.get(id=a[0]); t = T.get(id=a[1])
            if o is not None and t is not None: o.tags.remove(t)
            r = o is not None and t is not None
        elif name == 'flush': flush(); r = None
        elif name == 'objflush':
            objs = [o for o in env.db._get_cache().objects_to_save if o is not None]
            if objs: objs[a[0] % len(objs)].flush()
            r = len(objs)
        elif name == 'commit': commit(); r = None
        elif name == 'rollback': rollback(); r = None
        elif name == 'bulk_delete': r = select(p for p in P if p.a == a[0]).delete(bulk=True)
        elif name == 'delete_q': r = delete(p for p in P if p.a == a[0])
        elif name == 'db_insert': r = db.insert('P', a=a[0], s='ins')
        elif name == 'db_insert_b': r = db.insert('P', a=a[0], s='ins', b=a[1])
        elif name == 'db_insert_ret': r = db.insert('P', a=a[0], s='ins', returning='b')
        elif name == 'db_insert_s_b': r = db.insert('P', a=a[0], s='ins', b=a[1])
        elif name == 'set_hook': HOOK['prog'] = [list(s) for s in args[0]]; r = None
        else: raise RuntimeError('unknown step %r' % name)
        out = ['ok', jsonable(r)]
    except Exception as e:
        out = ['exc', type(e).__name__]
    if HOOK['log'] and not HOOK['depth']:
        out = out + [['hook', list(HOOK['log'])]]; del HOOK['log'][:]
    return out


def run_history(hist, cold):
    """build a fresh database, install the recording caches, execute; -> (observations, Installed)"""
    MODE['cold'] = False
    db, P, G, T = build()
    inst = Installed(db)
    env = Env(); env.db, env.P, env.G, env.T = db, P, G, T
    HOOK['prog'] = []; HOOK['log'] = []; HOOK['env'] = env; HOOK['depth'] = 0
    obs = []
    sess = None
    try:
        MODE['cold'] = cold
        for st in hist:
            if cold: inst.reset_singletons()
            if st[0] in ('end', 'end_rollback'):
                if sess is not None:
                    try:
                        if st[0] == 'end_rollback': rollback()
                        sess.__exit__(None, None, None); obs.append(['ok', None])
                    except Exception as e: obs.append(['exc', type(e).__name__])
                    sess = None
                else: obs.append(['ok', None])
                continue
            if sess is None:
                sess = db_session(); sess.__enter__()
            obs.append(exec_step(env, st))
        if sess is not None:
            try: sess.__exit__(None, None, None)
            except Exception: pass
            sess = None
    finally:
        MODE['cold'] = False
        if sess is not None:
            try: rollback(); sess.__exit__(None, None, None)
            except Exception: pass
        inst.uninstall()
        try: db.disconnect()
        except Exception: pass
    return obs, inst


# ------------------------------------------------------------------------------------------------ history generator

INTS = [0, 1, 2, 3, -1, 5]
def gen_value(rng, kinds):
    k = rng.choice(kinds)
    if k == 'int': return rng.choice(INTS)
    if k == 'none': return None
    if k == 'str': return rng.choice(['a', 'ab', 'x_y', 'b%', ''])
    if k == 'date': return ['@date'] + list(rng.choice([(2020, 1, 1), (2021, 1, 1), (1999, 12, 31)]))
    if k == 'bool': return rng.choice([True, False])
    if k == 'float': return rng.choice([1.5, 2.0])
    if k == 'tuple': return ['@tuple'] + [rng.choice(INTS) for _ in range(rng.choice([0, 1, 2, 3]))]
    if k == 'list': return ['@list'] + [rng.choice(INTS) for _ in range(rng.choice([0, 1, 2, 3]))]
    if k == 'strtuple': return ['@tuple'] + [rng.choice(['a', 'b']) for _ in range(rng.choice([1, 2]))]
    if k == 'evkind': return rng.choice(['gen', 'expr', 'lambda', 'filter', 'exec'])
    if k == 'evorder': return ['@list'] + [rng.randrange(8) for _ in range(rng.choice([2, 3, 4, 5]))]
    if k == 'evrounds': return rng.choice([3, 5, 8])
    if k == 'aggf': return rng.choice(['sum', 'min', 'max', 'avg', 'count', 'group_concat'])
    if k == 'aggf5': return rng.choice(['sum', 'min', 'max', 'avg', 'count'])
    if k == 'aggf2': return rng.choice(['max', 'sum'])
    if k == 'aggattr': return rng.choice(AGG_ATTRS)
    if k == 'aggattr7': return rng.choice(AGG_ATTRS[:7] + ['a'])
    if k == 'aggx': return rng.choice([-1, 0, 1, 2, 9])
    if k == 'five': return rng.randrange(5)
    if k == 'two': return rng.randrange(2)
    if k == 'txt': return rng.randrange(4)
    if k == 'zf': return rng.randrange(3)
    if k == 'lim': return rng.choice([1, 2, 3])
    if k == 'tri': return rng.choice([None, False, True])
    if k == 'sep': return rng.choice([None, ',', '|'])
    if k == 'cond': return rng.randrange(8)
    if k == 'bound': return rng.choice([0, 1, 2, 3, -1, -2])
    if k == 'obj': return ['@obj', 'G', rng.choice([1, 2, 3, 9])]
    if k == 'pobj': return ['@obj', 'P', rng.choice([1, 2])]
    raise ValueError(k)

QSPEC = [   # (step, argument kinds per position, weight)
    ('q_cmp', [['int', 'int', 'none', 'str', 'bool', 'float']], 3), ('q_cmpb', [['int', 'none', 'none']], 3), ('q_ne', [['int', 'none']], 2),
    ('q_date', [['date', 'date', 'none', 'int']], 2), ('q_str', [['str', 'str', 'none', 'int']], 2),
    ('q_in', [['tuple', 'list', 'strtuple', 'tuple']], 3),
    ('q_slice', [['int', 'none'], ['int', 'none']], 3), ('q_slice1', [['int', 'none']], 2), ('q_slice2', [['int', 'none']], 2),
    ('q_obj', [['obj', 'obj', 'none', 'pobj', 'int']], 3), ('q_lambda', [['int', 'str', 'none']], 2), ('q_lambda_s', [['str', 'int']], 1),
    ('q_strq', [['int', 'str', 'float']], 2), ('q_strq2', [['int', 'str', 'float']], 2), ('q_strlambda', [['int', 'str']], 1),
    ('q_filter', [['int', 'str'], ['int']], 2), ('q_filter_s', [['int', 'str']], 1), ('q_where_a', [['int']], 1), ('q_where_b', [['int', 'none']], 2),
    ('q_order_s', [['int']], 1), ('q_order_d', [['int']], 1), ('q_order_l', [['int']], 1),
    ('q_count', [['int']], 3), ('q_sum', [['int']], 2), ('q_min', [['int']], 1), ('q_max', [['int']], 1), ('q_avg', [['int']], 1), ('q_countd', [['int']], 1),
    ('q_exists', [['int']], 1), ('q_first', [['int']], 1), ('q_get', [['int']], 1), ('q_distinct', [['int']], 1), ('q_nodistinct', [['int']], 1),
    ('q_forupdate', [['int']], 1), ('q_prefetch_lz', [['int']], 2), ('q_getsql_then_fetch', [['int']], 2), ('q_noprefetch_lz', [['int']], 1),
    ('q_prefetch_g', [['int']], 1), ('q_rawq', [['int', 'str']], 1), ('q_rawexpr', [['int']], 1), ('q_subq', [['int']], 1), ('q_from', [['int'], ['int']], 1),
    ('r_select', [['int', 'str', 'none']], 2), ('r_select_pct', [['int']], 1), ('r_select_pct2', [['int']], 1), ('r_get', [['int']], 1), ('r_exists', [['int']], 1),
    ('r_bysql', [['int']], 1), ('r_noparam', [], 1),
    ('e_get_a', [['int', 'none', 'str']], 2), ('e_get_b', [['int', 'none']], 2), ('e_select_a', [['int']], 1), ('e_exists', [['int']], 1),
    ('e_select_ab', [['int'], ['int', 'none']], 2),
    ('q_count_d', [['int'], ['tri']], 3), ('q_sum_d', [['int'], ['tri']], 1), ('q_avg_d', [['int'], ['tri']], 1), ('q_gc', [['int'], ['sep'], ['tri']], 1),
    ('q_count_ent_d', [['int'], ['tri']], 1), ('q_nested_slice', [['bound', 'none'], ['bound', 'none']], 2),
    ('q_eval_rounds', [['evkind'], ['evorder'], ['evrounds']], 3),
    ('q_aggr', [['aggf'], ['aggattr'], ['aggx']], 6), ('q_aggr_top', [['aggf5'], ['aggattr7'], ['aggx']], 3), ('q_aggr_sel', [['aggf2'], ['aggattr'], ['aggx']], 2),
    ('q_order_attr', [['five']], 2), ('q_order_num', [['txt']], 1),
    ('q_lam_select', [['zf']], 2), ('q_lam_filter', [['zf']], 2), ('q_lam_where', [['zf']], 1), ('q_lam_exists', [['zf']], 1),
    ('q_lamtext_select', [['two']], 1), ('q_lamtext_filter', [['two']], 1),
    ('q_text_order_by', [['txt']], 2), ('q_text_sort_by', [['txt']], 1), ('q_text_filter', [['txt']], 2), ('q_text_where', [['txt']], 2),
    ('q_zf_order_by', [['zf']], 2), ('q_zf_filter', [['zf']], 2), ('q_zf_where', [['zf']], 1),
    ('q_result_plain', [['int']], 2), ('q_result_reverse', [['int']], 1), ('q_result_sort', [['int']], 1),
    ('q_base', [['int']], 3), ('q_base_count', [['int']], 2), ('q_base_limit', [['int'], ['lim']], 2), ('q_base_sum', [['int']], 1),
    ('q_derived', [['int'], ['int']], 3), ('q_derived_plain', [['int']], 1), ('q_derived_limit', [['int'], ['lim'], ['int']], 1), ('q_derived_nested', [['int'], ['int']], 1),
    ('q_derived_filter', [['int'], ['int']], 1), ('q_derived_then_base', [['int'], ['int']], 2),
    ('q_hyb_filter', [['int', 'none', 'none']], 3), ('q_hyb_where', [['int', 'none']], 2), ('q_hyb_select', [['int', 'none']], 2),
    ('q_hyb_filter_a', [['int', 'float']], 1), ('q_hyb_order', [['int', 'float']], 1),
    ('q_eval_lambda', [['cond']], 3), ('q_eval_gen', [['cond']], 3), ('q_eval_filter', [['cond']], 2),
]

def gen_query(rng):
    tot = sum(w for _, _, w in QSPEC)
    x = rng.uniform(0, tot)
    for name, kinds, w in QSPEC:
        x -= w
        if x <= 0: break
    if name == 'q_page': pass
    return [name] + [gen_value(rng, k) for k in kinds]

def gen_special(rng):
    k = rng.choice(['getattr', 'iter', 'fcall', 'page', 'limit', 'pk', 'lazy', 'load', 'load_lz', 'coll', 'tags', 'tps', 'contains'])
    if k == 'getattr': return ['q_getattr', rng.choice(['a', 'b', 's', 'a', 'nope'])]
    if k == 'iter': return ['q_iter', rng.choice([['@ent', 'P'], ['@ent', 'G'], ['@ent', 'T'], ['@list', 1, 2]])]
    if k == 'fcall': return ['q_fcall', ['@fn', rng.choice(['len', 'len', 'count', 'max'])], ['@list'] + [rng.choice(INTS) for _ in range(rng.choice([1, 2, 3]))]]
    if k == 'page': return ['q_page', rng.choice(INTS[:4]), rng.choice([1, 2]), rng.choice([1, 2, 3])]
    if k == 'limit': return ['q_limit', rng.choice(INTS[:4]), rng.choice([None, 0, 1, 3]), rng.choice([None, 0, 1, 2])]
    if k in ('pk', 'lazy', 'load', 'load_lz', 'tags'): return [k, rng.choice([1, 2, 3, 5, 7, 8])]
    if k in ('coll',): return [k, rng.choice([1, 2, 3])]
    if k == 'tps': return [k, rng.choice([1, 2, 3])]
    return ['contains', rng.choice([1, 2]), rng.choice([1, 2, 3, 5])]

def gen_modification(rng):
    k = rng.choice(['create', 'create', 'create_tag', 'set', 'set', 'set_g', 'read_b_set_a', 'read_b_set_a', 'read_ab_set_s', 'delete', 'tag_add', 'tag_remove',
                    'flush', 'objflush', 'commit', 'rollback', 'bulk_delete', 'delete_q', 'db_insert', 'db_insert_b', 'db_insert_ret', 'set_hook'])
    if k == 'create': return ['create', rng.choice(INTS), rng.choice([None, 1, 2]), rng.choice(['n1', 'abz']), rng.choice([0, 1, 2])]
    if k == 'create_tag': return ['create_tag', rng.choice(INTS), rng.choice([1, 2, 3])]
    if k == 'set':
        attr = rng.choice(['a', 'b', 'b', 's', 'd', 'lz'])
        val = {'a': rng.choice(INTS), 'b': rng.choice([None, 0, 4]), 's': rng.choice(['abq', 'q']), 'd': rng.choice([None, ['@date', 2022, 2, 2]]),
               'lz': rng.choice([None, 'LZ'])}[attr]
        return ['set', rng.choice([1, 2, 3, 4, 5, 6, 7]), attr, val]
    if k == 'set_g': return ['set_g', rng.choice([1, 2, 3, 4]), rng.choice([0, 1, 2, 3])]
    if k == 'read_b_set_a': return ['read_b_set_a', rng.choice([1, 2, 3, 4, 5, 6]), rng.choice(INTS)]
    if k == 'read_ab_set_s': return ['read_ab_set_s', rng.choice([1, 2, 3, 4, 5, 6]), rng.choice(['r1', 'r2'])]
    if k == 'delete': return ['delete', rng.choice([1, 2, 3, 4, 5, 6, 7])]
    if k in ('tag_add', 'tag_remove'): return [k, rng.choice([1, 2, 3, 4, 5]), rng.choice([1, 2, 3])]
    if k == 'objflush': return ['objflush', rng.choice([0, 1, 2])]
    if k in ('bulk_delete', 'delete_q'): return [k, rng.choice(INTS)]
    if k == 'db_insert': return ['db_insert', rng.choice(INTS)]
    if k == 'db_insert_b': return ['db_insert_b', rng.choice(INTS), rng.choice([7, 8])]
    if k == 'db_insert_ret': return ['db_insert_ret', rng.choice(INTS)]
    if k == 'set_hook':
        prog = [[rng.choice(['q_countd', 'q_cmp', 'q_sum', 'e_select_a', 'q_lambda']), rng.choice(INTS[:3])] for _ in range(rng.choice([0, 1, 2]))]
        return ['set_hook', prog]
    return [k]

def gen_history(rng, n):
    hist = []
    recent = []
    for _ in range(n):
        r = rng.random()
        if r < 0.50:
            if recent and rng.random() < 0.45:
                # re-use a recent query: same code object, possibly other parameter values / types
                base = rng.choice(recent)
                st = list(base) if rng.random() < 0.5 else None
                if st is None:
                    spec = next((s for s in QSPEC if s[0] == base[0]), None)
                    st = [base[0]] + [gen_value(rng, k) for k in spec[1]] if spec else list(base)
            else: st = gen_query(rng)
            recent.append(st); recent = recent[-8:]
        elif r < 0.62: st = gen_special(rng)
        elif r < 0.92: st = gen_modification(rng)
        else: st = [rng.choice(['end', 'end', 'end_rollback'])]
        hist.append(st)
        if st[0].startswith('db_insert'): hist.append(['commit'])   # raw writes bypass the session by contract: not read in the same transaction
    hist.append(['end'])
    return hist


# ------------------------------------------------------------------------------------------------ the differential oracle

def valid(hist):
    """Database.insert / raw SQL writes bypass the session (documented: not to be read back in the same transaction)"""
    for i, st in enumerate(hist):
        if st[0].startswith('db_insert') and (i + 1 >= len(hist) or hist[i + 1][0] not in ('commit', 'end')): return False
    return True

def differs(hist):
    try:
        w, _ = run_history(hist, cold=False)
        c, _ = run_history(hist, cold=True)
    except Exception as e:
        return ('harness', type(e).__name__ + ': ' + str(e)[:200], None)
    for i, (a, b) in enumerate(zip(w, c)):
        if a != b: return (i, a, b)
    return None

def ddmin(hist, test):
    """classic delta debugging: smallest sub-history (subsequence) on which test() still holds"""
    n = 2
    while len(hist) >= 2:
        chunk = max(1, len(hist) // n)
        subsets = [hist[i:i + chunk] for i in range(0, len(hist), chunk)]
        reduced = False
        for i in range(len(subsets)):
            comp = [s for j, sub in enumerate(subsets) if j != i for s in sub]
            if comp and test(comp):
                hist = comp; n = max(n - 1, 2); reduced = True; break
        if not reduced:
            if chunk == 1: break
            n = min(n * 2, len(hist))
    return hist

def step_key(st):
    def arg(v):
        if isinstance(v, list) and v and isinstance(v[0], str) and v[0].startswith('@'):
            if v[0] == '@fn': return v[1]
            if v[0] in ('@tuple', '@list'): return '%s%d' % (v[0][1:], len(v) - 1)
            return v[0][1:]
        if isinstance(v, list): return 'prog%d' % len(v)
        return type(v).__name__
    return '%s(%s)' % (st[0], ','.join(arg(v) for v in st[1:]))

def report_difference(ctx, hist, d, source):
    minimal = ddmin(hist, lambda h: valid(h) and (lambda d: d is not None and d[0] != 'harness')(differs(h)))
    dd = differs(minimal) or d
    # simplify the arguments' names for the key: step names and argument classes
    key = classify(minimal) or 'hist:' + '>'.join(step_key(s) for s in minimal if s[0] not in ('end',))
    ctx.violation('warm caches and cold caches give different answers (step %s of the minimal history)' % (dd[0],),
                  {'history': minimal, 'source': source, 'first_differing_step': dd[0]},
                  observed={'warm': dd[1]}, expected={'cold': dd[2]}, key=key)
    return minimal


def classify(minimal):
    """canonical key of a minimal history that is an instance of one of the three defects confirmed while building the check
    (the witnesses below replay one fixed instance of each on every run)"""
    names = [s[0] for s in minimal if s[0] not in ('end', 'commit')]
    if 'db_insert_ret' in names and any(n in ('db_insert', 'db_insert_b', 'db_insert_s_b') for n in names):
        return 'db-insert-cache:returning-concatenated-with-columns'   # every step of a minimal history is needed: the two statements share a key
    if names and all(n == 'q_fcall' for n in names) and any(s[1] == ['@fn', 'count'] for s in minimal if s[0] == 'q_fcall'):
        return 'extractors-cache:call-name-classified-once-per-code-object'
    if names and all(n in ('q_result_plain', 'q_result_reverse', 'q_result_sort') for n in names) and any(n != 'q_result_plain' for n in names):
        return 'result-cache:query-result-mutators-share-cached-list'
    if 'objflush' in names and 'set_hook' in names:
        return 'result-cache:entity-flush-does-not-clear'
    return None


def new_keys(ctx):
    return len(ctx.violations) + len(ctx.known_hits)


def random_histories(ctx):
    rng = ctx.rng
    n_hist = ctx.scale(40, 600)
    found = 0
    base_keys = new_keys(ctx)
    for h in range(n_hist):
        hist = gen_history(rng, rng.choice([6, 10, 16, 24]))
        ctx.case({'history': hist[:6], 'len': len(hist)}, kind='oracle:warm-vs-cold')
        w, iw = run_history(hist, cold=False)
        c, ic = run_history(hist, cold=True)
        for st, o in zip(hist, w):
            ctx.count('step:' + st[0]); ctx.count('outcome:' + o[0])
        for d_ in iw.dicts:
            hits = sum(1 for e in d_.log if e[0] == 'get' and e[2])
            if hits: ctx.count('hits:' + d_.name.split(':')[0], hits)
            rej = sum(1 for e in d_.log if e[0] == 'pop')
            if rej: ctx.count('pops:' + d_.name.split(':')[0], rej)
        check_protocol(ctx, iw, hist)
        check_functionality(ctx, ic, hist)
        if w != c:
            i = next(i for i, (a, b) in enumerate(zip(w, c)) if a != b)
            found += 1
            if found <= 40 and new_keys(ctx) - base_keys < 6: report_difference(ctx, hist, (i, w[i], c[i]), 'random history #%d (seed %d)' % (h, ctx.seed))
    ctx.count('histories', n_hist)
    flush_protocol(ctx)


POOL = {'evkind': ['gen', 'expr', 'lambda', 'filter', 'exec'], 'evorder': [['@list', 0, 1, 2], ['@list', 3, 1, 4, 0, 2]], 'evrounds': [6],
        'aggf': ['sum', 'min', 'max', 'avg', 'count', 'group_concat'], 'aggf5': ['sum', 'min', 'max', 'avg', 'count'], 'aggf2': ['max', 'sum'],
        'aggattr': ['d', 'dec', 'dt', 'tm', 'td', 'uu', 'fl', 'a', 's', 'b'], 'aggattr7': ['d', 'dec', 'dt', 'tm', 'td', 'fl', 'a'], 'aggx': [-1, 1, 9],
        'five': [0, 1, 2, 3, 4], 'two': [0, 1], 'txt': [0, 1, 2, 3], 'zf': [0, 1, 2], 'lim': [1, 2, 3], 'tri': [None, False, True], 'sep': [None, ',', '|'], 'cond': [0, 1, 2, 3, 4, 5], 'bound': [1, 2, 3, -1, -2], 'int': [1, 3, -1], 'none': [None], 'str': ['ab', 'b%'], 'date': [['@date', 2020, 1, 1], ['@date', 2021, 1, 1]], 'bool': [True], 'float': [1.5],
        'tuple': [['@tuple'], ['@tuple', 1], ['@tuple', 1, 3]], 'list': [['@list', 1], ['@list', 0, 3]], 'strtuple': [['@tuple', 'a']],
        'obj': [['@obj', 'G', 1], ['@obj', 'G', 2]], 'pobj': [['@obj', 'P', 1]]}
SPECIALS = [
    [['q_getattr', 'a'], ['q_getattr', 'b'], ['q_getattr', 's'], ['q_getattr', 'nope']],
    [['q_iter', ['@ent', 'P']], ['q_iter', ['@ent', 'G']], ['q_iter', ['@ent', 'T']], ['q_iter', ['@list', 1, 2]]],
    [['q_fcall', ['@fn', 'len'], ['@list', 1, 2]], ['q_fcall', ['@fn', 'max'], ['@list', 1, 2]], ['q_fcall', ['@fn', 'len'], ['@list', 1, 2, 3]], ['q_fcall', ['@fn', 'count'], ['@list', 1, 2]]],
    [['q_page', 0, 1, 2], ['q_page', 0, 2, 2], ['q_page', 1, 1, 3], ['q_page', 0, 1, 1]],
    [['q_limit', 0, 1, 1], ['q_limit', 0, None, 1], ['q_limit', 0, 2, None], ['q_limit', 0, 0, 0], ['q_limit', 1, 3, 2]],
    [['q_slice', 0, 2], ['q_slice', 1, 2], ['q_slice', 1, None], ['q_slice', None, -1], ['q_slice', -2, None], ['q_slice', 0, 1]],
    [['q_slice1', 0], ['q_slice1', 2], ['q_slice1', None], ['q_slice1', -1]], [['q_slice2', 0], ['q_slice2', 2], ['q_slice2', None], ['q_slice2', -1]],
    [['q_subq', 0], ['q_subq', 1], ['q_from', 0, 5], ['q_from', 1, 3]],
    [['q_derived', 1, 3], ['q_base', 1], ['q_base_count', 1], ['q_base_limit', 1, 2], ['q_base_sum', 1], ['q_derived_plain', 1], ['q_derived_limit', 1, 2, 5], ['q_derived_nested', 1, 5],
     ['q_derived_filter', 1, 3], ['q_derived', 0, 2]],
    [['q_text_order_by', 0], ['q_text_filter', 0], ['q_text_where', 0], ['q_text_sort_by', 0], ['q_text_order_by', 1], ['q_text_filter', 1], ['q_text_where', 1]],
    [['q_join', False], ['q_join', True]],
    [['q_order_attr', 0], ['q_order_attr', 2], ['q_order_attr', 3], ['q_order_attr', 1], ['q_order_attr', 4]],
    [['q_lam_select', 0], ['q_lam_filter', 0], ['q_lam_where', 0], ['q_lam_exists', 0], ['q_lam_select', 1], ['q_lam_filter', 1]],
    [['q_lamtext_select', 0], ['q_lamtext_filter', 0], ['q_lamtext_select', 1], ['q_lamtext_filter', 1]],
    [['q_zf_order_by', 0], ['q_zf_filter', 0], ['q_zf_where', 0], ['q_zf_order_by', 1], ['q_zf_filter', 1], ['q_zf_where', 1]],
    [['q_result_plain', 0], ['q_result_reverse', 0], ['q_result_sort', 0], ['q_result_plain', 1]],
    [['q_hyb_filter', None], ['q_hyb_filter', 1], ['q_hyb_filter', 0], ['q_hyb_where', None], ['q_hyb_where', 1], ['q_hyb_select', None], ['q_hyb_select', 3]],
    [['q_nested_stop', 1], ['q_nested_stop', 2], ['q_nested_stop', 3], ['q_nested_stop', -1], ['q_nested_stop', None]],
    [['q_nested_start', 1], ['q_nested_start', 2], ['q_nested_start', 3], ['q_nested_start', -1]],
    [['q_nested_getattr', 'a'], ['q_nested_getattr', 'b']],
    [['lazy', 2], ['load_lz', 2], ['load', 2], ['pk', 2], ['lazy', 3]],
    [['coll', 1], ['coll', 2], ['tags', 2], ['tps', 2], ['contains', 1, 1], ['contains', 1, 4]],
]
MODS = [['create', 7, None, 'n1', 1], ['create', 1, 2, 'abz', 0], ['create_tag', 3, 2], ['set', 1, 'a', 5], ['set', 2, 'b', None], ['set', 3, 'b', 4], ['set', 2, 's', 'abq'],
        ['set', 2, 'lz', 'LZ'], ['set', 2, 'd', None], ['set_g', 2, 0], ['set_g', 4, 1], ['delete', 2], ['delete', 5], ['tag_add', 3, 2], ['tag_remove', 2, 1],
        ['bulk_delete', 3], ['delete_q', 1], ['read_b_set_a', 1, 5], ['read_b_set_a', 2, 5], ['read_ab_set_s', 4, 'r1'], ['db_insert', 4]]

def pair_corpus(ctx):
    """systematic part of the oracle: every query code object with every ordered pair of argument tuples from small pools (values AND types),
    and every query before / after every kind of in-session modification (unflushed, flushed by the query's own auto-flush, committed)"""
    rng = ctx.rng
    hists = []
    per_spec = ctx.scale(6, 40)
    for name, kinds, w in QSPEC:
        pools = []
        for ks in kinds:
            vals = []
            for k in dict.fromkeys(ks): vals += POOL[k]
            pools.append(vals[:7])
        tuples = [list(t) for t in itertools.product(*pools)] if pools else [[]]
        pairs = [(a, b) for a in tuples for b in tuples if a != b]
        rng.shuffle(pairs)
        for a, b in pairs[:per_spec]:
            hists.append([[name] + a, [name] + b, [name] + a, ['end']])
        for m in (MODS if ctx.thorough else rng.sample(MODS, 3)):
            a = rng.choice(tuples)
            h = [[name] + a, list(m)] + ([['commit']] if m[0].startswith('db_insert') else []) + [[name] + a, ['commit'], [name] + a, ['end']]
            hists.append(h)
    for group in SPECIALS:
        for a, b in itertools.permutations(group, 2):
            hists.append([list(a), list(b), list(a), ['end']])
        for a in group:
            for m in (MODS if ctx.thorough else rng.sample(MODS, 4)):
                hists.append([list(a), list(m)] + ([['commit']] if m[0].startswith('db_insert') else []) + [list(a), ['end_rollback'], list(a), ['end']])
    found = 0
    base_keys = new_keys(ctx)
    for h in hists:
        ctx.case({'history': h}, kind='oracle:pair-corpus')
        w, iw = run_history(h, cold=False)
        c, ic = run_history(h, cold=True)
        check_functionality(ctx, ic, h)
        for d_ in iw.dicts:
            hits = sum(1 for e in d_.log if e[0] == 'get' and e[2])
            if hits: ctx.count('hits:' + d_.name.split(':')[0], hits)
        if w != c:
            found += 1
            i = next(i for i, (x, y) in enumerate(zip(w, c)) if x != y)
            # every difference is shrunk and keyed (up to a budget); the run stops reporting after 6 DISTINCT keys, not after 6 differences of one kind
            if found <= 60 and new_keys(ctx) - base_keys < 6: report_difference(ctx, h, (i, w[i], c[i]), 'pair corpus')
    ctx.count('pair-corpus-histories', len(hists))


# ------------------------------------------------------------------------------------------------ ties

MODEL_KEYS = {}

def check_key_shapes(ctx, inst):
    """the keys found in the real dicts have the shape of the generated key"""
    if not MODEL_KEYS: return
    def dict_names(fields):
        names = set(f.split('.')[-1] for f in fields)
        if names & {'aggr_func_name', 'aggr_func_distinct', 'sep'}:
            names -= {'aggr_func_name', 'aggr_func_distinct', 'sep'}; names.add('aggr_func')
        return names
    tr = set(f.split('.')[-1] for f in MODEL_KEYS['translatorKey'])
    for d_ in inst.dicts:
        kind = d_.name.split(':')[0]
        for k in list(d_.stored)[:50]:
            exp = got = None
            if kind == '_update_sql_cache_': exp, got = len(MODEL_KEYS['updateSqlKey']), len(k)
            elif kind == '_find_sql_cache_': exp, got = len(MODEL_KEYS['findKey']), len(k)
            elif kind == '_batchload_sql_cache_': exp, got = len(MODEL_KEYS['batchloadKey']), len(k)
            elif kind == '_delete_sql_cache_': exp, got = len(MODEL_KEYS['deleteSqlKey']), len(k)
            elif kind == '_translator_cache': exp, got = sorted(tr), sorted(k.keys())
            elif kind == '_constructed_sql_cache':
                names = dict_names(MODEL_KEYS['bulkDeleteSqlKey'] if 'sql_command' in k else MODEL_KEYS['constructedSqlKey'])
                names.discard('query_key'); names |= tr
                if 'aggr_func' in k:
                    ctx.count('aggr_func:%r' % (k['aggr_func'][1],))
                    if not (isinstance(k['aggr_func'], tuple) and len(k['aggr_func']) == 3):
                        ctx.divergence('sql_key component aggr_func is not the triple of the model', {'key': repr(k['aggr_func'])}, model=3, impl=repr(k['aggr_func']))
                exp, got = sorted(names), sorted(k.keys())
            elif kind == 'query_results':
                names = dict_names(MODEL_KEYS['constructedSqlKey']); names.discard('query_key'); names |= tr; names.add('arguments_key')
                exp, got = sorted(names), sorted(k.keys())
            if exp is not None:
                ctx.count('keyshape:' + kind)
                if exp != got:
                    ctx.divergence('a key of the real cache does not have the shape of the key the model is proved for', {'cache': d_.name, 'key': repr(k)[:300]}, model=exp, impl=got)


def check_functionality(ctx, inst, hist):
    """all-miss run: two stores under one key must carry the same value (the model's transparency theorem for that cache)"""
    for d_ in inst.dicts:
        kind = d_.name.split(':')[0]
        for key, c1, c2 in d_.collisions:
            ctx.count('key-collision:' + kind)
            predicted = (kind == 'extractors_cache' and 'Field.scope_classification' not in MODEL_KEYS.get('extractorsKey', [])) or \
                        (kind == '_insert_cache' and MODEL_KEYS.get('dbInsertKeyFlat', True))
            if kind in ('ast_cache', 'extractors_cache', '_translator_cache', '_constructed_sql_cache') and not MODEL_KEYS.get('codeobjectsPinned', True): predicted = True
            if kind == '_translator_cache' and c1[2:] != c2[2:]: predicted = True   # same key, other pinned values: the model's re-check case
            if not predicted and MODEL_KEYS:
                ctx.divergence('two different values were computed for ONE key of a cache the model proves transparent',
                               {'cache': d_.name, 'key': repr(key)[:300], 'history': hist}, model='one value per key', impl=[c1, c2])
    check_key_shapes(ctx, inst)


def check_protocol(ctx, inst, hist):
    """replay the get/set/pop/clear log of every real dict (warm run) through Model.Memo and compare hit/miss events"""
    if not ctx.driver.ok: return
    reqs, metas = [], []
    for d_ in inst.dicts:
        kind = d_.name.split(':')[0]
        if kind in ('query_results', '_translator_cache') or not d_.log: continue
        keyids = {}
        def kid(k):
            try: return keyids.setdefault(k, len(keyids))
            except TypeError: return keyids.setdefault(repr(k), len(keyids))
        calls, real = [], []
        pending = []       # indexes of calls whose store has not been seen
        for e in d_.log:
            if e[0] == 'get':
                calls.append({'t': 'call', 'k': kid(e[1]), 's': kid(e[1]), 'cacheable': False, 'acc': True}); real.append('hit' if e[2] else 'miss')
                if not e[2]: pending.append(len(calls) - 1)
            elif e[0] == 'set':
                # the store of the most recent missing call with this key (Entity.load: ANY most recent missing call, stored under another key)
                j = next((i for i in reversed(pending) if calls[i]['k'] == kid(e[1])), None)
                if j is None and kind == '_load_sql_cache_' and pending: j = pending[-1]
                if j is None and calls and calls[-1].get('t') == 'call' and calls[-1]['k'] == kid(e[1]) and real[-1] == 'hit':
                    # a hit that the code re-validated and rejected (create_extractors with the scope re-check): recomputed and stored again
                    calls[-1]['acc'] = False; calls[-1]['cacheable'] = True; real[-1] = 'reject'; continue
                if j is None:
                    ctx.divergence('a cache store without a preceding missed lookup', {'cache': d_.name, 'key': repr(e[1])[:200]}, model='get-miss-set', impl='set'); continue
                pending.remove(j); calls[j]['s'] = kid(e[1]); calls[j]['cacheable'] = True
            elif e[0] == 'pop': calls.append({'t': 'pop', 'k': kid(e[1])}); real.append('popped')
            elif e[0] == 'clear': calls.append({'t': 'clear'}); real.append('cleared')
        if kind == '_load_sql_cache_':
            for c in calls:
                if c['t'] == 'call' and c['cacheable']:
                    ctx.count('load-cache:stored-under-other-key' if c['s'] != c['k'] else 'load-cache:stored-under-lookup-key')
        reqs.append({'op': 'memo', 'calls': calls}); metas.append((d_.name, real))
    for r, (name, real) in zip(reqs, metas):
        PENDING_PROTOCOL.append((r, name, real, hist))


PENDING_PROTOCOL = []

def flush_protocol(ctx):
    if not PENDING_PROTOCOL or not ctx.driver.ok: return
    outs = ctx.driver('C05', [p[0] for p in PENDING_PROTOCOL])
    for (r, name, real, hist), out in zip(PENDING_PROTOCOL, outs):
        ctx.count('protocol-logs')
        if out.get('events') != real:
            ctx.divergence('the real dict operations are not the memo protocol of the model', {'cache': name, 'history': hist}, model=out.get('events') or out, impl=real)
    del PENDING_PROTOCOL[:]


def translator_tie(ctx):
    """pinned parameter values: Query._get_translator vs Model.trMemo"""
    if not ctx.driver.ok: return
    rng = ctx.rng
    batch = []
    for kind, fn, norm in (('start', q_slice1, 'start'), ('stop', q_slice2, 'stop'), ('getattr', q_getattr, 'id'),
                           ('nested-stop', q_nested_stop, 'stop'), ('nested-start', q_nested_start, 'start')):
        for rep in range(ctx.scale(3, 20)):
            vals = [rng.choice([None, 0, 1, 2, -1] if not kind.startswith('nested') else [1, 2, 3, -1, None]) if kind != 'getattr' else rng.choice(['a', 'b', 's'])
                    for _ in range(rng.choice([3, 6, 10]))]
            MODE['cold'] = False
            db, P, G, T = build()
            inst = Installed(db)
            real_events, real_fixed = [], []
            try:
                tc = db._translator_cache
                for v in vals:
                    n0 = len(tc.log)
                    with db_session:
                        try:
                            if kind.startswith('nested'): fn(P, G, v)
                            else: fn(P, v)
                        except Exception: pass
                    evs = tc.log[n0:]
                    gets = [e for e in evs if e[0] == 'get']
                    if not gets: real_events.append('none'); real_fixed.append(None); continue
                    first = gets[0]
                    popped = any(e[0] == 'pop' for e in evs)
                    real_events.append('reject' if (first[2] and popped) else 'hit' if first[2] else 'miss')
                    tr = dict.get(tc, first[1])
                    real_fixed.append(None if tr is None else sorted([[0, (x if not isinstance(x, str) else 'abs'.index(x[0]) if x in 'abs' else 9)] for x in tr.fixed_param_values.values()]))
            finally:
                inst.uninstall(); db.disconnect()
            enc = lambda v: v if not isinstance(v, str) else 'abs'.index(v)
            # the parameter TYPE is part of the query key (vartypes): None and int are different keys; nothing is pinned for None
            calls = [{'t': 'call', 'key': [2 if v is None else 1], 'vars': [[0, enc(v)]], 'cacheable': True} for v in vals]
            batch.append(({'op': 'translator', 'calls': calls, 'pins': [[[1], [0]], [[2], []]], 'norm': norm}, kind, vals, real_events, real_fixed))
            ctx.case(['translator', kind, vals], kind='tie:translator-cache')
            for e in real_events: ctx.count('translator:' + e)
    outs = ctx.driver('C05', [b[0] for b in batch])
    for (req, kind, vals, real_events, real_fixed), out in zip(batch, outs):
        if out.get('events') != real_events or out.get('fixed') != real_fixed:
            ctx.divergence('translator cache: hit / reject / pinned values differ from the model', {'kind': kind, 'values': vals},
                           model=[out.get('events'), out.get('fixed')], impl=[real_events, real_fixed])


# ---- result cache: scripts compiled to model ops and executed on real Pony

def build_r():
    db = Database()
    state = {'hooks': {}, 'log': [], 'db': db}
    class R(db.Entity):
        a = Required(int, unique=True)
        def before_insert(self):
            vp = state.get('visible_pending'); state['visible_pending'] = ()     # inside a hook nothing is flushed: the database rows are the truth
            try:
                for k in state['hooks'].get(self.a, ()): state['log'].append(('hookq', k, r_query(state, k) + ['hook']))
            finally: state['visible_pending'] = vp
    db.bind('sqlite', ':memory:'); db.generate_mapping(create_tables=True)
    state['R'] = R
    return state

def r_q(R, lo): return select(r.a for r in R if r.a > lo)

def r_query(state, k):
    """query number k (the argument value makes the result key); returns (answer, was it served from the result cache, raw truth)"""
    R = state['R']; db = state['db']
    cache = db._get_cache()
    kind = k % 3
    q = r_q(R, -1 - (k // 3))
    qr = cache.query_results
    n0 = len(qr.log) if isinstance(qr, RecDict) else 0
    if kind == 0: ans = sorted(q[:])
    elif kind == 1: ans = q.count()
    else: ans = q.without_distinct().sum()
    qr = db._get_cache().query_results
    evs = [e for e in qr.log[n0:] if e[0] == 'get'] if isinstance(qr, RecDict) and qr is cache.query_results else []
    hit = bool(evs and evs[-1][2])
    rows = sorted(set(r[0] for r in db.get_connection().execute('select a from R')) | set(state.get('visible_pending', ())))
    rows = [x for x in rows if x > -1 - (k // 3)]
    truth = rows if kind == 0 else len(rows) if kind == 1 else sum(rows)
    return [ans, hit, truth]

def results_tie(ctx):
    rng = ctx.rng
    clears = MODEL_KEYS.get('entityFlushClearsResults', False)
    batch = []
    for rep in range(ctx.scale(60, 1500)):
        # a script
        n = rng.choice([4, 8, 14])
        script = []; nxt = 1
        for _ in range(n):
            r = rng.random()
            if r < 0.3:
                script.append(('create', nxt, [rng.randrange(0, 6) for _ in range(rng.choice([0, 0, 1, 2]))])); nxt += 1
            elif r < 0.65: script.append(('query', rng.randrange(0, 6)))
            elif r < 0.72: script.append(('flush',))
            elif r < 0.80: script.append(('commit',))
            elif r < 0.86: script.append(('rollback',))
            elif r < 0.92: script.append(('bulk', rng.randrange(1, max(2, nxt))))
            else: script.append(('objflush', rng.randrange(0, 3)))
        # execute on the real code and compile to model ops on the way (the compiler tracks what is pending)
        state = build_r(); R = state['R']; db = state['db']
        inst = Installed(db)
        model_ops = []; real = []
        pending = []     # (c, hookprog)
        def hooks_then(opname, only=None):
            todo = [p for p in pending if only is None or p[0] == only]
            if todo:
                model_ops.append({'t': 'enterHook'})
                for c, prog in todo:
                    for k in prog: model_ops.append({'t': 'query', 'k': k, 'cacheable': True})
                model_ops.append({'t': 'exitHook'})
        try:
            with db_session:
                for st in script:
                    del state['log'][:]
                    if st[0] == 'create':
                        state['hooks'][st[1]] = st[2]; R(a=st[1]); pending.append((st[1], st[2])); model_ops.append({'t': 'modify', 'c': st[1]})
                    elif st[0] == 'query':
                        pending_before = list(pending)
                        hooks_then('query'); pending[:] = []
                        model_ops.append({'t': 'query', 'k': st[1], 'cacheable': True})
                        state['visible_pending'] = [c for c, _ in pending_before]
                        r = r_query(state, st[1]); real += [x[2] for x in state['log']] + [r]
                        state['visible_pending'] = ()
                    elif st[0] == 'flush':
                        hooks_then('flush'); pending[:] = []; model_ops.append({'t': 'flush'}); flush(); real += [x[2] for x in state['log']]
                    elif st[0] == 'commit':
                        hooks_then('commit'); pending[:] = []; model_ops.append({'t': 'commit'}); commit(); real += [x[2] for x in state['log']]
                    elif st[0] == 'rollback':
                        pending[:] = []; model_ops.append({'t': 'rollback'}); rollback()
                    elif st[0] == 'bulk':
                        hooks_then('bulk'); pending[:] = []
                        model_ops.append({'t': 'bulkDelete', 'c': 1000 + st[1]})
                        select(r for r in R if r.a == st[1]).delete(bulk=True); real += [x[2] for x in state['log']]
                    elif st[0] == 'objflush':
                        if pending:
                            c, prog = pending[st[1] % len(pending)]
                            hooks_then('objflush', only=c); pending.remove((c, prog)); model_ops.append({'t': 'objFlush', 'c': c})
                            o = next(o for o in db._get_cache().objects_to_save if o is not None and o.a == c)
                            o.flush(); real += [x[2] for x in state['log']]
                rollback()
        finally:
            inst.uninstall(); db.disconnect()
        ctx.case(['results', script], kind='tie:result-cache')
        # the oracle on the real code: every answer equals the raw SELECT on the same connection
        qsteps = [o for o in model_ops if o['t'] == 'query']
        for rr, mo in zip(real, qsteps):
            ans, hit, truth = rr[:3]
            ctx.count('results:hit' if hit else 'results:computed')
            if ans != truth:
                in_hook_after_objflush = len(rr) > 3 and any(s[0] == 'objflush' for s in script)
                ctx.violation('a query answered from the per-session result cache although the database state of the transaction had changed',
                              {'script': script, 'query': mo['k'], 'inside_hook': len(rr) > 3}, observed=ans, expected=truth,
                              key='result-cache:entity-flush-does-not-clear' if in_hook_after_objflush else 'result-cache:stale:' + json.dumps(script))
        batch.append(({'op': 'results', 'clears': clears, 'warm': True, 'hist': model_ops}, script, model_ops, real))
    if ctx.driver.ok and batch:
        outs = ctx.driver('C05', [b[0] for b in batch])
        for (req, script, model_ops, real), out in zip(batch, outs):
            mouts = [o for o in out.get('outs', []) if o is not None]
            def interp(dbl):
                rows = set()
                for c in reversed(dbl):
                    if c >= 1000: rows.discard(c - 1000)
                    else: rows.add(c)
                return sorted(rows)
            m_ev = [o['ev'] == 'hit' for o in mouts]
            r_ev = [r[1] for r in real]
            m_ans = []
            for o in mouts:
                rows = interp(o['db']); kind = o['k'] % 3; lo = -1 - (o['k'] // 3)
                rows = [x for x in rows if x > lo]
                m_ans.append(rows if kind == 0 else len(rows) if kind == 1 else sum(rows))
            r_ans = [r[0] for r in real]
            if m_ev != r_ev or m_ans != r_ans:
                ctx.divergence('result cache: hits / answers of the real session differ from Model.ResultCache', {'script': script, 'model_ops': model_ops},
                               model=[m_ev, m_ans], impl=[r_ev, r_ans])


# ------------------------------------------------------------------------------------------------ witnesses (replayed on every run)

def witnesses(ctx):
    # 1. extractors_cache keyed by the code key alone
    h = [['q_fcall', ['@fn', 'len'], ['@list', 1, 2, 3]], ['q_fcall', ['@fn', 'count'], ['@list', 1, 2, 3]], ['end']]
    d = differs(h)
    ctx.case(['witness', 'extractors'], kind='witness:extractors-cache')
    if d is not None:
        ctx.violation('create_extractors caches the split into external expressions under the code key alone, but PreTranslator.postCall classifies a called '
                      'name by the object it is bound to in the CALLER\'S scope: the same code object `select(p.id for p in P if p.a < f(y))` run with f = len '
                      '(whole call f(y) evaluated in Python) and then with f = pony.orm.count (special function: must be translated) re-uses the first split',
                      {'history': h}, observed={'warm': d[1]}, expected={'cold': d[2]}, key='extractors-cache:call-name-classified-once-per-code-object')
    # 2. Database.insert: flat key
    h = [['db_insert_ret', 1], ['db_insert_b', 2, 7], ['r_select', -5], ['q_cmpb', 7], ['end']]
    d = differs(h)
    ctx.case(['witness', 'db.insert'], kind='witness:db-insert-cache')
    if d is not None:
        ctx.violation("Database.insert builds its cache key as (table,) + column names [+ (returning,)]: db.insert('P', a=1, s='ins', returning='b') and "
                      "db.insert('P', a=2, s='ins', b=7) share the key ('P','a','s','b'); the second call re-uses the first statement and silently drops column b",
                      {'history': h}, observed={'warm': d[1]}, expected={'cold': d[2]}, key='db-insert-cache:returning-concatenated-with-columns')
    # 3. Entity.flush does not clear query_results (through the result-cache tie's own oracle as well)
    h = [['set_hook', [['q_countd', -1]]], ['create', 7, None, 'n1', 0], ['create', 8, None, 'n1', 0], ['objflush', 0], ['objflush', 0], ['end']]
    d = differs(h)
    ctx.case(['witness', 'objflush'], kind='witness:entity-flush-result-cache')
    if d is not None:
        ctx.violation('Entity.flush() writes the object without clearing cache.query_results: a query executed inside a before_* hook (flush disabled, so the '
                      'auto-flush does not clear the cache either) after a previous obj.flush() is answered from the stale cached result',
                      {'history': h}, observed={'warm': d[1]}, expected={'cold': d[2]}, key='result-cache:entity-flush-does-not-clear')
    # 4. QueryResult.reverse() / sort() / shuffle() mutate the list object that cache.query_results holds
    h = [['q_result_reverse', 0], ['q_result_plain', 0], ['end']]
    d = differs(h)
    ctx.case(['witness', 'queryresult-mutators'], kind='witness:query-result-mutators')
    if d is not None:
        ctx.violation('QueryResult.reverse() / sort() / shuffle() mutate in place the very list that Query._actual_fetch stored in cache.query_results: after r = q[:]; r.reverse() the same '
                      'query executed again in the session (same code object, same arguments) returns the reversed list although it has an ORDER BY',
                      {'history': h}, observed={'warm': d[1]}, expected={'cold': d[2]}, key='result-cache:query-result-mutators-share-cached-list')
    # sensitivity of the oracle itself: a planted stale entry must be seen
    MODE['cold'] = False


def run(ctx):
    if ctx.driver.ok:
        try:
            k = ctx.driver('C05', [{'op': 'keys'}])[0]
            MODEL_KEYS.update(k)
            ctx.extra['keys_as_coded'] = k
        except Exception as e:
            ctx.note('driver keys op failed: %r' % (e,))
    else:
        ctx.note('driver unavailable: protocol / translator / result-cache correspondences skipped')
    witnesses(ctx)
    translator_tie(ctx)
    results_tie(ctx)
    pair_corpus(ctx)
    random_histories(ctx)


def replay(ctx, data):
    inp = data.get('input') or {}
    hist = inp.get('history')
    if hist:
        d = differs(hist)
        if d is not None:
            ctx.violation('warm caches and cold caches give different answers', {'history': hist}, observed={'warm': d[1]}, expected={'cold': d[2]}, key=data.get('key'))
        return
    run(ctx)
