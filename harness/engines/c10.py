"""C10 — lookups and queries inside a session see the session's own unflushed changes.

Part A (shared harness, engines/sess_shared.py — see there): random entity models and multi-session histories on a file
database; after every modification, before and after flushes, every read form — attribute access, collection iteration /
len / count() / is_empty() / `in` / bool / select(), E[pk], get() by primary key, unique key, composite key, keyword and
relationship, exists(), select() with and without keyword filters, generator and lambda queries, aggregates, to_dict() —
must give what the in-memory shadow of the program's state says (property oracle); the Lean model Model/SessStore.lean
(`load`, `hasLink`, auto-flush before a query) is driven with the same histories (correspondence).

Part B (this file): the SetData bookkeeping model Model/SetCount.lean.  One watched collection `owner.coll` (one-to-many,
or either side of a many-to-many) over real Pony: items are loaded, linked / unlinked from the other side, added, removed,
counted, measured and flushed in random order; after every call the real SetData (items, is_fully_loaded, count, added,
removed) is compared with the model, loads observed on the real code are fed to the model as `seen` / `loadAll`
(correspondence); `count()` and `len()` are compared with the number of items the program has (property oracle).
The witnesses of `C10_count_full_false_*` (Props/C10.lean) are replayed on the real code on every run; which of the two
defective places the real code still has decides the model configuration (`fixRemove`, `fixFlush`).
"""
import json, random
from pony.orm import Database, Required, Optional, Set, PrimaryKey, db_session, commit, rollback, flush
from pony.orm import core
from engines import sess_shared as S

# ---------------------------------------------------------------- regression inputs (defects repaired in /repo)

R_SET_AFTER_REMOVE = {   # commit fc04eec: `a.bs = [b1,b2,b3]; flush; a.bs.remove(b1); a.bs = [b1,b3,b4]; commit` left the a-b2 link row
    'schema': {'ents': [{'pk': 'explicit', 'scalars': [{'name': 's0', 'req': False, 'unique': False}], 'ckey': False},
                        {'pk': 'explicit', 'scalars': [{'name': 's0', 'req': False, 'unique': False}], 'ckey': False}],
               'rels': [{'kind': 'm2m', 'sym': False, 'a': {'ent': 0, 'coll': True, 'req': False, 'opt_casc': None},
                         'b': {'ent': 1, 'coll': True, 'req': False, 'opt_casc': None}}]},
    'ops': [{'k': 'create', 'oid': 0, 'e': 0, 'pk': 1, 'scalars': {}, 'refs': {}, 'colls': {}, 'rs': 1},
            {'k': 'create', 'oid': 1, 'e': 1, 'pk': 1, 'scalars': {}, 'refs': {}, 'colls': {}, 'rs': 2},
            {'k': 'create', 'oid': 2, 'e': 1, 'pk': 2, 'scalars': {}, 'refs': {}, 'colls': {}, 'rs': 3},
            {'k': 'create', 'oid': 3, 'e': 1, 'pk': 3, 'scalars': {}, 'refs': {}, 'colls': {}, 'rs': 4},
            {'k': 'create', 'oid': 4, 'e': 1, 'pk': 4, 'scalars': {}, 'refs': {}, 'colls': {}, 'rs': 5},
            {'k': 'coll_set', 'o': 0, 'key': [0, False], 'items': [1, 2, 3], 'via': 'list', 'rs': 6},
            {'k': 'flush', 'rs': 7},
            {'k': 'coll_remove', 'o': 0, 'key': [0, False], 'items': [1], 'via': 'single', 'rs': 8},
            {'k': 'coll_set', 'o': 0, 'key': [0, False], 'items': [1, 3, 4], 'via': 'list', 'rs': 9},
            {'k': 'commit', 'rs': 10}]}
R_COUNT_TWICE = {        # commit 69b7a62: `a.bs.add([b1,b2]); a.bs.remove(b1)` on a one-to-many of new objects: count() == 0, len == 1
    'schema': {'ents': [{'pk': 'auto', 'scalars': [{'name': 's0', 'req': False, 'unique': False}], 'ckey': False},
                        {'pk': 'auto', 'scalars': [{'name': 's0', 'req': False, 'unique': False}], 'ckey': False}],
               'rels': [{'kind': 'm2o', 'sym': False, 'a': {'ent': 0, 'coll': True, 'req': False, 'opt_casc': None},
                         'b': {'ent': 1, 'coll': False, 'req': False, 'opt_casc': None}}]},
    'ops': [{'k': 'create', 'oid': 0, 'e': 0, 'pk': None, 'scalars': {}, 'refs': {}, 'colls': {}, 'rs': 1},
            {'k': 'create', 'oid': 1, 'e': 1, 'pk': None, 'scalars': {}, 'refs': {}, 'colls': {}, 'rs': 2},
            {'k': 'create', 'oid': 2, 'e': 1, 'pk': None, 'scalars': {}, 'refs': {}, 'colls': {}, 'rs': 3},
            {'k': 'coll_add', 'o': 0, 'key': [0, False], 'items': [1, 2], 'via': 'list', 'rs': 4},
            {'k': 'coll_remove', 'o': 0, 'key': [0, False], 'items': [1], 'via': 'single', 'rs': 5}]}
WITNESSES = []

_E1 = {'pk': 'explicit', 'scalars': [{'name': 's0', 'req': False, 'unique': False}], 'ckey': False}
R_SYMM_OWN_OWNER = {   # commit e8061ac: p.friends.add(p); p.friends.clear(); p.friends += [p]; commit inserted no link row (the session showed {p})
    'schema': {'ents': [dict(_E1)], 'rels': [{'kind': 'symm', 'sym': True, 'a': {'ent': 0, 'coll': True, 'req': False, 'opt_casc': None}}]},
    'ops': [{'k': 'create', 'oid': 0, 'e': 0, 'pk': 1, 'scalars': {}, 'refs': {}, 'colls': {}, 'rs': 1},
            {'k': 'commit', 'rs': 2},
            {'k': 'coll_add', 'o': 0, 'key': [0, False], 'items': [0], 'via': 'single', 'rs': 3},
            {'k': 'coll_clear', 'o': 0, 'key': [0, False], 'rs': 4},
            {'k': 'coll_add', 'o': 0, 'key': [0, False], 'items': [0], 'via': 'op', 'rs': 5},
            {'k': 'commit', 'rs': 6},
            {'k': 'coll_remove', 'o': 0, 'key': [0, False], 'items': [0], 'via': 'single', 'rs': 7},       # the loud sibling: INSERT of the existing row
            {'k': 'coll_set', 'o': 0, 'key': [0, False], 'items': [0], 'via': 'list', 'rs': 8},
            {'k': 'commit', 'rs': 9}]}
REGRESSIONS = [('set-after-unflushed-remove', R_SET_AFTER_REMOVE), ('one-to-many-remove-count', R_COUNT_TWICE),
               ('symmetric-collection-own-owner (commit e8061ac)', R_SYMM_OWN_OWNER)]

# ---------------------------------------------------------------- part B: one watched collection


class Watch:
    """owner.coll over real Pony; kind 'o2m' | 'm2m'; `owning`: the flush collects the many-to-many pairs from the watched side"""
    def __init__(self, kind, owning):
        self.kind = kind; self.owning = owning
        self.db = db = Database()
        # _calc_modified_m2m sorts by (entity name, attribute name): the first attribute of the pair supplies the pairs
        on, iname = ('E1', 'E2') if (kind == 'o2m' or owning) else ('E2', 'E1')
        od = {'id': PrimaryKey(int), 'coll': Set(iname, reverse='back')}
        idict = {'id': PrimaryKey(int), 'back': (Optional(on, reverse='coll') if kind == 'o2m' else Set(on, reverse='coll'))}
        if on < iname:
            self.Owner = type(on, (db.Entity,), od); self.Item = type(iname, (db.Entity,), idict)
        else:
            self.Item = type(iname, (db.Entity,), idict); self.Owner = type(on, (db.Entity,), od)
        db.bind('sqlite', ':memory:')
        db.generate_mapping(create_tables=True)
        self.attr = self.Owner.coll

    def close(self):
        try: self.db.disconnect()
        except Exception: pass

    def sd(self, owner, items):
        s = owner._vals_.get(self.attr)
        c = core.local.db2cache.get(self.db)
        dirty = bool(c is not None and c.is_alive and owner in (c.modified_collections.get(self.attr) or ()))
        if s is None: return {'items': [], 'fully': False, 'count': None, 'added': [], 'removed': [], 'absent': [], 'dirty': dirty}
        idx = lambda xs: sorted(x._pkval_ for x in (xs or ()))
        return {'items': idx(s), 'fully': bool(s.is_fully_loaded), 'count': s.count, 'added': idx(s.added), 'removed': idx(s.removed),
                'absent': idx(s.absent), 'dirty': dirty}


def norm_sd(d):
    return {'items': sorted(d['items']), 'fully': bool(d['fully']), 'count': d['count'], 'added': sorted(d['added']), 'removed': sorted(d['removed']),
            'absent': sorted(d.get('absent', [])), 'dirty': bool(d.get('dirty', False))}


def watch_history(ctx, rng, kind, owning, cfg, nops, given=None):
    """one scenario: setup session commits some links; the watched session runs `nops` random calls.
    Returns (model request, per-op expectations) or None; reports oracle findings through ctx."""
    w = Watch(kind, owning)
    N = 5                                   # items 1..N persisted, N+1.. created inside the session
    try:
        linked = sorted(rng.sample(range(1, N + 1), rng.choice([0, 1, 2, 3]))) if given is None else given['db']
        with db_session:
            o = w.Owner(id=1); o2 = w.Owner(id=2)
            its = {i: w.Item(id=i) for i in range(1, N + 1)}
            for i in linked:
                if kind == 'o2m': its[i].back = o
                else: o.coll.add(its[i])
        ops, mops, checks = [], [], []
        L = set(linked)                     # what the program has in the collection
        findings = []
        db_session.__enter__()
        try:
            owner = w.Owner[1]; other = w.Owner[2]
            items = {}
            nxt = N + 1
            script = given['ops'] if given is not None else None
            queued = []                     # follow-up calls: membership test -> change of membership -> the same test, with no flush in between
            for step in range(nops if script is None else len(script)):
                before = w.sd(owner, items)
                Lprev = set(L)
                if script is not None: op = script[step]
                elif queued: op = queued.pop(0)
                else:
                    k = rng.choice(['load_item', 'rev_add', 'rev_add', 'rev_remove', 'rev_remove', 'add', 'add', 'remove', 'remove', 'remove',
                                    'len', 'count', 'count', 'flush', 'new_item', 'contains', 'contains', 'contains',
                                    'is_empty', 'is_empty', 'bool', 'select'])
                    x = rng.randrange(1, nxt)
                    if k == 'new_item':
                        x = nxt
                        if nxt > N + 3: continue
                    op = {'k': k, 'x': x}
                k, x = op['k'], op.get('x')
                pre = []; mop = None; ret = None; exp = None; cmp_ret = True
                cache = core.local.db2cache.get(w.db)
                def flushed_since(was_modified):
                    return bool(was_modified and cache is not None and not cache.modified)
                if k == 'new_item':
                    items[x] = w.Item(id=x); nxt = max(nxt, x + 1)
                elif k in ('load_item', 'rev_add', 'rev_remove', 'add', 'remove', 'contains'):
                    if x not in items:
                        # sub-step: the item's row is fetched (implicit flush first, when the session is modified)
                        wasmod = cache is not None and cache.modified
                        try: items[x] = w.Item[x]
                        except Exception: continue
                        if flushed_since(wasmod): mops.append({'k': 'flush'}); checks.append(None); ctx.count('setdata:implicit-flush:item-fetch')
                        mid = w.sd(owner, items)
                        for i in mid['items']:
                            if i not in before['items']: mops.append({'k': 'seen', 'x': i}); checks.append(None)
                        before = mid
                    it = items[x]
                    if it._status_ in core.del_statuses: continue
                    if k == 'load_item': pass
                    elif k == 'rev_add':
                        if x in L: continue
                        if kind == 'o2m': it.back = owner
                        else: it.back.add(owner)
                        L.add(x); mop = {'k': 'revAdd', 'x': x}
                    elif k == 'rev_remove':
                        if x not in L: continue
                        if kind == 'o2m': it.back = rng.choice([None, other]) if script is None else None
                        else: it.back.remove(owner)
                        L.discard(x); mop = {'k': 'revRemove', 'x': x}
                    elif k == 'add':
                        owner.coll.add(it); L.add(x); mop = {'k': 'add', 'x': x}
                    elif k == 'remove':
                        owner.coll.remove(it); L.discard(x); mop = {'k': 'remove', 'x': x}
                    elif k == 'contains':
                        had_sd = owner._vals_.get(w.attr) is not None
                        wasmod = cache is not None and cache.modified
                        ret = int(it in owner.coll); exp = int(x in L)
                        if flushed_since(wasmod): pre.append({'k': 'flush'}); ctx.count('setdata:implicit-flush:contains')
                        if kind == 'm2m':
                            # the model's `contains` does its own Set.load(obj, {x}); `containsRev`: no SetData, the item's fully loaded side answers
                            mop = {'k': 'contains' if (had_sd or owner._vals_.get(w.attr) is not None) else 'containsRev', 'x': x}
                        ctx.count('setdata:contains:%s:%s' % (kind, bool(ret)))
                        if script is None and rng.random() < 0.7:
                            # the same test again after the membership was changed, from either side, with nothing flushed in between
                            ch = ('add' if rng.random() < 0.5 else 'rev_add') if not ret else ('remove' if rng.random() < 0.5 else 'rev_remove')
                            queued[:] = [{'k': ch, 'x': x}, {'k': 'contains', 'x': x}]
                elif k == 'len':
                    wasmod = cache is not None and cache.modified
                    ret = len(owner.coll); exp = len(L); mop = {'k': 'loadAll'}
                    if flushed_since(wasmod): pre.append({'k': 'flush'}); ctx.count('setdata:implicit-flush:len')
                elif k == 'count':
                    wasmod = cache is not None and cache.modified
                    ret = owner.coll.count(); exp = len(L); mop = {'k': 'count'}
                    if flushed_since(wasmod): pre.append({'k': 'flush'}); ctx.count('setdata:implicit-flush:count')
                elif k == 'is_empty':
                    wasmod = cache is not None and cache.modified
                    r_ = owner.coll.is_empty(); ret = int(r_); exp = int(not L)
                    if flushed_since(wasmod): pre.append({'k': 'flush'}); ctx.count('setdata:implicit-flush:is_empty')
                    mid = w.sd(owner, items)
                    probe = [i for i in mid['items'] if i not in before['items']]      # the row of SELECT .. LIMIT 1, if the query ran
                    mop = {'k': 'isEmpty', 'probe': probe[0] if probe else None}
                    ctx.count('setdata:is_empty:%s' % ('query-row' if probe else ('query-none' if (mid['fully'] and not before['fully']) else 'from-setdata')))
                elif k == 'bool':
                    wasmod = cache is not None and cache.modified
                    if op.get('direct', rng.random() < 0.5 if script is None else False):
                        op = dict(op, direct=True)
                        ret = int(owner.coll.__nonzero__()); mop = {'k': 'nonzero'}          # what _delete_ calls
                    else:
                        op = dict(op, direct=False)
                        ret = int(bool(owner.coll)); mop = {'k': 'loadAll'}; cmp_ret = False   # Python 3: bool() goes through __len__, a full load
                    exp = int(bool(L))
                    if flushed_since(wasmod): pre.append({'k': 'flush'}); ctx.count('setdata:implicit-flush:bool')
                elif k == 'select':
                    ret = len(owner.coll.select()[:]); exp = len(L); mop = {'k': 'select'}       # the model's `select` flushes itself
                elif k == 'flush':
                    flush(); mop = {'k': 'flush'}
                after = w.sd(owner, items)
                # loads the real call did on the way: a full load, or single items that are in the collection
                adds = mop is not None and mop['k'] in ('revAdd', 'add')
                takes = mop is not None and mop['k'] in ('revRemove', 'remove')
                post = []
                if (k == 'contains' and kind == 'm2m') or k in ('is_empty', 'bool'): pass
                elif k == 'select':
                    post = [{'k': 'seen', 'x': i} for i in after['items'] if i not in before['items']]      # rows the query fetched
                elif after['fully'] and not before['fully'] and k != 'len':
                    pre.append({'k': 'loadAll'})
                else:
                    for i in after['items']:
                        if i in before['items']: continue
                        if adds and i == x and x not in Lprev: continue        # the new member itself
                        pre.append({'k': 'seen', 'x': i})
                    if takes and x in Lprev and x not in before['items'] and x not in before['removed'] and not before['fully']:
                        pre.append({'k': 'seen', 'x': x})     # the item was loaded (Set.load(obj, {x}) / its own row) before it was taken out
                for p in pre: mops.append(p); checks.append(None)
                if mop is not None:
                    mops.append(mop); checks.append({'sd': None if post else norm_sd(after), 'ret': ret if cmp_ret else None, 'op': op})
                    for q_ in post: mops.append(q_); checks.append(None)
                    if post: checks[-1] = {'sd': norm_sd(after), 'ret': None, 'op': op}
                ops.append(op)
                ctx.count('setdata:op:' + k)
                ctx.case({'watch': kind, 'owning': owning, 'i': step, 'op': op}, nontrivial=True, kind='setdata-call')
                if ret is not None and ret != exp:
                    findings.append({'k': k, 'got': ret, 'expected': exp, 'ops': list(ops), 'db': linked})
                    break
        finally:
            try: db_session.__exit__(RuntimeError, RuntimeError('end'), None)
            except Exception: pass
            core.local.db_session = None; core.local.db_context_counter = 0
        return {'db': linked, 'ops': ops, 'mops': mops, 'checks': checks, 'findings': findings}
    finally:
        w.close()


def probe_cfg(ctx):
    """replay the witnesses of C10_count_full_false_remove / _flush on the real code: which defective places are still there"""
    out = {}
    rng = random.Random(0)
    # remove: owner with one committed item, a new item added and removed again, count()
    r = watch_history(ctx, rng, 'o2m', True, None, 0, given={'db': [5], 'ops': [{'k': 'new_item', 'x': 6}, {'k': 'add', 'x': 6}, {'k': 'remove', 'x': 6}, {'k': 'count'}]})
    out['fixRemove'] = not r['findings']
    if r['findings']:
        f = r['findings'][0]
        ctx.violation('count() of a one-to-many collection is wrong after remove(): the removed item is recorded in `removed` although it was never in the database',
                      {'watch': 'o2m', 'db': [5], 'ops': f['ops']}, observed=f['got'], expected=f['expected'], key='coll-count:o2m:after-remove')
        ctx.count('witness-reproduced:C10_count_full_false_remove')
    else: ctx.count('witness-not-reproduced:C10_count_full_false_remove')
    # flush: many-to-many, watched side does not supply the pairs; item unlinked from the other side, flush, count()
    r = watch_history(ctx, rng, 'm2m', False, None, 0, given={'db': [4], 'ops': [{'k': 'rev_remove', 'x': 4}, {'k': 'flush'}, {'k': 'count'}]})
    out['fixFlush'] = not r['findings']
    if r['findings']:
        f = r['findings'][0]
        ctx.violation('count() of a many-to-many collection is wrong after a flush: the side from which the flush does not collect the pairs keeps its added / removed sets',
                      {'watch': 'm2m', 'owning': False, 'db': [4], 'ops': f['ops']}, observed=f['got'], expected=f['expected'], key='coll-count:m2m:pending-items-kept-after-flush')
        ctx.count('witness-reproduced:C10_count_full_false_flush')
    else: ctx.count('witness-not-reproduced:C10_count_full_false_flush')
    ctx.case({'witnesses': out}, kind='witness')
    return out


def setdata_tie(ctx, nhist, nops):
    fixes = probe_cfg(ctx)
    ctx.extra['real_code_configuration'] = fixes
    rng = ctx.rng
    batch = []
    for h in range(nhist):
        kind = rng.choice(['o2m', 'o2m', 'm2m', 'm2m'])
        owning = kind == 'o2m' or rng.random() < 0.5
        try: r = watch_history(ctx, rng, kind, owning, None, nops)
        except Exception as e:
            ctx.count('setdata:history-crashed:' + type(e).__name__); continue
        ctx.count('setdata:history:%s:%s' % (kind, 'owning' if owning else 'non-owning'))
        for f in r['findings']:
            key = 'coll-%s:%s' % (f['k'], kind)
            ctx.count('setdata:oracle-mismatch:' + key)
            # the same root causes as the two witnesses are reported once, by probe_cfg; anything else is new
            if not ((kind == 'o2m' and not fixes['fixRemove']) or (kind == 'm2m' and not owning and not fixes['fixFlush'])):
                ctx.violation('`item in coll` differs from whether the program has the item in the collection' if f['k'] == 'contains' else
                              'count() / len() of a collection differs from the number of items the program has',
                              {'watch': kind, 'owning': owning, 'db': f['db'], 'ops': f['ops']}, observed=f['got'], expected=f['expected'], key=key)
        batch.append((kind, owning, r))
    if not ctx.driver.ok:
        ctx.note('driver unavailable: the SetData correspondence is skipped'); return
    reqs = [{'op': 'run', 'cfg': {'m2m': kind == 'm2m', 'owning': owning, 'fixRemove': fixes['fixRemove'], 'fixFlush': fixes['fixFlush']},
             'db': r['db'], 'ops': r['mops']} for kind, owning, r in batch]
    outs = ctx.driver('C10', reqs)
    for (kind, owning, r), out in zip(batch, outs):
        steps = out.get('steps')
        if steps is None:
            if 'unknown property' in str(out.get('driver_error')): raise RuntimeError('the shared driver executable was replaced while running: %r' % out)
            ctx.divergence('driver error', {'watch': kind, 'ops': r['ops']}, model=out); continue
        for i, (st, chk) in enumerate(zip(steps, r['checks'])):
            if st['err']:
                ctx.divergence('the model hit an internal assertion the real code did not', {'watch': kind, 'owning': owning, 'db': r['db'], 'ops': r['ops'], 'model_ops': r['mops'][:i + 1]},
                               model=st['err'], impl='ok'); break
            if not st['valid']: ctx.count('setdata:model-op-outside-callers-guarantees')
            if not st['safe']:
                # outside the guard of C10_count_partial (the defect itself is reported by the witness replay): nothing to compare from here on
                ctx.count('setdata:history-cut-at-a-defective-place'); break
            if chk is None: continue
            m = norm_sd(st['sd'])
            if chk['sd'] is not None and m != chk['sd']:
                ctx.divergence('SetData differs after ' + chk['op']['k'], {'watch': kind, 'owning': owning, 'db': r['db'], 'ops': r['ops'], 'model_ops': r['mops'][:i + 1]},
                               model=m, impl=chk['sd']); break
            if chk['ret'] is not None and st['ret'] != chk['ret']:
                ctx.divergence('returned value differs', {'watch': kind, 'ops': r['ops'], 'model_ops': r['mops'][:i + 1]}, model=st['ret'], impl=chk['ret']); break
            ctx.count('tie:setdata-states-compared')


# ---------------------------------------------------------------- part C: lookups by a unique / composite key (Model/KeyLookup.lean)

KEY_STATUS = {'created': 'created', 'loaded': 'loaded', 'modified': 'modified', 'inserted': 'saved', 'updated': 'saved',
              'marked_to_delete': 'marked_to_delete', 'deleted': 'gone', 'cancelled': 'gone'}
KEY_ERRORS = ('TransactionIntegrityError', 'IntegrityError', 'UnexpectedError', 'CommitException')


def key_history(ctx, rng, composite, nops, script=None, init_vals=None):
    """one entity with an integer primary key and one secondary key; random calls over several sessions; after every call the key
    index of the real cache, the statuses, key values and write bits of the cached objects, and after flushes the table, are compared
    with the model; every lookup is compared with what the program has (oracle)"""
    db = Database()
    d = {'id': PrimaryKey(int)}
    if composite:
        d['c0'] = Optional(int); d['c1'] = Optional(int)
        d['_indexes_'] = [core.Index(d['c0'], d['c1'], is_pk=False, is_unique=True)]
    else: d['u'] = Optional(int, unique=True)
    E = type('E', (db.Entity,), d)
    db.bind('sqlite', ':memory:')
    db.generate_mapping(create_tables=True)
    comps = ['c0', 'c1'] if composite else ['u']
    attrs = [getattr(E, n) for n in comps]
    ikey = tuple(attrs) if composite else attrs[0]
    def kv_of(vals): return None if any(v is None for v in vals) else list(vals)
    def rand_comp(): return rng.choice([None, 0, 1, 1, 2, 2, 3])
    try:
        init = {}
        with db_session:
            used = set()
            for i in range(1, 5):
                vals = [rand_comp() for _ in comps]
                k = kv_of(vals)
                if k is not None and tuple(k) in used: vals = [None for _ in comps]; k = None
                if k is not None: used.add(tuple(k))
                if init_vals is not None:
                    if str(i) not in init_vals: continue
                    vals = list(init_vals[str(i)])
                E(id=i, **dict(zip(comps, vals))); init[i] = vals
        have = dict(init)                 # what the program has: id -> component values
        committed = dict(init)
        ops, mops, checks, findings = [], [], [], []
        held = {}
        nxt = 5
        wf = True                         # the program is well-formed so far (premise OpOk of the theorems)
        db_session.__enter__()
        try:
            def cache(): return core.local.db2cache.get(db)
            def snapshot(after_flush):
                c = cache()
                snap = {'objs': [], 'idx': [], 'rows': None, 'modified': bool(c.modified) if c is not None and c.is_alive else False}
                if c is None or not c.is_alive: return snap
                for obj in c.objects:
                    vals = [obj._vals_.get(a) for a in attrs]
                    wb = bool(obj._wbits_) and any(obj._wbits_ & obj._bits_.get(a, 0) for a in attrs)
                    snap['objs'].append([obj._pkval_, KEY_STATUS[obj._status_], kv_of(vals), wb])
                snap['objs'].sort(key=lambda x: x[0])
                for k, o in c.indexes[ikey].items(): snap['idx'].append([list(k) if composite else [k], o._pkval_])
                snap['idx'].sort()
                if after_flush and c.connection is not None:
                    rows = c.connection.execute('SELECT id, %s FROM "E" ORDER BY id' % ', '.join(comps)).fetchall()
                    snap['rows'] = [[r[0], kv_of(list(r[1:]))] for r in rows]
                return snap
            def call(fn):
                try: return fn(), None
                except Exception as e: return None, type(e).__name__
            def gen():
                k = rng.choice(['create', 'create', 'set', 'set', 'set', 'delete', 'flush', 'load', 'get', 'get', 'get', 'get', 'new_session'])
                if k == 'create':
                    vals = [rand_comp() for _ in comps]
                    return {'k': 'create', 'i': nxt if rng.random() < 0.9 else rng.randrange(1, nxt), 'kv': kv_of(vals), 'vals': vals}
                if k in ('set', 'delete'):
                    cands = [i for i in held if held[i]._status_ not in core.del_statuses]
                    if not cands: return None
                    i = rng.choice(cands)
                    if k == 'delete': return {'k': 'delete', 'i': i}
                    j = rng.randrange(len(comps)); v = rand_comp()
                    vals = list(have[i]); vals[j] = v
                    return {'k': 'setKey', 'i': i, 'kv': kv_of(vals), 'j': j, 'val': v}
                if k == 'flush': return {'k': 'flush'}
                if k == 'new_session': return {'k': 'newSession'}
                if k == 'load': return {'k': 'loadPk', 'i': rng.randrange(1, nxt + 1)}
                return {'k': 'getBy', 'v': [rng.choice([0, 1, 2, 3]) for _ in comps]}
            for step in range(nops if script is None else len(script)):
                mop = dict(script[step]) if script is not None else gen()
                if mop is None: continue
                k = mop['k']
                if k in ('setKey', 'delete') and (mop['i'] not in held or held[mop['i']]._status_ in core.del_statuses or mop['i'] not in have): continue
                exp_out = None; after_flush = False; err = None
                if k == 'create':
                    i = mop['i']; vals = list(mop['vals'])
                    r, err = call(lambda: E(id=i, **dict(zip(comps, vals))))
                    if err is None:
                        if i in have and wf:
                            # accepted although the program still has an object under this key (its row is not loaded): an ill-formed program;
                            # what `delete` of the new object then leaves behind is the situation of C09_full_false (replayed by C09 on every
                            # run) - the state tie goes on, the verdict on lookups stops here
                            wf = False; ctx.count('key:oracle-off:accepted-create-under-a-primary-key-in-use')
                        held[i] = r; have[i] = vals; nxt = max(nxt, i + 1); exp_out = 'ok'
                    elif err == 'CacheIndexError': exp_out = 'refused'
                elif k == 'delete':
                    i = mop['i']
                    _, err = call(held[i].delete)
                    if err is None: have.pop(i, None); exp_out = 'ok'
                elif k == 'setKey':
                    i = mop['i']; j = mop['j']; v = mop['val']
                    vals = list(have[i]); vals[j] = v
                    _, err = call(lambda: setattr(held[i], comps[j], v))
                    if err is None: have[i] = vals; exp_out = 'ok'
                    elif err == 'CacheIndexError': exp_out = 'refused'
                elif k == 'flush':
                    _, err = call(flush); after_flush = True
                    if err is None: exp_out = 'ok'
                elif k == 'newSession':
                    _, err = call(commit)
                    if err is None:
                        db_session.__exit__(None, None, None); core.local.db_session = None; core.local.db_context_counter = 0
                        db_session.__enter__(); held = {}; committed = dict(have); exp_out = 'ok'
                elif k == 'loadPk':
                    i = mop['i']
                    r, err = call(lambda: E[i]); after_flush = True
                    if err == 'ObjectNotFound': exp_out = 'notFound'; err = None
                    elif err is None: held[i] = r; exp_out = 'found:%d' % i
                    want = 'found:%d' % i if i in have else 'notFound'
                    if err is None and exp_out != want and wf:
                        findings.append({'form': 'getitem', 'got': exp_out, 'expected': want, 'ops': ops + [mop]})
                else:
                    vals = list(mop['v'])
                    r, err = call(lambda: E.get(**dict(zip(comps, vals)))); after_flush = True
                    if err is None:
                        exp_out = 'notFound' if r is None else 'found:%d' % r._pkval_
                        if r is not None: held[r._pkval_] = r
                        match = sorted(i for i, hv in have.items() if kv_of(hv) == vals)
                        want = 'found:%d' % match[0] if match else 'notFound'
                        if len(match) > 1:
                            # the program holds two objects with one key (the constructor / assignment could not see the clash with a row that is
                            # not loaded; the flush will be refused): either of them is "what the program has"
                            ctx.count('key:lookup-with-an-undetected-key-clash-pending')
                            if exp_out in ['found:%d' % m for m in match]: want = exp_out
                        if exp_out != want and wf:
                            findings.append({'form': 'get-composite-key' if composite else 'get-unique', 'got': exp_out, 'expected': want, 'ops': ops + [mop]})
                ops.append(mop)
                ctx.count('key:op:%s:%s' % (mop['k'], err or exp_out.split(':')[0]))
                ctx.case({'key-model': 'composite' if composite else 'unique', 'i': step, 'op': mop}, nontrivial=True, kind='key-call')
                if err is not None and exp_out is None:
                    # a flush (explicit or implicit) failed loudly: the session is over
                    mops.append(mop); checks.append({'out': 'error', 'err': err, 'snap': None}); break
                mops.append(mop); checks.append({'out': exp_out, 'err': None, 'snap': snapshot(after_flush and cache() is not None and not cache().modified)})
                if findings: break
        finally:
            try: db_session.__exit__(RuntimeError, RuntimeError('end'), None)
            except Exception: pass
            core.local.db_session = None; core.local.db_context_counter = 0
        return {'composite': composite, 'init': [[i, kv_of(v)] for i, v in sorted(init.items())], 'init_vals': {str(i): v for i, v in init.items()}, 'ops': ops, 'mops': mops, 'checks': checks, 'findings': findings}
    finally:
        try: db.disconnect()
        except Exception: pass


def key_tie(ctx, nhist, nops):
    rng = ctx.rng
    batch = []
    for h in range(nhist):
        composite = rng.random() < 0.4
        try: r = key_history(ctx, rng, composite, nops)
        except Exception as e:
            ctx.count('key:history-crashed:' + type(e).__name__); continue
        ctx.count('key:history:' + ('composite' if composite else 'unique'))
        for f in r['findings']:
            ctx.violation('a lookup by key inside the session does not return what the program has',
                          {'key-model': 'composite' if composite else 'unique', 'rows': r['init'], 'init_vals': r['init_vals'], 'ops': f['ops']}, observed=f['got'], expected=f['expected'],
                          key='%s:key-lookup' % f['form'])
        batch.append(r)
    if not ctx.driver.ok:
        ctx.note('driver unavailable: the key-lookup correspondence is skipped'); return
    outs = ctx.driver('C10', [{'op': 'run', 'model': 'key', 'ids': [i for i, _ in r['init']], 'rows': r['init'], 'ops': r['mops']} for r in batch])
    for r, out in zip(batch, outs):
        steps = out.get('steps')
        inp = {'key-model': 'composite' if r['composite'] else 'unique', 'rows': r['init']}
        if steps is None:
            if 'unknown property' in str(out.get('driver_error')): raise RuntimeError('the shared driver executable was replaced while running: %r' % out)
            ctx.divergence('driver error (key model)', dict(inp, ops=r['mops']), model=out); continue
        for i, (st, chk) in enumerate(zip(steps, r['checks'])):
            here = dict(inp, ops=r['mops'][:i + 1])
            mout = st['out']
            if not st.get('valid', True): ctx.count('key:model-op-under-a-primary-key-in-use')
            if chk['out'] == 'error':
                if not mout.startswith('error'):
                    if chk['err'] in KEY_ERRORS:
                        # the database checks its UNIQUE constraint after every statement, the model after the flush: a transient clash
                        # (two objects exchanging / passing on a key) is refused by the real flush only
                        ctx.count('key:history-cut:transient-unique-violation-inside-a-flush')
                    else: ctx.divergence('the real call raised, the model did not', here, model=mout, impl=chk['err'])
                else: ctx.count('key:tie:flush-refused-by-both:' + mout)
                break
            if mout != chk['out']:
                ctx.divergence('outcome of %s differs (key model)' % r['mops'][i]['k'], here, model=mout, impl=chk['out']); break
            sn = chk['snap']
            mobjs = sorted([o for o in st['objs'] if o[1] != 'gone' or any(x[0] == o[0] for x in sn['objs'])], key=lambda x: x[0])
            robjs = sn['objs']
            if {o[0]: o for o in mobjs if o[1] != 'gone'} != {o[0]: o for o in robjs if o[1] != 'gone'}:
                ctx.divergence('cached objects differ (key model)', here, model=mobjs, impl=robjs); break
            if sorted(st['idx']) != sn['idx']:
                ctx.divergence('key index differs', here, model=sorted(st['idx']), impl=sn['idx']); break
            if sn['rows'] is not None and sorted(st['rows']) != sorted(sn['rows']):
                ctx.divergence('table differs after a flush (key model)', here, model=st['rows'], impl=sn['rows']); break
            if bool(st['modified']) and not sn['modified']:
                ctx.divergence('cache.modified not set although the key model has pending changes', here, model=True, impl=False); break
            ctx.count('tie:key-states-compared')
            ctx.count('key:tie:outcome:%s:%s' % (r['mops'][i]['k'], mout.split(':')[0]))


# ---------------------------------------------------------------- entry points

def witness_delete_unloaded(ctx):
    """found by this check (and independently elsewhere; repaired in /repo by commit e38da5d): an object known only through a
    foreign key (its row is not loaded) is deleted;
    `_delete_` skips `reverse_remove` for the many-to-one attribute that is not loaded yet, a later attribute of the same loop
    (a one-to-one with a column) loads the row, which registers the dying object in the parent's collection — the collection
    then listed a deleted object, also after the flush.  Kept as a regression input."""
    db = Database()
    class P(db.Entity):
        items = Set('X')
    class Y(db.Entity):
        x = Optional('X')
    class X(db.Entity):
        parent = Optional(P)            # many-to-one, declared before the one-to-one
        y = Optional(Y, column='y')     # one-to-one whose column is in X's table
        zs = Set('Z')
    class Z(db.Entity):
        x = Required(X)
    db.bind('sqlite', ':memory:')
    db.generate_mapping(create_tables=True)
    try:
        with db_session:
            p = P(); x = X(parent=p); Z(x=x)
        with db_session:
            p = P[1]; z = Z[1]
            x = z.x                     # known through z's foreign key only
            unloaded = X.parent not in x._vals_
            x.delete()
            got = {'iter': [repr(i) for i in p.items], 'len': len(p.items), 'count': p.items.count(), 'is_empty': p.items.is_empty()}
            rollback()
        ctx.case({'witness': 'delete-of-unloaded-object', 'row-was-unloaded': unloaded}, kind='witness')
        exp = {'iter': [], 'len': 0, 'count': 0, 'is_empty': True}
        if got != exp:
            ctx.count('witness-reproduced:delete-of-unloaded-object')
            ctx.violation('a collection lists an object the session has deleted (the object was known only through a foreign key when it was deleted)',
                          {'entities': 'P.items=Set(X); X.parent=Optional(P); X.y=Optional(Y, column=..); Z.x=Required(X)',
                           'calls': ['p = P[1]', 'x = Z[1].x', 'x.delete()', 'list(p.items)']}, observed=got, expected=exp,
                          key='deleted-object-listed-in-collection:o2m')
        else: ctx.count('witness-not-reproduced:delete-of-unloaded-object')
    finally:
        db.disconnect()


def witness_unflushed_parameter(ctx):
    """found by this check, open: a query whose parameter is a new object with an auto-generated key evaluates its arguments
    (primary key = None) BEFORE the implicit flush gives the object its key, and silently finds nothing
    (fixes/C10-query-arguments-before-autoflush.diff)"""
    db = Database()
    class A(db.Entity):
        bs = Set('B')
    class B(db.Entity):
        a = Optional(A)
    db.bind('sqlite', ':memory:')
    db.generate_mapping(create_tables=True)
    from pony.orm import select, count, exists, delete
    forms = [('select-generator', lambda a, b: [x.id for x in select(x for x in B if x.a == a)] == [b.id]),
             ('collection-select', lambda a, b: [x.id for x in a.bs.select()] == [b.id]),
             ('select-keyword', lambda a, b: [x.id for x in B.select(a=a)] == [b.id]),
             ('get-keyword', lambda a, b: B.get(a=a) is b),
             ('exists-keyword', lambda a, b: B.exists(a=a) is True),
             ('count-generator', lambda a, b: count(x for x in B if x.a == a) == 1),
             ('bulk-delete', lambda a, b: delete(x for x in B if x.a == a) == 1)]
    wrong = []
    try:
        for name, f in forms:
            with db_session:
                a = A(); b = B(a=a)
                try: ok = f(a, b)
                except Exception as e: ok = 'raised ' + type(e).__name__
                if ok is not True: wrong.append(name)
                rollback()
        ctx.case({'witness': 'unflushed-object-as-query-parameter', 'wrong': wrong}, kind='witness')
        if wrong:
            ctx.count('witness-reproduced:unflushed-object-as-query-parameter')
            ctx.violation('a query, get(), exists(), aggregate or bulk delete whose parameter is a new unflushed object finds nothing: the arguments are evaluated before the implicit flush assigns the primary key',
                          {'entities': 'A.bs=Set(B); B.a=Optional(A)', 'calls': ['a = A()', 'b = B(a=a)', 'select(x for x in B if x.a == a)[:]  (and 6 other forms)']},
                          observed={'forms with a wrong answer': wrong}, expected={'forms with a wrong answer': []}, key='unflushed-object-as-query-parameter')
        else: ctx.count('witness-not-reproduced:unflushed-object-as-query-parameter')
    finally:
        db.disconnect()


def witness_count_blind_write(ctx):
    """found by this check, open: count() queries the database with flushing disabled and corrects the answer by the added /
    removed items the collection knows of; when the parent of an item whose row is not loaded (known through a foreign key only)
    is reassigned, the old parent's collection is not told, and its count() is one too large until the next flush
    (fixes/C10-count-without-flush-misses-unknown-pending-changes.diff)"""
    db = Database()
    class E(db.Entity):
        id = PrimaryKey(int)
        kids = Set('E', reverse='parent')
        parent = Optional('E', reverse='kids')
    db.bind('sqlite', ':memory:')
    db.generate_mapping(create_tables=True)
    try:
        with db_session:
            e2 = E(id=2); flush(); e2.parent = e2; E(id=1, parent=e2)       # both are children of e2
        with db_session:
            e1 = E[1]                       # e2 is known through e1's foreign key only
            e2 = e1.parent
            unloaded = E.parent not in e2._vals_
            e2.parent = e1                  # the old parent (e2 itself) is unknown: its collection is not told
            e1.parent = e1
            got = {'count': e2.kids.count(), 'len': len(e2.kids)}
            rollback()
        ctx.case({'witness': 'count-blind-write', 'row-was-unloaded': unloaded}, kind='witness')
        if got != {'count': 0, 'len': 0}:
            ctx.count('witness-reproduced:count-without-flush')
            ctx.violation('count() of a collection misses an unflushed change the collection does not know of (the reference of an item whose row is not loaded was reassigned)',
                          {'entities': "E.kids=Set(E); E.parent=Optional(E)", 'database': 'E[1].parent = E[2], E[2].parent = E[2]',
                           'calls': ['e1 = E[1]', 'e2 = e1.parent', 'e2.parent = e1', 'e1.parent = e1', 'e2.kids.count()']},
                          observed=got, expected={'count': 0, 'len': 0}, key='coll-count:unflushed-change-unknown-to-the-collection')
        else: ctx.count('witness-not-reproduced:count-without-flush')
    finally:
        db.disconnect()


def regression_o2m_assignment_recorded_twice(ctx):
    """commit a8e2f48 (found by `VERIF_SEED=3 ./check C10 --tier thorough`): Set.__set__ of a one-to-many collection recorded the leaving /
    entering items a second time after reverse.__set__() had done it: `b = B(); a.bs.add(b); a.bs.clear(); b.a = a; list(a.bs)` raised
    AssertionError (a never-saved item in `removed`, then in the collection without being in `added`)"""
    db = Database()
    class A(db.Entity):
        id = PrimaryKey(int)
        bs = Set('B')
    class B(db.Entity):
        id = PrimaryKey(int)
        a = Optional(A)
    db.bind('sqlite', ':memory:'); db.generate_mapping(create_tables=True)
    calls = ['b = B(id=9)', 'a.bs.add(b)', 'a.bs.clear()', 'b.a = a', 'sorted(a.bs), a.bs.count(), len(a.bs)']
    try:
        with db_session: A(id=1); B(id=1, a=1)
        for variant in ('clear', 'assign'):
            try:
                with db_session:
                    a = A[1]; b = B(id=9); a.bs.add(b)
                    if variant == 'clear': a.bs.clear(); exp = [9]
                    else: a.bs = [B[1]]; exp = [1, 9]
                    b.a = a
                    sd = a._vals_[A.bs]
                    ghost = sorted(x.id for x in (sd.removed or ()) if x._status_ == 'created')
                    got = {'items': sorted(x.id for x in a.bs), 'count': a.bs.count(), 'len': len(a.bs), 'never-saved-in-removed': ghost}
                    rollback()
            except Exception as e: got = 'raised:' + type(e).__name__
            ctx.case({'regression': 'o2m-assignment-recorded-twice', 'variant': variant}, kind='regression')
            want = {'items': exp, 'count': len(exp), 'len': len(exp), 'never-saved-in-removed': []}
            if got != want:
                ctx.violation('a read inside the session does not reflect what the session did', {'calls': calls, 'variant': variant},
                              observed=got, expected=want, key='coll-iter:o2m')
    finally: db.disconnect()


def regressions(ctx):
    regression_o2m_assignment_recorded_twice(ctx)
    witness_count_blind_write(ctx)
    witness_delete_unloaded(ctx)
    witness_unflushed_parameter(ctx)
    for name, hist in WITNESSES + REGRESSIONS:
        r = S.Run(hist['schema'], ops=hist['ops'], ctx=None)
        try:
            r.run()
            ctx.case({'regression': name}, kind='regression')
            for f in r.findings:
                if f['prop'] == 'C10': ctx.violation(f['what'], hist, observed=f['observed'], expected=f['expected'], key=f['key'])
                else: ctx.count('regression:%s:other-property-finding:%s' % (name, f['key']))
        finally: r.close()


def run(ctx):
    regressions(ctx)
    setdata_tie(ctx, ctx.scale(100, 700), ctx.scale(14, 20))
    key_tie(ctx, ctx.scale(100, 700), ctx.scale(14, 20))
    S.explore(ctx, 'C10', ctx.scale(200, 1000), ctx.scale(22, 30))


def replay(ctx, data):
    inp = data.get('input') or {}
    if 'schema' in inp and 'ops' in inp:
        r = S.Run(inp['schema'], ops=inp['ops'], ctx=ctx)
        try:
            r.run()
            ctx.case({'replay': True}, kind='replay')
            for f in r.findings:
                if f['prop'] == 'C10': ctx.violation(f['what'], inp, observed=f['observed'], expected=f['expected'], key=f['key'])
        finally: r.close()
    elif 'watch' in inp:
        probe_cfg(ctx)
    elif 'key-model' in inp and 'init_vals' in inp and all('k' in o for o in inp.get('ops', [])):
        comp = inp['key-model'] == 'composite'
        r = key_history(ctx, ctx.rng, comp, 0, script=inp['ops'], init_vals=inp['init_vals'])
        ctx.case({'replay': True}, kind='replay')
        for f in r['findings']:
            ctx.violation('a lookup by key inside the session does not return what the program has',
                          {'key-model': inp['key-model'], 'rows': r['init'], 'init_vals': r['init_vals'], 'ops': f['ops']}, observed=f['got'], expected=f['expected'],
                          key='%s:key-lookup' % f['form'])
    else:
        run(ctx)
