"""C10 — lookups and queries inside a session see the session's own unflushed changes.

The harness is shared with C09 (engines/sess_shared.py).  Property oracle (this engine reports): after every modification,
before and after flushes, every read form — attribute access, collection iteration / len / count() / is_empty() / `in` /
bool / select(), E[pk], get() by primary key, unique key, composite key, keyword and relationship, exists(), select() with
and without keyword filters, generator and lambda queries, aggregates, to_dict() — must give what the in-memory shadow of
the program's state says.  Tie: as for C09 (the model's `load` / `hasLink` / flush-before-query behaviour is compared
with the real session through the shared driver entry), plus the SetData count model (Model/SetCount.lean).
"""
import json
from engines import sess_shared as S


def run(ctx):
    S.explore(ctx, 'C10', ctx.scale(260, 6000), ctx.scale(22, 30))


def replay(ctx, data):
    inp = data.get('input') or {}
    if 'schema' in inp and 'ops' in inp:
        r = S.Run(inp['schema'], ops=inp['ops'], ctx=ctx)
        try:
            r.run()
            ctx.case({'replay': True}, kind='replay')
            for f in r.findings:
                if f['prop'] == 'C10': ctx.violation(f['what'], inp, observed=f['observed'], expected=f['expected'], key=f['key'])
        finally: r.close()
    else:
        run(ctx)
