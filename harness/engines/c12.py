"""C12 — both ends of every relationship stay consistent.

Tie (correspondence): random schemas from the grammar of `Model/Rel.lean` (one-to-one, many-to-one, many-to-many,
symmetric one-to-one / many-to-many, self relations, required / cascade flags) are turned into real entity classes on a
fresh in-memory SQLite database; a random history of calls (valid and failing) runs on real Pony inside one db_session;
after EVERY call the outcome (ok / exception class) and both ends of every relationship of every live object, read from
`obj._vals_` without triggering loads, are compared with the Lean model driven with the same history.

Property oracle (on the real objects, after every call): for every live object p, attribute b and value q held by p
under b, q holds p under b.reverse.  A second phase commits, reloads in a fresh session, reads a random part of the
data through the public API and checks that the loaded parts agree with each other and with the model, continues the
history on the loaded objects, commits again and reads everything back.
"""
import itertools, json, os, random
from pony.orm import Database, Required, Optional, Set, db_session, commit, rollback
from pony.orm import core

DEL = core.del_statuses
WITNESSES = []   # filled below: directed histories replayed on every run

# ---------------------------------------------------------------- schema

def gen_schema(rng, force_kind=None):
    nent = rng.choice([1, 2, 2, 3, 3, 4])
    nrel = rng.choice([1, 2, 2, 3, 3, 4])
    rels = []
    pk_ents = set()
    for i in range(nrel):
        kind = force_kind if (force_kind and i == 0) else rng.choice(['o2o', 'o2o', 'm2o', 'm2o', 'm2o', 'm2m', 'm2m', 'sym1', 'symm'])
        ea = rng.randrange(nent)
        eb = ea if rng.random() < 0.25 else rng.randrange(nent)
        if kind == 'o2o':
            areq = rng.random() < 0.35
            breq = (not areq) and rng.random() < 0.2
            casc = rng.choice([None, None, None, 'a', 'b'])
            r = {'kind': kind, 'sym': False,
                 'a': {'ent': ea, 'coll': False, 'req': areq, 'opt_casc': True if casc == 'a' else None},
                 'b': {'ent': eb, 'coll': False, 'req': breq, 'opt_casc': True if casc == 'b' else None}}
            if areq and ea not in pk_ents and rng.random() < 0.4:
                r['pk'] = True; pk_ents.add(ea)                        # PrimaryKey(one-to-one reference, tag)
        elif kind == 'm2o':
            r = {'kind': kind, 'sym': False,
                 'a': {'ent': ea, 'coll': False, 'req': rng.random() < 0.4, 'opt_casc': None},
                 'b': {'ent': eb, 'coll': True, 'req': False, 'opt_casc': rng.choice([None, None, None, True, False])},
                 'ckey': rng.random() < 0.3}      # composite_key(reference, tag) on the entity of the reference
            lazy_ref = rng.random() < 0.25
            if r['a']['req'] and ea not in pk_ents and rng.random() < 0.4:
                r['pk'] = True; r['ckey'] = False; pk_ents.add(ea)     # PrimaryKey(reference, tag): the reference is part of the primary key
            if lazy_ref and not r.get('pk'): r['a']['lazy'] = True       # (a primary-key attribute cannot be lazy)
            if rng.random() < 0.5: r['a'], r['b'] = r['b'], r['a']     # collection side may come first in declaration order
        elif kind == 'm2m':
            r = {'kind': kind, 'sym': False,
                 'a': {'ent': ea, 'coll': True, 'req': False, 'opt_casc': None},
                 'b': {'ent': eb, 'coll': True, 'req': False, 'opt_casc': None}}
        elif kind == 'sym1':
            r = {'kind': kind, 'sym': True, 'a': {'ent': ea, 'coll': False, 'req': False, 'opt_casc': None}}
        else:
            r = {'kind': kind, 'sym': True, 'a': {'ent': ea, 'coll': True, 'req': False, 'opt_casc': None}}
        rels.append(r)
    return {'nent': nent, 'rels': rels}


class World:
    """real entity classes built from a schema + bookkeeping to translate between model ids and real objects"""
    def __init__(self, schema):
        self.schema = schema
        self.db = db = Database()
        nent = schema['nent']
        dicts = [dict() for _ in range(nent)]
        self.attrs = {}            # (rel, side) -> Attribute
        self.names = {}            # (rel, side) -> attribute name
        for i, r in enumerate(schema['rels']):
            sides = ['a'] if r['sym'] else ['a', 'b']
            for sn in sides:
                d = r[sn]
                other = r['a'] if r['sym'] else r['b' if sn == 'a' else 'a']
                name = 'r%d%s' % (i, sn)
                rname = name if r['sym'] else 'r%d%s' % (i, 'b' if sn == 'a' else 'a')
                cls = Set if d['coll'] else (Required if d['req'] else Optional)
                kw = {'reverse': rname}
                if d['opt_casc'] is not None: kw['cascade_delete'] = d['opt_casc']
                if d.get('lazy') and not d['coll']: kw['lazy'] = True          # lazy reference: loaded on first read only
                attr = cls('E%d' % other['ent'], **kw)        # attributes are created in declaration order (attr.id)
                dicts[d['ent']][name] = attr
                self.attrs[(i, sn == 'b')] = attr
                self.names[(i, sn == 'b')] = name
        for e in range(nent):
            dicts[e]['tag'] = Required(int)
        for i, r in enumerate(schema['rels']):                 # what `composite_key(ref, tag)` in the class body does
            if r.get('ckey') or r.get('pk'):
                sn = 'b' if r['a']['coll'] else 'a'
                if r['kind'] == 'o2o': sn = 'a'
                d = dicts[r[sn]['ent']]
                d.setdefault('_indexes_', []).append(core.Index(d['r%d%s' % (i, sn)], d['tag'], is_pk=bool(r.get('pk')), is_unique=True))
        self.classes = [type('E%d' % e, (db.Entity,), dicts[e]) for e in range(nent)]
        db.bind('sqlite', ':memory:')
        db.generate_mapping(create_tables=True)
        # the model's schema is read back from the real attribute objects (effective flags after Attribute.linked)
        self.model_schema = []
        for i, r in enumerate(schema['rels']):
            def side(key):
                a = self.attrs[key]
                return {'ent': self.classes.index(a.entity), 'coll': bool(a.is_collection), 'req': bool(a.is_required), 'casc': bool(a.cascade_delete)}
            m = {'a': side((i, False)), 'sym': bool(r['sym'])}
            if not r['sym']: m['b'] = side((i, True))
            self.model_schema.append(m)
        self.ent_attrs = [[] for _ in range(nent)]        # entity -> [(rel, side)] in declaration order
        for key in sorted(self.attrs):
            self.ent_attrs[self.classes.index(self.attrs[key].entity)].append(key)
        for e, cls in enumerate(self.classes):            # declaration order of the real classes must be the model's
            real = [a.name for a in cls._attrs_ if a.reverse]
            assert real == [self.names[k] for k in self.ent_attrs[e]], (real, self.ent_attrs[e])
        self.objs = []

    def rev(self, key):
        i, s = key
        return key if self.schema['rels'][i]['sym'] else (i, not s)
    def side(self, key):
        return self.model_schema[key[0]]['b' if key[1] else 'a']
    def relkind(self, key):
        r = self.schema['rels'][key[0]]
        s = self.side(key); rs = self.side(self.rev(key))
        k = r['kind']
        if k == 'm2o': k = 'o2m' if s['coll'] else 'm2o'
        return k + ('+cascade' if s['casc'] else '') + ('+rcascade' if (rs['casc'] and not r['sym']) else '')

    def idx(self, x):
        for i, o in enumerate(self.objs):
            if o is x: return i
        return -1

    # ---- real calls
    def apply(self, op):
        """run one call on real Pony; returns None or the exception class name"""
        k = op['k']
        try:
            if k == 'create':
                kw = {}
                for key, v in op['vals']:
                    key = tuple(key)
                    kw[self.names[key]] = [self.objs[i] for i in v['coll']] if 'coll' in v else (None if v['ref'] is None else self.objs[v['ref']])
                kw['tag'] = op.get('tag', 0)
                o = self.classes[op['e']](**kw)
                self.objs.append(o)
                return None
            obj = self.objs[op['o']]
            if k == 'delete':
                obj.delete(); return None
            if k == 'setMany':
                kw = {}
                for a, v in op['refs']: kw[self.names[tuple(a)]] = None if v is None else self.objs[v]
                for a, items in op['colls']: kw[self.names[tuple(a)]] = [self.objs[i] for i in items]
                obj.set(**kw); return None
            name = self.names[tuple(op['a'])]
            if k == 'setRef':
                setattr(obj, name, None if op['v'] is None else self.objs[op['v']])
            elif k == 'setColl':
                setattr(obj, name, [self.objs[i] for i in op['items']])
            elif k == 'add':
                items = [self.objs[i] for i in op['items']]
                if op.get('via') == 'iadd': setattr(obj, name, getattr(obj, name).__iadd__(items))
                elif op.get('via') == 'single' and len(items) == 1: getattr(obj, name).add(items[0])
                else: getattr(obj, name).add(items)
            elif k == 'remove':
                items = [self.objs[i] for i in op['items']]
                if op.get('via') == 'isub': setattr(obj, name, getattr(obj, name).__isub__(items))
                elif op.get('via') == 'single' and len(items) == 1: getattr(obj, name).remove(items[0])
                else: getattr(obj, name).remove(items)
            elif k == 'clear':
                getattr(obj, name).clear()
            elif k == 'setMany':
                pass
            else:
                raise RuntimeError('unknown op ' + k)
            return None
        except Exception as e:
            if isinstance(e, TypeError) and 'primary key' in str(e): return 'PrimaryKeyChange'     # a failure cause outside the model
            return type(e).__name__

    def alive(self, o):
        return o._status_ not in DEL

    def snapshot(self):
        """both ends of everything, read from _vals_ (no loads)"""
        out = []
        for o in self.objs:
            e = self.classes.index(type(o))
            refs, colls = [], []
            for key in self.ent_attrs[e]:
                attr = self.attrs[key]
                v = o._vals_.get(attr) if o._vals_ is not None else None
                if attr.is_collection: colls.append([key[0], key[1], sorted(self.idx(x) for x in (v or ()))])
                else: refs.append([key[0], key[1], None if v is None else self.idx(v)])
            out.append({'ent': e, 'alive': self.alive(o), 'refs': refs, 'colls': colls})
        return out


def held(snapobj, key):
    """list of ids the object holds under attribute key in a snapshot / model dump"""
    for r, s, v in snapobj['refs']:
        if (r, bool(s)) == key: return [] if v is None else [v]
    for r, s, l in snapobj['colls']:
        if (r, bool(s)) == key: return list(l)
    return []


def ends_disagree(w, snap):
    """the property oracle on one snapshot: [(p, key, q, why)] for every half link of a live object without its mirror"""
    bad = []
    for p, so in enumerate(snap):
        if not so['alive']: continue
        for key in w.ent_attrs[so['ent']]:
            for q in held(so, key):
                if q < 0 or q >= len(snap):
                    bad.append((p, key, q, 'value is not an object of the session')); continue
                if p not in held(snap[q], w.rev(key)):
                    bad.append((p, key, q, 'mirror missing'))
    return bad


def untracked_one_sided(w):
    """objects the session holds (cache.objects) that no successful call returned - e.g. left behind by a failed constructor -
    with a relationship value whose other end does not know them"""
    cache = w.db._get_cache()
    if cache is None: return []
    out = []
    for z in list(cache.objects):
        if w.idx(z) >= 0 or z._status_ in DEL or z._vals_ is None: continue
        for attr, v in z._vals_.items():
            if not attr.reverse or v is None: continue
            for q in (list(v) if attr.is_collection else [v]):
                rv = q._vals_.get(attr.reverse) if q._vals_ is not None else None
                ok = (z in rv) if isinstance(rv, set) else (rv is z)
                if not ok: out.append((repr(z), attr.name, w.idx(q)))
    return out


def dangling_key(w, op, err, d):
    """canonical key of a dangling reference: one key for the family 'a collection assignment whose cascade deleted an item that was to stay'"""
    p, key, q = d
    if op['k'] in ('setColl', 'setMany') and err is None and p == op.get('o') and w.side(key)['coll'] and w.side(key)['casc']:
        return 'dangling:assign-collection-cascade-kills-kept-item'
    if op['k'] == 'setMany' and err is None and p == op.get('o') and w.side(key)['coll'] and any(q in items for _, items in op['colls']) \
            and any(v is not None for _, v in op.get('refs_eff', op['refs'])):
        # Entity.set(ref=z, coll=[.., y]) whose REFERENCE keyword cascade-deletes y (y was the previous partner): the collection keyword still links y
        return 'dangling:entity-set-collection-keyword-links-object-deleted-by-reference-keyword'
    if op['k'] == 'setMany' and err is None and p == op.get('o') and any(v == q for _, v in op['refs']):
        return 'dangling:entity-set-links-object-deleted-by-same-call'   # Entity.set writes its reference keywords after the cascade of its collection keywords
    if op['k'] in ('setColl', 'setMany', 'setRef') and err is None and q == op.get('o'):
        return 'dangling:cascade-deletes-target-of-the-call'     # the object the call was made on is deleted after the successful call
    return 'dangling:%s/%s' % (op['k'], err or 'ok')


def dangling(w, snap):
    return [(p, key, q) for p, so in enumerate(snap) if so['alive'] for key in w.ent_attrs[so['ent']]
            for q in held(so, key) if 0 <= q < len(snap) and not snap[q]['alive']]

# ---------------------------------------------------------------- histories

def gen_op(rng, w, allow_bad=True):
    objs = w.objs
    snap_alive = [w.alive(o) for o in objs]
    by_ent = {}
    for i, o in enumerate(objs): by_ent.setdefault(w.classes.index(type(o)), []).append(i)
    def pick_value(key, bad):
        t = w.side(w.rev(key))['ent']
        cands = by_ent.get(t, [])
        live = [i for i in cands if snap_alive[i]]
        if bad and rng.random() < 0.5:
            dead = [i for i in cands if not snap_alive[i]]
            if dead: return rng.choice(dead), 'dead-value'
            other = [i for i in range(len(objs)) if i not in cands]
            if other: return rng.choice(other), 'wrong-type'
        if live: return rng.choice(live), None
        return None, None
    bad = allow_bad and rng.random() < 0.12
    tag = None
    r = rng.random()
    have = [i for i in range(len(objs)) if w.ent_attrs[w.classes.index(type(objs[i]))]]
    if r < 0.27 or not have:
        e = rng.randrange(w.schema['nent'])
        vals = []
        for key in w.ent_attrs[e]:
            s = w.side(key)
            if s['coll']:
                items = []
                for _ in range(rng.choice([0, 0, 1, 1, 2])):
                    v, t = pick_value(key, bad and rng.random() < 0.3); tag = tag or t
                    if v is not None and v not in items: items.append(v)
                if items or rng.random() < 0.3: vals.append([list(key), {'coll': sorted(items)}])
            else:
                give = s['req'] or rng.random() < 0.5
                if bad and s['req'] and rng.random() < 0.3: give, tag = False, 'required-missing'
                if give:
                    v, t = pick_value(key, bad and rng.random() < 0.3); tag = tag or t
                    if v is not None or rng.random() < 0.5: vals.append([list(key), {'ref': v}])
                elif rng.random() < 0.2: vals.append([list(key), {'ref': None}])
        return {'k': 'create', 'e': e, 'vals': vals, 'tag': rng.choice([0, 0, 1])}, tag
    live_have = [i for i in have if snap_alive[i]]
    pool = have if (bad and rng.random() < 0.4) else (live_have or have)
    o = rng.choice(pool)
    if not snap_alive[o]: tag = 'dead-target'
    if r < 0.40:
        return {'k': 'delete', 'o': o}, tag
    e = w.classes.index(type(objs[o]))
    if rng.random() < 0.09:
        keys = rng.sample(w.ent_attrs[e], min(len(w.ent_attrs[e]), rng.choice([1, 2, 2, 3])))
        refs, colls = [], []
        for key in keys:
            if w.side(key)['coll']:
                items = []
                for _ in range(rng.choice([0, 1, 2])):
                    v, t = pick_value(key, False)
                    if v is not None and v not in items: items.append(v)
                colls.append([list(key), sorted(items)])
            else:
                v, t = (None, None) if rng.random() < 0.25 else pick_value(key, False)
                refs.append([list(key), v])
        return {'k': 'setMany', 'o': o, 'refs': refs, 'colls': colls}, tag
    key = rng.choice(w.ent_attrs[e])
    s = w.side(key)
    if not s['coll']:
        if rng.random() < 0.3: return {'k': 'setRef', 'o': o, 'a': list(key), 'v': None}, tag
        v, t = pick_value(key, bad); tag = tag or t
        return {'k': 'setRef', 'o': o, 'a': list(key), 'v': v}, tag
    k = rng.choice(['add', 'add', 'add', 'remove', 'remove', 'setColl', 'setColl', 'clear'])
    if k == 'clear': return {'k': 'clear', 'o': o, 'a': list(key)}, tag
    items = []
    cur = list(objs[o]._vals_.get(w.attrs[key]) or ()) if objs[o]._vals_ is not None else []
    cur = [w.idx(x) for x in cur]
    for _ in range(rng.choice([0, 1, 1, 1, 2, 3])):
        if k == 'remove' and cur and rng.random() < 0.8: v, t = rng.choice(cur), None
        elif k == 'setColl' and cur and rng.random() < 0.4: v, t = rng.choice(cur), None
        else: v, t = pick_value(key, bad)
        tag = tag or t
        if v is not None and v >= 0 and v not in items: items.append(v)
    op = {'k': k, 'o': o, 'a': list(key), 'items': sorted(items)}
    if k in ('add', 'remove'):
        op['via'] = rng.choice(['list', 'list', 'single', 'iadd' if k == 'add' else 'isub'])
    return op, tag


def model_op(op):
    m = {k: v for k, v in op.items() if k not in ('via', 'tag', 'refs_eff')}
    return m


def expand(op):
    """the model has no Entity.set(**kw): it is compared with the sequence of single assignments in keyword order"""
    if op['k'] != 'setMany': return [model_op(op)]
    # Entity.set drops the keywords whose value equals the current one before doing anything ('refs_eff': the others)
    return [{'k': 'setRef', 'o': op['o'], 'a': a, 'v': v} for a, v in op.get('refs_eff', op['refs'])] + \
           [{'k': 'setColl', 'o': op['o'], 'a': a, 'items': items} for a, items in op['colls']]


def flat(ops):
    return [m for o in ops if not o.get('skip_model') for m in expand(o)]


def norm_dump(objs):
    return [{'ent': o['ent'], 'alive': o['alive'],
             'refs': [[r, bool(s), v] for r, s, v in o['refs']],
             'colls': [[r, bool(s), sorted(l)] for r, s, l in o['colls']]} for o in objs]


# exception classes the model can predict; anything else (key clashes, internal asserts of bookkeeping the model does not have)
# is a failure cause outside the model: the engine then checks that both ends still agree and nothing changed, and skips the call in the model
MODEL_ERRS = {'OperationWithDeletedObjectError', 'ValueError', 'TypeError', 'ConstraintError', 'RecursionError'}


def self_conflict(op):
    """Entity.set keywords that reference the object itself (obj.set(parent=obj, ...), obj.set(children=[obj, ..], ...)): the known finding"""
    o = op['o']
    return any(v == o for _, v in op['refs']) or any(o in items for _, items in op['colls'])


def classify(w, op, err, p, key, q, prev):
    """canonical id of the kind of disagreement (root cause where it is recognisable, else call/outcome/relationship/which end)"""
    rel = w.schema['rels'][key[0]]
    if rel['kind'] == 'sym1' and prev is not None:
        if any(i in held(so, key) for i, so in enumerate(prev) if so['alive']):
            return 'symmetric-one-to-one-self-link'
    if op['k'] == 'setRef' and err is None and rel['kind'] == 'o2o' and op['a'][0] == key[0] and op.get('v') is not None and prev is not None:
        okey = (op['a'][0], bool(op['a'][1]))
        if w.side(okey)['casc'] and held(prev[op['o']], okey):
            return 'one-to-one-cascade-reassign'
    if op['k'] == 'setMany' and self_conflict(op):
        return 'entity-set-conflicting-self-reference'
    o = op.get('o', None)
    where = 'target-lost' if q == o else ('target-kept' if p == o else 'other')
    return '%s/%s/%s/%s' % (op['k'], err or 'ok', w.relkind(key), where)


def run_history(schema, ops):
    """replays a fixed history on fresh real classes; returns (world, [(err, snapshot)])"""
    w = World(schema)
    res = []
    with db_session:
        for op in ops:
            err = w.apply(op)
            res.append((err, w.snapshot()))
        rollback()
    w.db.disconnect()
    return w, res


def first_violation(schema, ops):
    """(index, key, detail) of the first call after which the two ends disagree on the real objects, or None"""
    try:
        w, res = run_history(schema, ops)
    except Exception:
        return None
    for i, (err, snap) in enumerate(res):
        bad = ends_disagree(w, snap)
        if bad:
            p, key, q, why = bad[0]
            return i, classify(w, ops[i], err, p, key, q, res[i - 1][1] if i else []), {'p': p, 'attr': list(key), 'q': q, 'why': why, 'outcome': err or 'ok'}
    return None


def shrink(schema, ops, key0):
    """greedy: drop calls (object numbering is kept by never dropping a create) while the same kind of violation remains at the last call"""
    v = first_violation(schema, ops)
    if v is None: return ops
    ops = ops[:v[0] + 1]
    changed = True
    while changed:
        changed = False
        for i in range(len(ops) - 2, -1, -1):
            if ops[i]['k'] == 'create': continue
            cand = ops[:i] + ops[i + 1:]
            v2 = first_violation(schema, cand)
            if v2 is not None and v2[1] == key0 and v2[0] == len(cand) - 1:
                ops = cand; changed = True
    return ops


def report_violation(ctx, schema, ops, i, key, detail):
    small = shrink(schema, ops[:i + 1], key)
    v = first_violation(schema, small)
    if v is not None: detail = v[2]
    ctx.violation('after the call the two ends of a relationship disagree on the real objects (%s)' % key,
                  {'schema': schema, 'ops': small}, observed=detail,
                  expected='q holds p under attr.reverse whenever live p holds q under attr', key='ends-disagree:' + key)


def count_mismatch(w):
    """observation for C10 (not part of C12): SetData.count differs from the number of items of a fully loaded collection"""
    for o in w.objs:
        if o._vals_ is None or not w.alive(o): continue
        for v in o._vals_.values():
            if isinstance(v, core.SetData) and v.is_fully_loaded and v.count is not None and v.count != len(v): return True
    return False


def memory_phase(ctx, rng, nhist, nops):
    """phase 1: all objects created in the session; oracle after every call; then (often) commit + reload phase"""
    batch = []
    for h in range(nhist):
        schema = gen_schema(rng)
        try:
            w = World(schema)
        except Exception as e:
            ctx.count('schema-rejected:' + type(e).__name__); continue
        for rel in schema['rels']: ctx.count('rel:' + rel['kind'] + ('+ckey' if rel.get('ckey') else '') + ('+pk' if rel.get('pk') else ''))
        ops, real = [], []
        violated = False
        pks = None; found = None
        with db_session:
            prev = []
            for _ in range(nops):
                op, tag = gen_op(rng, w)
                if op['k'] == 'setMany' and prev:
                    op['refs_eff'] = [[a, v] for a, v in op['refs'] if held(prev[op['o']], (a[0], bool(a[1]))) != ([] if v is None else [v])]
                err = w.apply(op)
                snap = w.snapshot()
                ctx.count('op:%s:%s' % (op['k'], err or 'ok'))
                if tag: ctx.count('bad-operand:%s:%s' % (tag, err or 'ok'))
                ctx.case({'schema': w.model_schema, 'op': op, 'i': len(ops)}, nontrivial=True, kind='call')
                if err is not None and len(op.get('items', [])) > 1: ctx.count('multi-item-call-failed:%s:%s' % (op['k'], err))
                # --- the property oracle on the real objects
                bad = ends_disagree(w, snap)
                if bad:
                    p, key, q, why = bad[0]
                    found = (ops + [op], len(ops), classify(w, op, err, p, key, q, prev),
                             {'p': p, 'attr': list(key), 'q': q, 'why': why, 'outcome': err or 'ok'})
                    ctx.count('oracle:ends-disagree')
                    violated = True; break
                zs = untracked_one_sided(w)
                if zs:
                    ctx.violation('the session holds an object no call returned (left by a failed call) whose relationship value does not know it',
                                  {'schema': schema, 'ops': ops + [op]}, observed=zs[0], key='untracked-object-one-sided:%s/%s' % (op['k'], err or 'ok'))
                    violated = True; break
                if dangling(w, snap):
                    dead_operand = tag in ('dead-value', 'dead-target') or any(t == 'dead-value' for _, _, t in real)
                    ctx.count('live-object-references-deleted-object' + (':a-deleted-object-was-passed-as-value' if dead_operand else ''))
                    if not dead_operand:
                        ctx.violation('a live object references a deleted object although no deleted object was passed to any call',
                                      {'schema': schema, 'ops': ops + [op]}, observed=dangling(w, snap)[0], key=dangling_key(w, op, err, dangling(w, snap)[0]))
                        violated = True; break
                if count_mismatch(w): ctx.count('observation-for-C10:SetData.count-differs-from-len')
                if err is not None and (err not in MODEL_ERRS or op['k'] == 'setMany'):
                    # a failure cause outside the model (key clash ...): the model's answer for any failing call is "nothing changed"
                    ctx.count('failure-outside-model:%s:%s' % (err, 'state-unchanged' if norm_dump(snap) == norm_dump(prev) else 'STATE-CHANGED'))
                    if norm_dump(snap) != norm_dump(prev): break
                    op = dict(op, skip_model=True)
                ops.append(op); real.append((err, snap, tag))
                prev = snap
            if not violated and prev and dangling(w, prev):
                ctx.count('reload:skipped-live-object-references-deleted-object'); rollback()
            elif not violated and rng.random() < 0.6:
                try:
                    commit()
                    pks = [(o.get_pk() if w.alive(o) else None) for o in w.objs]
                except Exception as e:
                    ctx.count('reload:commit-failed:' + type(e).__name__)
                    rollback()
            else:
                rollback()
        if found is not None:      # reported outside the session: shrinking replays candidate histories in sessions of their own
            report_violation(ctx, schema, found[0], found[1], found[2], found[3])
        if pks is not None:
            reload_phase(ctx, rng, w, [o for o in ops if not o.get('skip_model')], real, pks)
        if not violated: batch.append((schema, w, ops, real))
        w.db.disconnect()
    if not ctx.driver.ok:
        ctx.note('driver unavailable: the correspondence part is skipped, the oracle still runs'); return
    outs = ctx.driver('C12', [{'op': 'run', 'schema': w.model_schema, 'ops': flat(ops)} for _, w, ops, _ in batch])
    for (schema, w, ops, real), out in zip(batch, outs):
        steps = out.get('steps')
        if steps is None:
            if 'unknown property' in str(out.get('driver_error')): raise RuntimeError('the shared driver executable was replaced while running: %r' % out)
            ctx.divergence('driver error', {'schema': schema, 'ops': ops}, model=out); continue
        k = -1
        for i, (err, snap, tag) in enumerate(real):
            if ops[i].get('skip_model'): continue
            if ops[i]['k'] == 'setMany' and self_conflict(ops[i]):
                ctx.count('setMany:conflicting-self-reference-not-compared'); break
            ex = expand(ops[i])
            if not ex: continue
            if any(steps[j]['err'] for j in range(k + 1, k + len(ex))) or (len(ex) > 1 and steps[k + len(ex)]['err']):
                ctx.count('setMany:single-assignments-fail-where-set-succeeds'); break      # not comparable: Entity.set is not the sequence here
            k += len(ex)
            if ops[i]['k'] == 'setMany': ctx.count('setMany:compared-with-single-assignments')
            m = steps[k]
            hist = {'schema': schema, 'ops': ops[:i + 1]}
            if not m.get('inv'): ctx.count('model:inv-false')
            merr = m['err']
            if merr in ('NoSuchObject', 'NoSuchAttr'):
                ctx.divergence('model rejected a call the engine generated', hist, model=merr, impl=err); break
            if (merr or None) != (err or None):
                if 'RecursionError' in (merr, err):
                    ctx.count('cascade-cycle-outcome-differs'); break
                ctx.divergence('outcome of the call differs', hist, model=merr, impl=err); break
            md = norm_dump(m['objs']); rd = norm_dump(snap)
            if len(md) != len(rd):
                ctx.divergence('number of objects differs', hist, model=len(md), impl=len(rd)); break
            diff = [j for j in range(len(md)) if md[j] != rd[j] and (md[j]['alive'] or rd[j]['alive'])]
            if diff:
                ctx.divergence('relationship values of a live object differ', hist, model=md[diff[0]], impl=rd[diff[0]]); break
            if any(md[j] != rd[j] for j in range(len(md))): ctx.count('stale-values-of-deleted-object-differ')
            ctx.count('tie:calls-compared')


# ---------------------------------------------------------------- reload phase (differential only)

def reload_phase(ctx, rng, w, ops, real, pks):
    """after the first session committed: a fresh session with partial loads, compare loaded parts, continue the history, commit, read all"""
    final = real[-1][1] if real else []
    expect = final
    ctx.count('reload:histories')
    old_objs = w.objs
    last = None; more = []
    # link rows after commit: a session of its own reads everything back and compares with what both ends showed at commit
    with db_session:
        try:
            w.objs = [None if pk is None else type(o)[pk] for o, pk in zip(old_objs, pks)]
            got = full_read(w)
        except core.ObjectNotFound:
            got = 'skip'          # reported below
        w.objs = old_objs
        rollback()
    if got != 'skip':
        exp_live = [(i, x) for i, x in enumerate(norm_dump(final)) if x['alive']]
        got_n = None if got is None else norm_dump([g if g is not None else {'ent': 0, 'alive': False, 'refs': [], 'colls': []} for g in got])
        bad = None
        if got_n is None: bad = ('read-raises', 'exception raised by Pony while reading the committed data back: %s' % getattr(w, 'read_error', None), None)
        else:
            for i, x in exp_live:
                if got_n[i] != x:
                    bad = (i, got_n[i], x); break
        if bad is not None:
            key = 'committed-links-differ'
            if bad[0] == 'read-raises': key += ':read-raises:' + str(getattr(w, 'read_error', '')).split(':')[0]
            if bad[0] != 'read-raises':
                i, g, x = bad
                for (r, sd, l), (_, _, l2) in zip(x['colls'], g['colls']):
                    if l != l2:
                        kk = (r, bool(sd)); key += ':' + w.relkind(kk)
                        if w.schema['rels'][r]['kind'] == 'symm' and (i in l) != (i in l2): key = 'committed-links-differ:symmetric-many-to-many-self-membership'
                        break
                else:
                    for (r, sd, v), (_, _, v2) in zip(x['refs'], g['refs']):
                        if v != v2: key += ':' + w.relkind((r, bool(sd))); break
            ctx.violation('the link rows after commit differ from what both ends showed in the committing session',
                          {'schema': w.schema, 'ops': ops}, observed=bad[1], expected=bad[2], key=key)
            return True
    with db_session:
        try:
            loaded = [None if pk is None else type(o)[pk] for o, pk in zip(w.objs, pks)]
        except core.ObjectNotFound as e:
            ctx.violation('an object that was alive when the session committed is missing from the database',
                          {'schema': w.schema, 'ops': ops}, observed=str(e), key='reload:live-object-missing-after-commit:' + (ops[-1]['k'] if ops else ''))
            w.objs = old_objs
            return True
        live = [i for i, o in enumerate(loaded) if o is not None]
        reads = []
        # partial loads through the public API
        for _ in range(rng.choice([0, 1, 2, 4, 8])):
            if not live: break
            i = rng.choice(live); o = loaded[i]
            keys = w.ent_attrs[expect[i]['ent']]
            if not keys: continue
            key = rng.choice(keys); name = w.names[key]
            try:
                if w.side(key)['coll']:
                    how = rng.choice(['copy', 'len', 'contains', 'is_empty', 'count', 'iter'])
                    c = getattr(o, name)
                    if how == 'copy': c.copy()
                    elif how == 'len': len(c)
                    elif how == 'is_empty': c.is_empty()
                    elif how == 'count': c.count()
                    elif how == 'iter': list(c)
                    else:
                        t = [j for j in live if expect[j]['ent'] == w.side(w.rev(key))['ent']]
                        if t: loaded[rng.choice(t)] in c
                    ctx.count('reload:read:' + how); reads.append([i, list(key), how])
                else:
                    getattr(o, name); ctx.count('reload:read:ref'); reads.append([i, list(key), 'get'])
            except Exception as e:
                ctx.divergence('reading committed data raised', {'schema': w.schema, 'ops': ops, 'read': [i, list(key)]}, impl=type(e).__name__)
                w.objs = old_objs
                return True
        def lidx(x):
            for j, y in enumerate(loaded):
                if y is x: return j
            return -1
        # loaded parts: agree with the committed model state and with each other
        for i in live:
            o = loaded[i]
            for key in w.ent_attrs[expect[i]['ent']]:
                attr = w.attrs[key]; rkey = w.rev(key); rattr = w.attrs[rkey]
                if attr not in o._vals_: continue
                v = o._vals_[attr]
                exp = held(expect[i], key)
                if attr.is_collection:
                    got = sorted(lidx(x) for x in v)
                    full = v.is_fully_loaded
                    ok = (got == sorted(exp)) if full else set(got) <= set(exp)
                else:
                    got = [] if v is None else [lidx(v)]
                    full = True
                    ok = got == exp
                ctx.case({'reload': [i, list(key)], 'full': full, 'n': len(got)}, nontrivial=False, kind='reload-cell')
                if not ok:
                    # oracle on the real code alone: what the committing session showed on both ends vs what the next session loads
                    ctx.violation('a value loaded from the database is not what both ends showed in the committing session',
                                  {'schema': w.schema, 'ops': ops, 'reads': reads, 'cell': [i, list(key)]}, observed=got, expected=exp,
                                  key='reload:loaded-item-not-in-committed-state:' + w.relkind(key))
                for qi in got:
                    if qi < 0: continue
                    q = loaded[qi]
                    if rattr not in q._vals_: continue
                    rv = q._vals_[rattr]
                    if rattr.is_collection:
                        if rv.is_fully_loaded and o not in rv:
                            ctx.violation('after a partial load the loaded ends disagree', {'schema': w.schema, 'ops': ops, 'cell': [i, list(key), qi]},
                                          observed='fully loaded reverse collection lacks the object', key='reload-ends-disagree:' + w.relkind(key))
                    elif rv is not o:
                        ctx.violation('after a partial load the loaded ends disagree', {'schema': w.schema, 'ops': ops, 'cell': [i, list(key), qi]},
                                      observed='reverse reference is %r' % (rv,), key='reload-ends-disagree:' + w.relkind(key))
        # continue the history on loaded objects (the model continues from the same state)
        w.objs = [x if x is not None else old_objs[j] for j, x in enumerate(loaded)]   # deleted ones keep their dead object
        n_more = rng.choice([0, 2, 4, 6])
        for _ in range(n_more):
            op, tag = gen_op(rng, w, allow_bad=False)
            if op['k'] == 'setMany': continue
            if op['k'] != 'create' and not w.alive(w.objs[op['o']]): continue
            if any(isinstance(x, int) and x < len(pks) and pks[x] is None for x in op.get('items', []) + ([op['v']] if op.get('v') is not None else [])): continue
            err = w.apply(op)
            snap = full_read(w)
            ctx.count('reload:op:%s:%s' % (op['k'], err or 'ok'))
            if err is not None and err not in MODEL_ERRS:
                # failure cause outside the model: both ends must still agree and nothing may have changed
                before = more[-1][2] if more else None
                bad = ends_disagree(w, snap) if snap is not None else []
                if bad:
                    p, key, q, why = bad[0]
                    ctx.violation('after a failed call on reloaded objects the two ends disagree', {'schema': w.schema, 'ops': ops, 'commit_reload_then': [o for o, _, _ in more] + [op]},
                                  observed={'p': p, 'attr': list(key), 'q': q, 'why': why, 'outcome': err}, key='reload-call-ends-disagree:' + classify(w, op, err, p, key, q, before))
                    break
                ctx.count('reload:failure-outside-model:%s:%s' % (err, 'state-unchanged' if (before is None or snap is None or norm_dump(before) == norm_dump(snap)) else 'STATE-CHANGED'))
                if before is not None and snap is not None and norm_dump(before) != norm_dump(snap): break
                continue
            more.append((op, err, snap))
        if more and ctx.driver.ok:
            base = flat(ops)
            out = ctx.driver('C12', [{'op': 'run', 'schema': w.model_schema, 'ops': base + [model_op(o) for o, _, _ in more]}])[0]
            steps = out.get('steps')
            if steps is None:
                if 'unknown property' in str(out.get('driver_error')): raise RuntimeError('the shared driver executable was replaced while running: %r' % out)
                ctx.divergence('driver error', {'schema': w.schema, 'ops': ops}, model=out)
            else:
                for j, (op, err, snap) in enumerate(more):
                    m = steps[len(base) + j]
                    hist = {'schema': w.schema, 'ops': ops, 'commit_reload_then': [o for o, _, _ in more[:j + 1]]}
                    ctx.case({'reload-op': op, 'j': j}, nontrivial=True, kind='reload-call')
                    bad = ends_disagree(w, snap) if snap is not None else []
                    if bad:
                        p, key, q, why = bad[0]
                        ctx.violation('after a call on reloaded objects the two ends disagree', hist, observed={'p': p, 'attr': list(key), 'q': q, 'why': why, 'outcome': err or 'ok'},
                                      key='reload-call-ends-disagree:' + classify(w, op, err, p, key, q, more[j - 1][2] if j else None))
                        break
                    if (m['err'] or None) != (err or None):
                        if 'RecursionError' in (m['err'], err): break
                        ctx.divergence('outcome of a call on reloaded objects differs', hist, model=m['err'], impl=err); break
                    if snap is None: break
                    md = norm_dump(m['objs']); rd = norm_dump(snap)
                    diff = [x for x in range(min(len(md), len(rd))) if md[x]['alive'] and rd[x]['alive'] and md[x] != rd[x]] + \
                           [x for x in range(min(len(md), len(rd))) if md[x]['alive'] != rd[x]['alive']]
                    if diff or len(md) != len(rd):
                        ctx.divergence('state after a call on reloaded objects differs', hist, model=md[diff[0]] if diff else len(md), impl=rd[diff[0]] if diff else len(rd)); break
        # link rows after commit: commit again and read everything in a third session
        try:
            commit()
            last = more[-1][2] if more and more[-1][2] is not None else None
            pks2 = [(o.get_pk() if w.alive(o) else None) for o in w.objs]
            objs2 = w.objs
        except Exception as e:
            ctx.count('reload:second-commit-failed:' + type(e).__name__)
            rollback()
    if last is not None:
        with db_session:
            try:
                w.objs = [None if pk is None else type(o)[pk] for o, pk in zip(objs2, pks2)]
            except core.ObjectNotFound as e:
                ctx.violation('an object that was alive when the session committed is missing from the database',
                              {'schema': w.schema, 'ops': ops, 'commit_reload_then': [o for o, _, _ in more]}, observed=str(e),
                              key='reload:live-object-missing-after-commit:' + (more[-1][0]['k'] if more else ''))
                w.objs = old_objs
                return True
            ok_objs = [o for o in w.objs if o is not None]
            got = full_read(w, only_live=True)
            for i, g in enumerate(got or []):
                if g is None or not last[i]['alive']: continue
                ctx.case({'third-session': i}, nontrivial=False, kind='reload-final')
                if norm_dump([g])[0]['refs'] != norm_dump([last[i]])[0]['refs'] or norm_dump([g])[0]['colls'] != norm_dump([last[i]])[0]['colls']:
                    ctx.violation('link rows after commit differ from the session state both ends showed', {'schema': w.schema, 'ops': ops, 'commit_reload_then': [o for o, _, _ in more]},
                                  observed=g, expected=last[i], key='committed-links-differ:' + ops[-1]['k'])
                    break
            rollback()
    w.objs = old_objs
    return True


def full_read(w, only_live=False):
    """both ends through the public API (loads everything); None if a read raises"""
    out = []
    try:
        for o in w.objs:
            if o is None:
                out.append(None); continue
            e = w.classes.index(type(o))
            if not w.alive(o):
                out.append({'ent': e, 'alive': False, 'refs': [], 'colls': []}); continue
            refs, colls = [], []
            for key in w.ent_attrs[e]:
                attr = w.attrs[key]
                if attr.is_collection: colls.append([key[0], key[1], sorted(w.idx(x) for x in getattr(o, w.names[key]).copy())])
                else:
                    v = getattr(o, w.names[key])
                    refs.append([key[0], key[1], None if v is None else w.idx(v)])
            out.append({'ent': e, 'alive': True, 'refs': refs, 'colls': colls})
    except Exception as e:
        w.read_error = '%s: %s' % (type(e).__name__, str(e)[:160])
        return None
    return out


# ---------------------------------------------------------------- directed witnesses (replayed on every run)

def S(ent, coll=False, req=False, casc=None):
    return {'ent': ent, 'coll': coll, 'req': req, 'opt_casc': casc}

W_CASCADE_REASSIGN = {   # Props/C12: C12_step_full_false_cascade
    'schema': {'nent': 2, 'rels': [{'kind': 'o2o', 'sym': False, 'a': S(0, casc=True), 'b': S(1)}]},
    'ops': [{'k': 'create', 'e': 0, 'vals': []}, {'k': 'create', 'e': 1, 'vals': []}, {'k': 'create', 'e': 1, 'vals': []},
            {'k': 'setRef', 'o': 0, 'a': [0, False], 'v': 1}, {'k': 'setRef', 'o': 0, 'a': [0, False], 'v': 2}]}
W_SELF_LINK = {          # Props/C12: C12_step_full_false_selflink
    'schema': {'nent': 1, 'rels': [{'kind': 'sym1', 'sym': True, 'a': S(0)}]},
    'ops': [{'k': 'create', 'e': 0, 'vals': []}, {'k': 'create', 'e': 0, 'vals': []},
            {'k': 'setRef', 'o': 0, 'a': [0, False], 'v': 0}, {'k': 'setRef', 'o': 0, 'a': [0, False], 'v': 1}]}
R_REFUSED_DELETE = {     # repaired in /repo (fix: a refused delete emptied the object's many-to-many collections): regression input
    'schema': {'nent': 3, 'rels': [{'kind': 'm2m', 'sym': False, 'a': S(0, coll=True), 'b': S(1, coll=True)},
                                   {'kind': 'm2o', 'sym': False, 'a': S(0, coll=True, casc=False), 'b': S(2, req=True)}]},
    'ops': [{'k': 'create', 'e': 0, 'vals': []}, {'k': 'create', 'e': 1, 'vals': [[[0, True], {'coll': [0]}]]},
            {'k': 'create', 'e': 2, 'vals': [[[1, True], {'ref': 0}]]}, {'k': 'delete', 'o': 0}]}
WITNESSES = []   # (name, history, key) of `_full_false` theorems — none at present: all three defects found by this check were repaired in /repo
W_IS_EMPTY = {           # repaired (fix: is_empty() on a symmetric many-to-many loaded the object itself): exercised by reload_regression
    'schema': {'nent': 1, 'rels': [{'kind': 'symm', 'sym': True, 'a': S(0, coll=True)}]},
    'ops': [{'k': 'create', 'e': 0, 'vals': []}, {'k': 'create', 'e': 0, 'vals': [[[0, False], {'coll': [0]}]]}]}
REGRESSIONS = [('refused-delete', R_REFUSED_DELETE), ('cascade-reassign', W_CASCADE_REASSIGN), ('self-link', W_SELF_LINK)]


def reload_regression(ctx):
    """symmetric many-to-many: is_empty() in a fresh session must not make the object a member of its own collection"""
    wi = W_IS_EMPTY
    w = World(wi['schema'])
    with db_session:
        for op in wi['ops']: w.apply(op)
        commit()
        pks = [o.id for o in w.objs]
    with db_session:
        b = w.classes[0][pks[1]]
        name = w.names[(0, False)]
        empty = getattr(b, name).is_empty()
        inside = b in getattr(b, name)
        try: content = sorted(x.id for x in getattr(b, name).copy())
        except Exception as e: content = type(e).__name__
        ctx.case({'regression': 'symmetric-is-empty'}, kind='regression')
        if empty or inside or content != [pks[0]]:
            ctx.violation('is_empty() on a symmetric many-to-many loads the object itself into its own collection',
                          {'schema': wi['schema'], 'ops': wi['ops'], 'reads': [[1, [0, False], 'is_empty']]},
                          observed={'is_empty': empty, 'self in collection': inside, 'copy': content}, expected={'is_empty': False, 'self in collection': False, 'copy': [pks[0]]},
                          key='reload:loaded-item-not-in-committed-state:symm')
    w.db.disconnect()


W_SYMM_SELF = {          # p.friends.add(p); p.friends.clear(); p.friends += [p]  -> the session shows {p}, the link row is never inserted
    'schema': {'nent': 1, 'rels': [{'kind': 'symm', 'sym': True, 'a': S(0, coll=True)}]},
    'ops': [{'k': 'create', 'e': 0, 'vals': []}, {'k': 'add', 'o': 0, 'a': [0, False], 'items': [0], 'via': 'list'},
            {'k': 'clear', 'o': 0, 'a': [0, False]}, {'k': 'add', 'o': 0, 'a': [0, False], 'items': [0], 'via': 'iadd'}]}


def committed_links_witness(ctx):
    """link rows after commit for the minimal history of the finding committed-links-differ:symmetric-many-to-many-self-membership"""
    wi = W_SYMM_SELF
    w = World(wi['schema'])
    with db_session:
        for op in wi['ops']: w.apply(op)
        before = sorted(w.idx(x) for x in w.objs[0]._vals_[w.attrs[(0, False)]])
        commit()
        pk = w.objs[0].get_pk()
    with db_session:
        after = sorted(0 for x in getattr(w.classes[0][pk], w.names[(0, False)]).copy())
        rollback()
    w.db.disconnect()
    ctx.case({'witness': 'symmetric-self-membership'}, kind='witness')
    if before != after:
        ctx.violation('the link rows after commit differ from what both ends showed in the committing session',
                      {'schema': wi['schema'], 'ops': wi['ops']}, observed=after, expected=before,
                      key='committed-links-differ:symmetric-many-to-many-self-membership')


def witnesses(ctx):
    """witnesses of `_full_false` theorems (none now) and repaired defects as regression inputs, replayed on the real code on every run"""
    for name, wi, key in WITNESSES:
        v = first_violation(wi['schema'], wi['ops'])
        ctx.case({'witness': name}, nontrivial=True, kind='witness')
        if v is None:
            ctx.note('witness %s: the real code no longer shows the disagreement' % name)
            ctx.count('witness-not-reproduced:' + name)
        else:
            ctx.count('witness-reproduced:' + name)
            report_violation(ctx, wi['schema'], wi['ops'], v[0], v[1], v[2])
    for name, wi in REGRESSIONS:
        v = first_violation(wi['schema'], wi['ops'])
        ctx.case({'regression': name}, nontrivial=True, kind='regression')
        if v is not None: report_violation(ctx, wi['schema'], wi['ops'], v[0], v[1], v[2])
    reload_regression(ctx)
    committed_links_witness(ctx)
    if ctx.driver.ok:
        for name, wi in REGRESSIONS:
            w = World(wi['schema'])
            out = ctx.driver('C12', [{'op': 'run', 'schema': w.model_schema, 'ops': [model_op(o) for o in wi['ops']]}])[0]
            real = run_history(wi['schema'], wi['ops'])[1]
            w.db.disconnect()
            steps = out.get('steps', [])
            ctx.extra.setdefault('regression_model_inv_after_each_call', {})[name] = [st['inv'] for st in steps]
            for i, (st, (err, snap)) in enumerate(zip(steps, real)):
                if (st['err'] or None) != (err or None) or norm_dump(st['objs']) != norm_dump(snap):
                    ctx.divergence('model and real code differ on a regression input', {'schema': wi['schema'], 'ops': wi['ops'][:i + 1]},
                                   model=[st['err'], st['objs']], impl=[err, snap]); break


def check_fixed(ctx, schema, ops, kind):
    """a fixed history: oracle after every call on the real objects + correspondence with the model (failure causes outside the model are skipped there)"""
    w = World(schema)
    real = []
    found = None; stop = False
    with db_session:
        prev = []
        for i, op in enumerate(ops):
            if i >= len(ops): break
            err = w.apply(op)
            snap = w.snapshot()
            ctx.case({'schema': w.model_schema, 'op': op, 'i': i, 'directed': kind}, nontrivial=True, kind='directed-call')
            ctx.count('directed:%s:%s:%s' % (kind, op['k'], err or 'ok'))
            zs = untracked_one_sided(w)
            if zs:
                ctx.violation('the session holds an object no call returned (left by a failed call) whose relationship value does not know it',
                              {'schema': schema, 'ops': ops[:i + 1]}, observed=zs[0], key='untracked-object-one-sided:%s/%s' % (op['k'], err or 'ok'))
                stop = True; break
            dg = dangling(w, snap) if 'dead' not in kind else []
            if dg:
                ctx.violation('a live object references a deleted object although no deleted object was passed to any call',
                              {'schema': schema, 'ops': ops[:i + 1]}, observed=list(dg[0]), key=dangling_key(w, op, err, dg[0]))
                stop = True; break
            bad = ends_disagree(w, snap)
            if bad:
                p, key, q, why = bad[0]
                found = (i, classify(w, op, err, p, key, q, prev), {'p': p, 'attr': list(key), 'q': q, 'why': why, 'outcome': err or 'ok'})
                stop = True; break
            skip = err is not None and (err not in MODEL_ERRS or op['k'] == 'setMany')
            if err is not None and op['k'] == 'create': ops = ops[:i + 1]          # later calls would refer to the object that was not created
            if skip and norm_dump(snap) != norm_dump(prev):
                ctx.count('failure-outside-model:%s:STATE-CHANGED' % err); stop = True; break
            real.append((err, snap, skip)); prev = snap
        rollback()
    w.db.disconnect()
    if found is not None:
        report_violation(ctx, schema, ops[:found[0] + 1], found[0], found[1], found[2])
    if stop or not ctx.driver.ok: return
    FIXED_BATCH.append((schema, w.model_schema, list(ops), real))


FIXED_BATCH = []


def flush_fixed(ctx):
    """one driver call for all fixed / directed histories collected so far"""
    global FIXED_BATCH
    batch, FIXED_BATCH = FIXED_BATCH, []
    if not batch or not ctx.driver.ok: return
    outs = ctx.driver('C12', [{'op': 'run', 'schema': ms, 'ops': [m for o, r in zip(ops, real) if not r[2] for m in expand(o)]} for _, ms, ops, real in batch])
    for (schema, ms, ops, real), out in zip(batch, outs):
        steps = out.get('steps')
        if steps is None:
            if 'unknown property' in str(out.get('driver_error')): raise RuntimeError('driver: %r' % out)
            ctx.divergence('driver error', {'schema': schema, 'ops': ops}, model=out); continue
        k = -1
        for i, (err, snap, skip) in enumerate(real):
            if skip: continue
            n_ex = len(expand(ops[i]))
            if n_ex == 0: continue
            k += n_ex
            m = steps[k]
            if (m['err'] or None) != (err or None) or [o for o in norm_dump(m['objs']) if o['alive']] != [o for o in norm_dump(snap) if o['alive']]:
                ctx.divergence('model and real code differ on a directed history', {'schema': schema, 'ops': ops[:i + 1]}, model=[m['err'], m['objs']], impl=[err, snap]); break


def directed_phase(ctx, rng, n):
    """multi-item calls on a one-to-many collection in which an EARLIER item succeeds and a LATER item fails
    (key clash between the items, deleted item): after the failed call both ends must agree (and nothing may have changed)"""
    for _ in range(n):
        ref_first = rng.random() < 0.5
        sides = [S(1, req=False), S(0, coll=True, casc=rng.choice([None, None, False]))]
        rel = {'kind': 'm2o', 'sym': False, 'a': sides[0] if ref_first else sides[1], 'b': sides[1] if ref_first else sides[0], 'ckey': True}
        refkey = [0, not ref_first]; collkey = [0, ref_first]
        extra = gen_schema(rng)['rels'][:rng.choice([0, 0, 1])]
        for r in extra:
            r['a']['ent'] = min(r['a']['ent'], 1)
            if 'b' in r: r['b']['ent'] = min(r['b']['ent'], 1)
            if r.get('kind') == 'o2o' or r.get('kind') == 'm2o':
                for sd in ('a', 'b'): r[sd]['req'] = False
                r.pop('pk', None)
        schema = {'nent': 2, 'rels': [rel] + extra}
        nown = rng.choice([1, 2])
        ops = [{'k': 'create', 'e': 0, 'vals': [], 'tag': 0} for _ in range(nown)]
        items = []
        for j in range(rng.choice([2, 3, 4])):
            owner = rng.choice([None, None] + list(range(nown))[1:])           # some items start in another owner's collection
            tag = rng.choice([0, 0, 1])
            ops.append({'k': 'create', 'e': 1, 'vals': [[refkey, {'ref': owner}]] if owner is not None else [], 'tag': tag})
            items.append(nown + j)
        how = rng.choice(['add', 'add', 'setColl', 'create', 'dead-item'])
        if how == 'dead-item':
            ops.append({'k': 'delete', 'o': rng.choice(items)})
            ops.append({'k': rng.choice(['add', 'setColl']), 'o': 0, 'a': collkey, 'items': sorted(items), 'via': 'list'})
        elif how == 'create':
            ops.append({'k': 'create', 'e': 0, 'vals': [[collkey, {'coll': sorted(items)}]], 'tag': 0})
        else:
            ops.append({'k': how, 'o': 0, 'a': collkey, 'items': sorted(items), 'via': 'list'})
        ops.append({'k': 'add', 'o': 0, 'a': collkey, 'items': [items[0]], 'via': 'single'})      # the session stays usable
        try:
            check_fixed(ctx, schema, ops, how)
        except core.ERDiagramError:
            ctx.count('schema-rejected:directed')


def directed_pk_phase(ctx, rng, n):
    """constructor calls that fail while the relationship attribute that is part of the primary key is linked
    (partner's required reference cannot be unlinked / deleted target / wrong order of values)"""
    for _ in range(n):
        casc = rng.choice([None, None, True])
        if rng.random() < 0.6:
            rel = {'kind': 'o2o', 'sym': False, 'a': S(0, req=True), 'b': S(1, casc=casc), 'pk': True}
        else:
            rel = {'kind': 'm2o', 'sym': False, 'a': S(0, req=True), 'b': S(1, coll=True, casc=rng.choice([None, False])), 'pk': True}
        extra = [{'kind': 'm2m', 'sym': False, 'a': S(0, coll=True), 'b': S(1, coll=True)}] if rng.random() < 0.5 else []
        schema = {'nent': 2, 'rels': [rel] + extra}
        ops = [{'k': 'create', 'e': 1, 'vals': [], 'tag': 0}, {'k': 'create', 'e': 1, 'vals': [], 'tag': 0}]
        def mk(target, tag):
            vals = [[[0, False], {'ref': target}]]
            if extra and rng.random() < 0.5: vals.append([[1, False], {'coll': [rng.choice([0, 1])]}])
            return {'k': 'create', 'e': 0, 'vals': vals, 'tag': tag}
        ops.append(mk(0, 0))
        how = rng.choice(['steal', 'steal', 'dead-target', 'same-key'])
        if how == 'steal': ops.append(mk(0, 1))                      # the partner's Required reference cannot be unlinked (one-to-one)
        elif how == 'same-key': ops.append(mk(0, 0))
        else:
            ops.append({'k': 'delete', 'o': 1}); ops.append(mk(1, 0))
        ops.append(mk(1, 1) if how != 'dead-target' else mk(0, 1))
        ops.append({'k': 'delete', 'o': 0})
        check_fixed(ctx, schema, ops, 'pk-' + how)


def directed_cascade_phase(ctx, rng, n):
    """collection assignment / remove on a cascade collection whose items are linked among each other by another cascade
    relation: the cascade of a removed item may delete an item that was to stay"""
    for _ in range(n):
        schema = {'nent': 2, 'rels': [
            {'kind': 'm2o', 'sym': False, 'a': S(0, coll=True, casc=True), 'b': S(1)},
            {'kind': 'm2o', 'sym': False, 'a': S(1, coll=True, casc=rng.choice([True, True, None])), 'b': S(1)}]}
        k = rng.choice([2, 3, 4])
        ops = [{'k': 'create', 'e': 0, 'vals': [], 'tag': 0}]
        for j in range(k):
            vals = [[[0, True], {'ref': 0}]]
            if j and rng.random() < 0.7: vals.append([[1, True], {'ref': rng.randrange(1, j + 1)}])
            ops.append({'k': 'create', 'e': 1, 'vals': vals, 'tag': j})
        keep = sorted(rng.sample(range(1, k + 1), rng.randrange(0, k)))
        how = rng.choice(['setColl', 'setColl', 'remove', 'setMany'])
        if how == 'setColl': ops.append({'k': 'setColl', 'o': 0, 'a': [0, False], 'items': keep})
        elif how == 'remove': ops.append({'k': 'remove', 'o': 0, 'a': [0, False], 'items': [x for x in range(1, k + 1) if x not in keep], 'via': 'list'})
        else: ops.append({'k': 'setMany', 'o': 0, 'refs': [], 'colls': [[[0, False], keep]]})
        ops.append({'k': 'add', 'o': 0, 'a': [0, False], 'items': [], 'via': 'list'})
        check_fixed(ctx, schema, ops, 'cascade-' + how)


class LazyObjs:
    """objects of a fresh session fetched by primary key only when a call names them (so that partner rows stay out of the session)"""
    def __init__(self, w, classes, pks):
        self.w, self.classes, self.pks = w, classes, pks
        self.cache = {}
    def __len__(self): return len(self.pks)
    def __getitem__(self, i):
        if i not in self.cache:
            self.cache[i] = None if self.pks[i] is None else self.classes[i][self.pks[i]]
        return self.cache[i]
    def __iter__(self):
        return (self[i] for i in range(len(self.pks)))
    def append(self, o):
        self.pks.append(('new', len(self.pks))); self.classes.append(type(o)); self.cache[len(self.pks) - 1] = o


def directed_reload_set_phase(ctx, rng, n):
    for _ in range(n):
        w = _reload_set_case(ctx, rng)
        if w is not None: w.db.disconnect()


def _reload_set_case(ctx, rng):
    """a one-to-one changed in a FRESH session from either side while the current partner row is not in the session
    (object fetched on its own), through obj.set(attr=v) or obj.attr = v; both ends are then read through the public API
    in the same session, and again in a third session after commit (link rows); the expected state is the model's"""
    if True:
        breq = rng.random() < 0.3
        schema = {'nent': 2, 'rels': [{'kind': 'o2o', 'sym': False, 'a': S(0), 'b': S(1, req=breq)}]}
        if rng.random() < 0.4:
            schema['rels'].append({'kind': 'm2o', 'sym': False, 'a': S(0, coll=True, casc=False), 'b': S(1)})
        w = World(schema)
        k = rng.choice([2, 3])
        ops = [{'k': 'create', 'e': 0, 'vals': [], 'tag': 0} for _ in range(k + 1)]                    # E0: 0..k
        for i in range(k):                                                                             # E1: k+1..2k, partner i
            ops.append({'k': 'create', 'e': 1, 'vals': [[[0, True], {'ref': i}]], 'tag': 0})
        if not breq: ops.append({'k': 'create', 'e': 1, 'vals': [], 'tag': 1})                          # an E1 without partner
        with db_session:
            errs = [w.apply(op) for op in ops]
            if any(errs):
                rollback(); return w
            commit()
            pks = [o.get_pk() for o in w.objs]
            classes = [type(o) for o in w.objs]
        side = rng.choice([False, True])                      # which end the call is made on (one of them has no column)
        colless = not w.attrs[(0, side)].columns
        key = [0, side]
        if not side:
            o = rng.randrange(0, k)                                            # an E0 with a partner
            cands = [x for x in range(k + 1, len(pks))]
            cur = k + 1 + o
        else:
            o = rng.randrange(k + 1, 2 * k + 1)                                # an E1 with a partner
            cands = list(range(0, k + 1))
            cur = o - (k + 1)
        v = rng.choice([x for x in cands if x != cur] + ([None] if not (side and breq) else []))
        via = rng.choice(['set', 'set', 'assign'])
        op = {'k': 'setMany', 'o': o, 'refs': [[key, v]], 'colls': [], 'refs_eff': [[key, v]]} if via == 'set' else {'k': 'setRef', 'o': o, 'a': key, 'v': v}
        hist = {'schema': schema, 'ops': ops, 'commit_reload_then': [op], 'fetched_alone': True}
        ctx.case({'reload-set': via, 'side': side, 'colless': colless, 'v': v is not None}, nontrivial=True, kind='reload-set')
        ctx.count('reload-set:%s:%s' % (via, 'column-less-side' if colless else 'column-side'))
        snap = None
        with db_session:
            w.objs = LazyObjs(w, classes, list(pks))
            err = w.apply(op)                                  # only the target and the value are in the session
            snap = full_read(w)
            if snap is None:
                why = getattr(w, 'read_error', 'unknown')
                ctx.violation('after the call on a freshly fetched object reading both ends in the same session raises',
                              hist, observed={'outcome': err or 'ok', 'read': why[:200]}, key='reload-set:read-raises:%s/%s' % (via, 'column-less-side' if colless else 'column-side'))
                rollback(); return w
            bad = ends_disagree(w, snap)
            if bad:
                p, kq, q, why = bad[0]
                ctx.violation('after a call on a freshly fetched object the two ends disagree', hist,
                              observed={'p': p, 'attr': list(kq), 'q': q, 'why': why, 'outcome': err or 'ok'},
                              key='reload-set:ends-disagree:%s/%s' % (via, 'column-less-side' if colless else 'column-side'))
                rollback(); return w
            try:
                commit(); committed = True
            except Exception as e:
                ctx.count('reload-set:commit-failed:' + type(e).__name__); rollback(); committed = False
            pks2 = [(x.get_pk() if x is not None and w.alive(x) else None) for x in w.objs]
        # the model: the same history followed by the single assignment
        if ctx.driver.ok and err in MODEL_ERRS | {None}:
            out = ctx.driver('C12', [{'op': 'run', 'schema': w.model_schema, 'ops': [model_op(x) for x in ops] + [{'k': 'setRef', 'o': o, 'a': key, 'v': v}]}])[0]
            m = out['steps'][-1]
            md = [x for x in norm_dump(m['objs']) if x['alive']]; rd = [x for x in norm_dump(snap) if x and x['alive']]
            if (m['err'] or None) != (err or None) or md != rd:
                ctx.divergence('state after a call on a freshly fetched object differs from the model', hist, model=[m['err'], md], impl=[err, rd])
        if committed:
            with db_session:
                w.objs = LazyObjs(w, classes + [None] * 0, list(pks2))
                got = full_read(w)
                if got is None or [x for x in norm_dump(got) if x['alive']] != [x for x in norm_dump(snap) if x['alive']]:
                    why = getattr(w, 'read_error', None) if got is None else None
                    ctx.violation('link rows after commit differ from what both ends showed in the session (or cannot be read back)', hist,
                                  observed=why or got, expected=snap, key='reload-set:committed-links-differ:%s/%s' % (via, 'column-less-side' if colless else 'column-side'))
                rollback()
        return w


def directed_membership_phase(ctx, rng, n):
    """membership tests (`x in obj.coll`) as an observation of both ends on PARTIALLY loaded collections: objects fetched in a
    fresh session, collections never read as a whole, `in` interleaved with add / remove / assignment / constructor calls from
    either end; after every call `q in p.coll` must equal `p in q.reverse` (resp. `q.ref is p`) and the model's answer; at the
    end iteration must agree as well"""
    reqs, cases = [], []
    for _ in range(n):
        kind = rng.choice(['m2m', 'm2m', 'symm', 'm2o', 'm2o'])
        if kind == 'm2m': rel = {'kind': 'm2m', 'sym': False, 'a': S(0, coll=True), 'b': S(1, coll=True)}
        elif kind == 'symm': rel = {'kind': 'symm', 'sym': True, 'a': S(0, coll=True)}
        else:
            rel = {'kind': 'm2o', 'sym': False, 'a': S(0, coll=True, casc=False), 'b': S(1)}
            if rng.random() < 0.6: rel['b']['lazy'] = True      # the reference is lazy: a fresh session has not read it
        schema = {'nent': 1 if kind == 'symm' else 2, 'rels': [rel]}
        e1 = 0 if kind == 'symm' else 1
        w = World(schema)
        na, nb = rng.choice([2, 3]), rng.choice([2, 3, 4] if kind == 'm2o' else [2, 3])
        ops = [{'k': 'create', 'e': 0, 'vals': [], 'tag': 0} for _ in range(na)] + [{'k': 'create', 'e': e1, 'vals': [], 'tag': 0} for _ in range(nb)]
        A, B = list(range(na)), list(range(na, na + nb))
        for _ in range(rng.choice([0, 1, 2, 3] if kind != 'm2o' else [2, 3, 4, 5])):
            ops.append({'k': 'add', 'o': rng.choice(A), 'a': [0, False], 'items': [rng.choice(B)], 'via': 'single'})
        with db_session:
            errs = [w.apply(op) for op in ops]
            ok = not any(errs)
            if ok:
                commit()
                pks = [o.get_pk() for o in w.objs]; classes = [type(o) for o in w.objs]
            else: rollback()
        if not ok:
            w.db.disconnect(); continue
        obs = []          # (number of calls made so far, p, key, q, answer of `q in p.key` / `p.key is q`)
        more = []
        hist = {'schema': schema, 'ops': ops, 'commit_reload_then': more, 'observations': 'membership tests only'}
        rkey = (0, False) if kind == 'symm' else (0, True)
        def member(p, key, q):
            x, y = w.objs[p], w.objs[q]
            attr = w.attrs[key]
            if attr.is_collection: return y in getattr(x, w.names[key])
            return getattr(x, w.names[key]) is y
        def both(pa, pb, why):
            """one pair observed from both ends"""
            r1 = member(pa, (0, False), pb); r2 = member(pb, rkey, pa)
            obs.append((len(more), pa, [0, False], pb, r1)); obs.append((len(more), pb, list(rkey), pa, r2))
            ctx.case({'membership': why, 'kind': kind, 'after': len(more)}, nontrivial=False, kind='membership-pair')
            if r1 != r2:
                ctx.violation('membership tests on partially loaded collections: the two ends disagree', dict(hist, commit_reload_then=list(more)),
                              observed={'a': pa, 'b': pb, 'b in a.coll': r1, 'a in b.reverse': r2, 'after': why}, key='in-disagrees:%s' % kind)
                return False
            return True
        good = True
        with db_session:
            w.objs = LazyObjs(w, classes, list(pks))
            try:
                if rng.random() < 0.6:
                    for _x in w.objs: pass        # all objects are in the session before anything is read (their collections / lazy references are not)
                    ctx.count('membership:all-objects-fetched-first')
                if kind == 'm2o' and rng.random() < 0.6:
                    # a reference reassigned BEFORE it was ever read in this session (it may be lazy), while the old owner's collection
                    # is partially known (the reference of a sibling was read); then a call on the old owner's collection
                    owner = {}
                    for x in ops:
                        if x['k'] == 'add': owner[x['items'][0]] = x['o']
                    sib = [(i1, i2) for i1 in B for i2 in B if i1 != i2 and owner.get(i1) is not None and owner.get(i1) == owner.get(i2)]
                    if sib:
                        i1, i2 = rng.choice(sib); o1 = owner[i1]
                        o2 = rng.choice([x for x in A if x != o1])
                        v = getattr(w.objs[i2], w.names[rkey])
                        obs.append((0, i2, list(rkey), -1 if v is None else w.idx(v), True))
                        seq = [{'k': 'setRef', 'o': i1, 'a': list(rkey), 'v': rng.choice([o2, o2, None])}]
                        free = [x for x in B if owner.get(x) != o1]
                        # add() of an item whose own reference is unread makes the collection load itself completely inside the call
                        addop = {'k': 'add', 'o': o1, 'a': [0, False], 'items': [rng.choice(free)] if free else [], 'via': rng.choice(['single', 'list', 'iadd'])}
                        seq.append(rng.choice([addop, addop, addop, {'k': 'remove', 'o': o1, 'a': [0, False], 'items': [i2], 'via': 'single'},
                                               {'k': 'create', 'e': e1, 'vals': [[list(rkey), {'ref': o1}]], 'tag': 0}]))
                        for op in seq:
                            err = w.apply(op)
                            ctx.count('membership:%s:unread-reassign:%s:%s' % (kind + ('+lazy' if rel['b'].get('lazy') else ''), op['k'], err or 'ok'))
                            if err is not None:
                                ctx.divergence('a call of the membership phase failed', dict(hist, commit_reload_then=list(more) + [op]), impl=err); good = False; break
                            more.append(op)
                            if op['k'] == 'create': B.append(len(w.objs) - 1)
                        if good:
                            n1 = len(getattr(w.objs[o1], w.names[(0, False)]))          # len() as an observation of the old owner's end
                            obs.append((len(more), o1, [0, False], -2, n1))
                            good = both(o1, i1, 'unread reassign') and both(o2, i1, 'unread reassign')
                            if good:      # iteration over the old owner's collection against the references of its members
                                for y in getattr(w.objs[o1], w.names[(0, False)]).copy():
                                    if getattr(y, w.names[rkey]) is not w.objs[o1]:
                                        ctx.violation('an item sits in the collection of an owner it does not reference (reference reassigned before it was read in this session)',
                                                      dict(hist, commit_reload_then=list(more)), observed={'owner': o1, 'item': w.idx(y), 'item.ref': w.idx(getattr(y, w.names[rkey])) if getattr(y, w.names[rkey]) is not None else None},
                                                      key='unread-reference-reassigned:item-in-two-collections:%s' % ('lazy' if rel['b'].get('lazy') else 'eager'))
                                        good = False; break
                for step in (range(rng.choice([3, 5, 7])) if good else []):
                    pa, pb = rng.choice(A), rng.choice(B)
                    if kind == 'm2o' and rng.random() < 0.5:
                        po = rng.choice([x for x in B if x != pb] or B)
                        v = getattr(w.objs[po], w.names[rkey])               # reads one reference: its owner's collection becomes partially known
                        obs.append((len(more), po, list(rkey), -1 if v is None else w.idx(v), True))
                    elif rng.random() < 0.6:
                        if rng.random() < 0.5: obs.append((len(more), pa, [0, False], pb, member(pa, (0, False), pb)))      # one end only: may record `absent`
                        elif not both(pa, pb, 'probe'): good = False; break
                    r = rng.random()
                    if r < 0.3: op = {'k': 'add', 'o': pa, 'a': [0, False], 'items': [pb], 'via': rng.choice(['single', 'list', 'iadd'])}
                    elif r < 0.55:
                        if w.side(rkey)['coll']: op = {'k': 'add', 'o': pb, 'a': list(rkey), 'items': [pa], 'via': 'single'}
                        else: op = {'k': 'setRef', 'o': pb, 'a': list(rkey), 'v': pa}
                    elif r < 0.7: op = {'k': 'remove', 'o': pa, 'a': [0, False], 'items': [pb], 'via': 'single'}
                    elif r < 0.8:
                        if w.side(rkey)['coll']: op = {'k': 'remove', 'o': pb, 'a': list(rkey), 'items': [pa], 'via': 'single'}
                        else: op = {'k': 'setRef', 'o': pb, 'a': list(rkey), 'v': None}
                    elif r < 0.9:
                        if w.side(rkey)['coll']: op = {'k': 'create', 'e': e1, 'vals': [[list(rkey), {'coll': [pa]}]], 'tag': 0}
                        else: op = {'k': 'create', 'e': e1, 'vals': [[list(rkey), {'ref': pa}]], 'tag': 0}
                    else: op = {'k': 'setColl', 'o': pa, 'a': [0, False], 'items': sorted(rng.sample(B, rng.choice([0, 1, 2])))}
                    err = w.apply(op)
                    ctx.count('membership:%s:%s:%s' % (kind, op['k'], err or 'ok'))
                    if err is not None:
                        ctx.divergence('a call of the membership phase failed', dict(hist, commit_reload_then=list(more) + [op]), impl=err); good = False; break
                    more.append(op)
                    if op['k'] == 'create': B.append(len(w.objs) - 1); pb = B[-1]
                    if not both(pa, pb, op['k']): good = False; break
                    if rng.random() < 0.5 and not both(rng.choice(A), rng.choice(B), 'other pair after ' + op['k']): good = False; break
                snap = full_read(w) if good else None          # iteration at the very end
            except Exception as e:
                ctx.divergence('the membership phase raised', dict(hist, commit_reload_then=list(more)), impl='%s: %s' % (type(e).__name__, e)); good = False; snap = None
            rollback()
        w.db.disconnect()
        if not good: continue
        if snap is None:
            ctx.violation('reading the collections as a whole after the membership tests raises', dict(hist, commit_reload_then=list(more)),
                          observed=getattr(w, 'read_error', None), key='in-then-iteration-raises:%s' % kind); continue
        bad = ends_disagree(w, snap)
        if bad:
            p_, kq, q_, why = bad[0]
            ctx.violation('after membership tests and calls on partially loaded collections the two ends disagree under iteration', dict(hist, commit_reload_then=list(more)),
                          observed={'p': p_, 'attr': list(kq), 'q': q_, 'why': why}, key='in-then-iteration-disagrees:%s' % kind); continue
        reqs.append({'op': 'run', 'schema': w.model_schema, 'ops': [model_op(x) for x in ops] + [model_op(x) for x in more]})
        cases.append((hist, len(ops), list(more), obs, snap))
    if not reqs or not ctx.driver.ok: return
    for out, (hist, base, more, obs, snap) in zip(ctx.driver('C12', reqs), cases):
        steps = out.get('steps')
        if steps is None:
            ctx.divergence('driver error', hist, model=out); continue
        for (k, p_, key, q_, ans) in obs:
            objs = steps[base + k - 1]['objs']
            hv = held(norm_dump(objs)[p_], (key[0], bool(key[1])))
            exp = len(hv) if q_ == -2 else ((hv == []) if q_ < 0 else (q_ in hv))
            if exp != ans:
                ctx.violation('a membership test / len() / reference read on partially loaded data gives the wrong answer', dict(hist, commit_reload_then=more[:k]),
                              observed={'p': p_, 'attr': key, 'q': q_, 'in': ans}, expected=exp, key='in-wrong:%s' % hist['schema']['rels'][0]['kind']); break
        else:
            md = [x for x in norm_dump(steps[-1]['objs']) if x['alive']]; rd = [x for x in norm_dump(snap) if x['alive']]
            if md != rd: ctx.divergence('state after the membership phase differs from the model', hist, model=md, impl=rd)


def run(ctx):
    witnesses(ctx)
    rng = ctx.rng
    corpus = os.path.join(os.path.dirname(os.path.dirname(os.path.abspath(__file__))), 'corpus', 'C12')
    for f in sorted(os.listdir(corpus)) if os.path.isdir(corpus) else []:
        if f.endswith('.json'):
            c = json.load(open(os.path.join(corpus, f)))
            check_fixed(ctx, c['schema'], c['ops'], 'corpus:' + f[:-5])
    directed_phase(ctx, rng, ctx.scale(60, 200))
    directed_pk_phase(ctx, rng, ctx.scale(30, 100))
    directed_cascade_phase(ctx, rng, ctx.scale(30, 100))
    directed_reload_set_phase(ctx, rng, ctx.scale(40, 150))
    directed_membership_phase(ctx, rng, ctx.scale(60, 250))
    flush_fixed(ctx)
    memory_phase(ctx, rng, ctx.scale(140, 1000), ctx.scale(14, 22))


def replay(ctx, data):
    inp = data.get('input') or {}
    if 'schema' in inp and 'ops' in inp and 'commit_reload_then' not in inp:
        v = first_violation(inp['schema'], inp['ops'])
        ctx.case({'replay': True}, kind='replay')
        if v is not None:
            report_violation(ctx, inp['schema'], inp['ops'], v[0], v[1], v[2])
    else:
        run(ctx)
