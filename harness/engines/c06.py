"""C06 — values reach the database unchanged: parameters, literals and identifiers.

Tie (model <-> code, every run):
  * Gen.quoteStr (regenerated from Value.quote_str) and the List-Char mirror quoteStrL vs the real quote_str of every Value class,
    adversarial strings x five paramstyles; Value.__str__ for None/bool/int/str/bytes vs valueStr; MOD symbol;
  * quoteNameL / quoteNamesL vs the real DBAPIProvider.quote_name for both quote characters;
  * likeAst vs the AST the real StringMixin._like produces (constant path and expression path) inside real queries translated for
    SQLite and - offline, through driver stubs + TestDatabase - PostgreSQL, MySQL, Oracle;
  * placeholders/adapter/layout vs real SQLBuilder.__init__ / Param.__str__ for all five paramstyles and five builder classes;
  * the database-side models vs a real database: lexQuoted vs SQLite's lexer (literal and identifier echo), likeMatch vs SQLite LIKE,
    sqlReplace vs SQLite replace() and str.replace, scanP vs Python's % operator, lexBlob vs SQLite.
Property oracle (real code, every run):
  * every literal Pony renders (all styles, all Value classes; after the DB-API % expansion computed by Python's % operator) is echoed by
    real SQLite (`SELECT <literal>`) and must come back as the original value;
  * identifiers: `SELECT 1 AS <quote_name(n)>`, qualified names, and whole entities with adversarial table/column names on real SQLite;
  * whole statements built by the real builders (placeholders with repeats + literals + MOD) executed on real SQLite after lowering the
    paramstyle the way a DB-API driver would: every selected item must come back as the value supplied for it;
  * real queries `x in e.name`, `e.name.startswith(x)`, `e.name.endswith(x)`, `x not in e.name` on real SQLite with adversarial x as
    constant, as parameter and as column, compared with Python.
Suspected defects that cannot be shown against a real backend here (no MySQL/PostgreSQL server) are evaluated on the Lean dialect model
over the REAL emitted text, counted under `suspected:*`, and never reported as violations.
"""
import itertools, json, sqlite3, warnings
from datetime import date, datetime, time, timedelta
from decimal import Decimal
import ponyutil
ponyutil.add_stubs()
from pony.orm import Database, Required, Optional, PrimaryKey, Set, Json, db_session, select, group_concat
from pony.orm.sqlbuilding import Value, SQLBuilder, Param
from pony.orm.dbapiprovider import DBAPIProvider
from pony.orm.dbproviders.sqlite import SQLiteValue, SQLiteBuilder

STYLES = ['qmark', 'format', 'numeric', 'named', 'pyformat']
PERCENT = ('format', 'pyformat')
META = ["'", '"', '\\', '%', '_', '!', '$']
SPECIAL = ['', "'", "''", "'''", '"', '`', '``', '\\', '\\\\', "\\'", "\\' OR 1=1 -- ", "a\\b", 'a\\', '%', '%%', '%s', '%(p1)s', '%d', '%(', '%)s',
           '100%', '_', '__', '!', '!!', '!%', '!_', '%!', '_!', '?', '??', ':1', ':p1', '$1', '@x', ';', '--', '/*', '*/', 'a b', ' ', '\n', '\t', '\r\n',
           "it's", 'O\'Reilly "x"', 'é', 'ß', '́a', '‮abc', '\U0001F600', 'a\U0001F600\'%_!', '中文%', 'A', 'a', 'aA', 'null', 'NULL', "x'00'", "X'", '0',
           '50%_off!', 'a!b', 'a%b', 'a_b', 'ab', 'abc', 'b', 'ba', '\x01', '\x7f', '\x1a', '\x08']
ALPHABET = ['a', 'b', 'A', "'", '"', '\\', '%', '_', '!', '$', '`', '?', ':', 's', '(', ')', 'p', '1', ' ', 'é', '\U0001F600', '\n']


def adversarial_strings(ctx):
    rng = ctx.rng
    out = list(SPECIAL)
    for r in range(len(META) + 1):
        for sub in itertools.combinations(META, r):
            out.append(''.join(sub))
            chars = list(sub) + ['a', 'b']
            rng.shuffle(chars)
            out.append(''.join(chars))
    for _ in range(ctx.scale(150, 4000)):
        n = rng.choice([1, 2, 2, 3, 3, 4, 5, 6, 8, 12])
        out.append(''.join(rng.choice(ALPHABET) for _ in range(n)))
    seen = set(); res = []
    for s in out:
        if s not in seen:
            seen.add(s); res.append(s)
    return res


def value_classes():
    vc = {'generic': Value, 'sqlite': SQLiteValue, 'oracle': Value}
    from pony.orm.dbproviders.postgres import PGValue
    from pony.orm.dbproviders.mysql import MySQLValue
    vc['postgres'] = PGValue; vc['mysql'] = MySQLValue
    return vc


def builder_classes():
    from pony.orm.dbproviders.postgres import PGSQLBuilder
    from pony.orm.dbproviders.mysql import MySQLBuilder
    from pony.orm.dbproviders.oracle import OraBuilder
    return {'generic': SQLBuilder, 'sqlite': SQLiteBuilder, 'postgres': PGSQLBuilder, 'mysql': MySQLBuilder, 'oracle': OraBuilder}


class FakeProvider(object):
    """just what SQLBuilder.__init__ reads from a provider; quote_name is the real DBAPIProvider.quote_name"""
    json1_available = False
    def __init__(self, paramstyle, quote_char, json1=False):
        self.paramstyle = paramstyle; self.quote_char = quote_char; self.json1_available = json1
    def quote_name(self, name):
        return DBAPIProvider.quote_name(self, name)


def sqlite_con():
    con = sqlite3.connect(':memory:')
    con.execute('PRAGMA case_sensitive_like = true')
    con.create_function('MOD', 2, lambda a, b: a % b)
    return con


def dbapi_expand(style, sql, args=None):
    """what a format / pyformat driver sends to the server (MySQLdb, pymysql: literally `query % args`; psycopg2: the same rules)"""
    if style == 'format': return sql % (tuple(args) if args is not None else ())
    if style == 'pyformat': return sql % (args if args is not None else {})
    return sql


def sql_lit(v):
    """client-side rendering of a bound argument by a format-style driver (harness code, standard SQL)"""
    if v is None: return 'NULL'
    if isinstance(v, bool): return '1' if v else '0'
    if isinstance(v, int): return str(v)
    if isinstance(v, bytes): return "X'%s'" % v.hex()
    return "'%s'" % v.replace("'", "''")


def short(s, n=60):
    return s if len(s) <= n else s[:n] + '...'


# ---------------------------------------------------------------------------------------------------------------------
def literals(ctx, strings):
    vcs = value_classes()
    con = sqlite_con()
    reqs = []; meta = []
    for s in strings:
        for style in STYLES:
            reals = {}
            for name, vc in vcs.items():
                v = vc(style, s)
                reals[name] = (v.quote_str(s), str(v))
            reqs.append({'op': 'quote_str', 'style': style, 's': s}); meta.append((s, style, reals))
    outs = ctx.driver('C06', reqs) if ctx.driver.ok else [None] * len(reqs)
    lex_reqs = []; lex_meta = []
    for (s, style, reals), out in zip(meta, outs):
        nontrivial = any(c in s for c in "'%\\") or not s.isascii()
        ctx.case(['literal', style, s], nontrivial=True, kind='literal:' + style)
        if nontrivial: ctx.count('literal:with-quote-percent-backslash-or-nonascii')
        texts = set()
        for name, (q, t) in reals.items():
            if q != t:
                ctx.divergence('Value.__str__ of a str is not quote_str', [name, style, s], model=q, impl=t)
            texts.add(t)
        if out is not None:
            gen = out.get('gen', {}).get('ok') if isinstance(out.get('gen'), dict) else None
            for t in texts:
                if gen != t or out.get('model') != t:
                    ctx.divergence('quote_str: generated definition / List-Char mirror / real code disagree', [style, s],
                                   model={'gen': out.get('gen'), 'mirror': out.get('model')}, impl=t)
        # property oracle: echo through real SQLite after the DB-API expansion
        for t in texts:
            try:
                sent = dbapi_expand(style, t)
                got = con.execute('SELECT ' + sent).fetchall()
                got = got[0][0] if len(got) == 1 and len(got[0]) == 1 else got
            except Exception as e:
                sent = None; got = 'raised %s' % type(e).__name__
            if got != s:
                ctx.violation('an inline string literal does not denote the original value (real SQLite after the DB-API %% expansion of style %s)' % style,
                              {'style': style, 'value': s, 'literal': t, 'sent': sent}, observed=got, expected=s,
                              key='literal:%s:%s' % ('percent' if style in PERCENT else 'plain', json.dumps(min_literal(style, s, vcs, con))))
            if sent is not None:
                for d in ('sqlite', 'mysql'):
                    lex_reqs.append({'op': 'lex_lit', 'dialect': d, 'text': sent}); lex_meta.append((d, s, style, t, got))
                lex_reqs.append({'op': 'expand', 'style': style, 'text': t}); lex_meta.append(('expand', s, style, t, sent))
    if ctx.driver.ok:
        for (d, s, style, t, real), out in zip(lex_meta, ctx.driver('C06', lex_reqs)):
            if d == 'expand':
                if out != real:
                    ctx.divergence('scanP/expandPercent differs from Python % on a real literal', [style, t], model=out, impl=real)
            elif d == 'sqlite':
                m = out['value'] if out and out['rest'] == '' else {'lexed': out}
                if m != real:
                    ctx.divergence('the standard literal lexer model differs from real SQLite', [style, t], model=m, impl=real)
            else:
                ok = out is not None and out['rest'] == '' and out['value'] == s
                if ok: ctx.count('mysql-literal:roundtrip-ok')
                elif '\\' in s: ctx.count('suspected:mysql-literal-backslash')
                else:
                    ctx.divergence('MySQL literal model rejects a real literal without backslash (contradicts C06_literal_roundtrip_mysql_partial)',
                                   [style, s, t], model=out, impl=s)
                if out is not None and out['rest'] not in ('',):
                    ctx.count('suspected:mysql-literal-structure-change')
    con.close()


def min_literal(style, s, vcs, con):
    """shrink a failing literal by deleting characters while it still fails"""
    def fails(x):
        try:
            t = str(Value(style, x)); got = con.execute('SELECT ' + dbapi_expand(style, t)).fetchall()[0][0]
        except Exception: return True
        return got != x
    cur = s; changed = True
    while changed:
        changed = False
        for i in range(len(cur)):
            c = cur[:i] + cur[i + 1:]
            if fails(c): cur = c; changed = True; break
    return cur


def mysql_witness(ctx):
    """replay of the witnesses of C06_literal_roundtrip_mysql_full_false / C06_literal_mysql_structure_witness on the real code"""
    if not ctx.driver.ok: return
    from pony.orm.dbproviders.mysql import MySQLValue
    for s in ['a\\b', "\\' OR 1=1 -- "]:
        t = str(MySQLValue('format', s))
        out = ctx.driver('C06', [{'op': 'lex_lit', 'dialect': 'mysql', 'text': dbapi_expand('format', t)}])[0]
        ctx.case(['mysql-witness', s], kind='witness:mysql-literal')
        if out is not None and out['value'] == s and out['rest'] == '':
            ctx.note('suspected MySQL backslash defect no longer reproduces on the real MySQLValue for %r' % s)
        else:
            ctx.count('suspected:mysql-witness-reproduced')
            ctx.extra.setdefault('suspected_unconfirmable_offline', {})['mysql-literal-backslash:' + s] = {'emitted': t, 'mysql_lexer_model_reads': out}


def other_values(ctx):
    vcs = value_classes(); con = sqlite_con(); rng = ctx.rng
    vals = [None, True, False, 0, 1, -1, 7, 2 ** 31, -2 ** 63, 2 ** 63 - 1, 10 ** 30, b'', b'\x00', b'\xff\x00abc', bytes(range(256))]
    vals += [rng.randrange(-10 ** 12, 10 ** 12) for _ in range(ctx.scale(10, 200))]
    vals += [bytes(rng.randrange(256) for _ in range(rng.randrange(1, 9))) for _ in range(ctx.scale(10, 200))]
    reqs = []; meta = []
    for v in vals:
        for dialect, vc in vcs.items():
            if dialect == 'generic': continue
            for style in STYLES:
                t = str(vc(style, v))
                if v is None: kind, jv = 'none', None
                elif isinstance(v, bool): kind, jv = 'bool', v
                elif isinstance(v, int): kind, jv = 'int', v
                else: kind, jv = 'bytes', list(v)
                if kind == 'int' and abs(v) >= 2 ** 63:
                    pass  # SQLite would read it as REAL; model tie only
                else:
                    try: got = con.execute('SELECT ' + dbapi_expand(style, t)).fetchall()[0][0]
                    except Exception as e: got = 'raised %s' % type(e).__name__
                    exp = int(v) if isinstance(v, bool) else v
                    ctx.case(['value', dialect, style, kind, repr(v)[:40]], kind='value:' + kind)
                    if got != exp:
                        ctx.violation('an inline %s literal does not denote the original value on real SQLite' % kind,
                                      {'dialect': dialect, 'style': style, 'value': repr(v), 'literal': t}, observed=repr(got), expected=repr(exp),
                                      key='value:%s:%s' % (kind, repr(v)[:40]))
                reqs.append({'op': 'value_str', 'dialect': dialect, 'style': style, 'kind': kind, 'v': jv}); meta.append((dialect, style, v, t))
                if kind == 'bytes':
                    reqs.append({'op': 'lex_blob', 'text': t}); meta.append(('blob', style, v, t))
    if ctx.driver.ok:
        for (dialect, style, v, t), out in zip(meta, ctx.driver('C06', reqs)):
            if dialect == 'blob':
                if not out or out['value'] != list(v) or out['rest'] != '':
                    ctx.divergence('lexBlob does not read back a real blob literal', [style, t], model=out, impl=list(v))
            elif out != t:
                ctx.divergence('valueStr differs from the real Value.__str__', [dialect, style, repr(v)], model=out, impl=t)
        # MOD symbol
        for style in STYLES:
            b = SQLBuilder(FakeProvider(style, '"'), ['MOD', ['VALUE', 7], ['VALUE', 3]])
            m = ctx.driver('C06', [{'op': 'mod', 'style': style}])[0]
            ctx.case(['mod', style], kind='mod')
            if b.sql != '(7' + m + '3)':
                ctx.divergence('modSymbol differs from SQLBuilder.MOD', [style], model=m, impl=b.sql)
            got = con.execute('SELECT ' + dbapi_expand(style, b.sql)).fetchall()[0][0]
            if got != 1:
                ctx.violation('MOD does not reach the server as the modulo operator', {'style': style, 'sql': b.sql}, observed=got, expected=1, key='mod:' + style)
    con.close()


# ---------------------------------------------------------------------------------------------------------------------
def identifiers(ctx, strings):
    con = sqlite_con()
    names = [s for s in strings if '\x00' not in s]
    reqs = []; meta = []
    for n in names:
        for q in ('"', '`'):
            fp = FakeProvider('qmark', q)
            real = fp.quote_name(n)
            reqs.append({'op': 'quote_name', 'q': q, 'n': n}); meta.append(('name', q, n, real))
            reqs.append({'op': 'lex_ident', 'q': q, 'text': real}); meta.append(('lex', q, n, real))
            ctx.case(['ident', q, n], kind='ident')
            # property oracle on real SQLite: column alias echo
            try:
                cur = con.execute('SELECT 7 AS ' + real)
                got = (cur.description[0][0], cur.fetchall())
            except Exception as e:
                got = 'raised %s' % type(e).__name__
            if got != (n, [(7,)]):
                ctx.violation('a quoted identifier does not denote the original name on real SQLite', {'quote_char': q, 'name': n, 'quoted': real},
                              observed=repr(got), expected=repr((n, [(7,)])), key='ident:%s' % json.dumps(n))
    pairs = [(a, b) for a, b in zip(names[::3], names[1::3])][:ctx.scale(60, 600)]
    for a, b in pairs:
        for q in ('"', '`'):
            fp = FakeProvider('qmark', q)
            real = fp.quote_name((a, b))
            reqs.append({'op': 'quote_names', 'q': q, 'names': [a, b]}); meta.append(('name', q, [a, b], real))
            ctx.case(['ident-qualified', q, a, b], kind='ident-qualified')
            try:
                got = con.execute('SELECT %s FROM (SELECT 7 AS %s) AS %s' % (real, fp.quote_name(b), fp.quote_name(a))).fetchall()
            except Exception as e:
                got = 'raised %s' % type(e).__name__
            if got != [(7,)]:
                ctx.violation('a qualified quoted name does not denote the original table/column pair on real SQLite',
                              {'quote_char': q, 'names': [a, b], 'quoted': real}, observed=repr(got), expected='[(7,)]', key='ident-qualified:%s' % json.dumps([a, b]))
    if ctx.driver.ok:
        for (what, q, n, real), out in zip(meta, ctx.driver('C06', reqs)):
            if what == 'name':
                if out != real: ctx.divergence('quoteNameL differs from the real quote_name', [q, n], model=out, impl=real)
            else:
                if not out or out['value'] != n or out['rest'] != '':
                    ctx.divergence('lexQuoted does not read back a real quoted identifier', [q, n, real], model=out, impl=n)
        # witness of C06_ident_expand_full_false on the real code: `%` in an identifier under a format style
        fp = FakeProvider('format', '`')
        t = fp.quote_name('a%%b')
        try: sent = dbapi_expand('format', t)
        except Exception as e: sent = 'raised %s' % type(e).__name__
        ctx.case(['ident-percent-witness'], kind='witness:ident-percent')
        if sent != t:
            ctx.count('suspected:ident-percent-not-doubled')
            ctx.extra.setdefault('suspected_unconfirmable_offline', {})['ident-percent:a%%b'] = {'emitted': t, 'after_format_expansion': sent}
        else:
            ctx.note('suspected identifier %-doubling defect no longer reproduces')
    con.close()
    # whole entities with adversarial table / column names on real SQLite through real Pony
    picks = [n for n in names if n and n.strip() and not n.startswith('sqlite_')]
    ctx.rng.shuffle(picks)
    for n in (['we"ird', "it's", 'a`b', '%s', 'a%%b', ':p1', '?', 'select', 'a.b', '"', "'"] + picks)[:ctx.scale(25, 250)]:
        entity_roundtrip(ctx, n)


def entity_roundtrip(ctx, n):
    db = Database()
    try:
        class T(db.Entity):
            _table_ = 'T' + n
            id = PrimaryKey(int, auto=True)
            v = Required(str, column=n, autostrip=False)   # autostrip is a documented validation feature (C08), not part of this property
            w = Optional(str, column=n + "'2", autostrip=False)
        db.bind('sqlite', ':memory:')
        db.generate_mapping(create_tables=True)
        with db_session:
            T(v=n, w='x')
            T(v='other', w=n)
        with db_session:
            got = sorted(select((t.v, t.w) for t in T if t.v == n or t.w == n))
            con = db.get_connection()   # the raw sqlite3 connection: db.execute would parse `$` in the text as a parameter (C30's subject)
            cols = [r[1] for r in con.execute('PRAGMA table_info(%s)' % db.provider.quote_name('T' + n)).fetchall()]
            tabs = [r[0] for r in con.execute("SELECT name FROM sqlite_master WHERE type = 'table'").fetchall()]
        res = (got, cols, 'T' + n in tabs)
    except Exception as e:
        res = 'raised %s: %s' % (type(e).__name__, short(str(e), 80))
    finally:
        try: db.disconnect()
        except Exception: pass
    exp = (sorted([(n, 'x'), ('other', n)]), ['id', n, n + "'2"], True)
    ctx.case(['entity-names', n], kind='ident-entity')
    if res != exp:
        ctx.violation('an entity with an adversarial table/column name does not round-trip on real SQLite', {'name': n},
                      observed=repr(res), expected=repr(exp), key='entity-name:%s' % json.dumps(n))


# ---------------------------------------------------------------------------------------------------------------------
def like_model_vs_sqlite(ctx):
    if not ctx.driver.ok: return
    rng = ctx.rng; con = sqlite_con()
    alpha = ['a', 'b', '%', '_', '!', '\\', 'A', 'é', '\U0001F600']
    cases = []
    fixed = [('%', ''), ('', ''), ('_', ''), ('_', 'a'), ('a!', 'a!'), ('!', '!'), ('!%', '%'), ('%!', 'a!'), ('%!%', 'a%'), ('%\\%', '%'), ('%\\%', 'a\\b'), ('a', 'A'), ('%é', 'aé'), ('_', '\U0001F600'),
             ('%a%b%', 'xaybz'), ('%%', 'x'), ('%_', ''), ('%_', 'a'), ('!!', '!'), ('!a', 'a'), ('a%', 'a'), ('%a', 'ba')]
    for p, s in fixed:
        for esc in (None, '!', '\\'):
            cases.append((p, esc, s))
    for _ in range(ctx.scale(1500, 60000)):
        p = ''.join(rng.choice(alpha) for _ in range(rng.choice([0, 1, 2, 2, 3, 3, 4, 5, 6])))
        s = ''.join(rng.choice(alpha[:2] + alpha[2:] if rng.random() < 0.4 else alpha[:2]) for _ in range(rng.choice([0, 1, 2, 3, 3, 4, 5, 7])))
        cases.append((p, rng.choice([None, '!', '!', '\\']), s))
    outs = ctx.driver('C06', [{'op': 'like', 'pat': p, 'esc': e, 's': s} for p, e, s in cases])
    for (p, e, s), m in zip(cases, outs):
        if e is None: real = con.execute('SELECT ? LIKE ?', (s, p)).fetchall()[0][0]
        else: real = con.execute('SELECT ? LIKE ? ESCAPE ?', (s, p, e)).fetchall()[0][0]
        ctx.case(['like', p, e, s], kind='likeMatch-vs-sqlite')
        ctx.count('like-model:%s' % ('match' if real else 'nomatch'))
        if bool(real) != m:
            ctx.divergence('likeMatch differs from real SQLite LIKE', [p, e, s], model=m, impl=bool(real))
    # replace()
    rcases = []
    for _ in range(ctx.scale(300, 6000)):
        s = ''.join(rng.choice(['a', 'b', '!', '%', '_']) for _ in range(rng.choice([0, 1, 2, 3, 5, 8])))
        old = ''.join(rng.choice(['a', 'b', '!', '%', '_']) for _ in range(rng.choice([1, 1, 1, 2, 3])))
        new = ''.join(rng.choice(['a', '!', '%', 'x']) for _ in range(rng.choice([0, 1, 2, 2])))
        rcases.append((s, old, new))
    outs = ctx.driver('C06', [{'op': 'sql_replace', 's': s, 'old': o, 'new': n} for s, o, n in rcases])
    for (s, o, n), m in zip(rcases, outs):
        real = con.execute('SELECT replace(?, ?, ?)', (s, o, n)).fetchall()[0][0]
        ctx.case(['replace', s, o, n], kind='sqlReplace-vs-sqlite')
        if m != real or m != s.replace(o, n):
            ctx.divergence('sqlReplace differs from SQLite replace() / str.replace', [s, o, n], model=m, impl=[real, s.replace(o, n)])
    # scanP against Python's % on random text
    scases = []
    for _ in range(ctx.scale(300, 6000)):
        scases.append(''.join(rng.choice(['%', '%', 's', '(', ')', 'p', '1', 'a', "'"]) for _ in range(rng.choice([1, 2, 3, 4, 6, 9]))))
    outs = ctx.driver('C06', [{'op': 'scan', 'text': t} for t in scases])
    class Rec(dict):
        def __missing__(self, k): return '<<%s>>' % k
    for t, m in zip(scases, outs):
        ctx.case(['scan', t], kind='scanP-vs-python')
        if m is None: ctx.count('scan:model-rejects'); continue
        npos = sum(1 for x in m if isinstance(x, dict) and 'pos' in x); named = [x['named'] for x in m if isinstance(x, dict) and 'named' in x]
        exp = ''.join(x if isinstance(x, str) else ('<<pos>>' if 'pos' in x else '<<%s>>' % x['named']) for x in m)
        try:
            if named and not npos: real = t % Rec()
            elif npos and not named: real = t % tuple(['<<pos>>'] * npos)
            elif not npos and not named: real = t % ()
            else: ctx.count('scan:mixed'); continue
        except Exception as e:
            real = 'raised %s' % type(e).__name__
        ctx.count('scan:compared')
        if real != exp:
            ctx.divergence('scanP differs from Python % expansion', [t], model=exp, impl=real)
    con.close()


def conv_ast(a):
    """real SQL AST of the LIKE pattern -> the model's JSON form"""
    if a[0] == 'VALUE': return ['VALUE', a[1]]
    if a[0] in ('PARAM', 'COLUMN'): return ['ITEM']
    if a[0] in ('REPLACE', 'CONCAT'): return [a[0]] + [conv_ast(x) for x in a[1:]]
    return ['?' + str(a[0])]


KINDS = {
    'contains': ('%', '%', lambda x, s: x in s, '%s in e.name', lambda E, x: select(e for e in E if x in e.name), lambda E: select(e for e in E if e.tag in e.name)),
    'startswith': (None, '%', lambda x, s: s.startswith(x), 'e.name.startswith(%s)', lambda E, x: select(e for e in E if e.name.startswith(x)), lambda E: select(e for e in E if e.name.startswith(e.tag))),
    'endswith': ('%', None, lambda x, s: s.endswith(x), 'e.name.endswith(%s)', lambda E, x: select(e for e in E if e.name.endswith(x)), lambda E: select(e for e in E if e.name.endswith(e.tag))),
    'not-contains': ('%', '%', lambda x, s: x not in s, '%s not in e.name', lambda E, x: select(e for e in E if x not in e.name), lambda E: select(e for e in E if e.tag not in e.name)),
}


def like_queries(ctx, strings):
    rng = ctx.rng
    rows = ['', 'a', 'ab', 'abc', 'ba', 'b', 'A', 'a%b', 'a_b', 'a!b', 'a!!b', 'a!%b', '%', '_', '!', '!!', '%%', '__', 'a\\b', 'a\\', '\\', '\\%', '\\_', "a'b", "'", "''", 'a"b',
            '50%_off!', 'now 50%_off! today', 'axb', 'aXb', 'a%', '%a', '_a', 'a_', 'é', 'aé', '\U0001F600', 'a\U0001F600b', 'x!y%z_w', '$', 'a$b', '100%', 'ab!', '!ab', 'a b', '%s', '%(p1)s', ':p1', '?']
    rows += [s for s in strings if 0 < len(s) <= 6][:ctx.scale(40, 400)]
    rows = list(dict.fromkeys(rows))
    xs = ['', 'a', 'b', 'ab', '%', '_', '!', '!!', '!%', '!_', '%!', '\\', 'a\\b', '\\%', '\\_', "'", "''", '"', 'a%b', 'a_b', 'a!b', '50%_off!', 'é', '\U0001F600', '$', 'A', '%s', '%(p1)s', ':p1', '?', 'a%', '%a', '__', '%%', 'a!', 'x!y%z_w']
    more = [s for s in strings if len(s) <= 5]
    rng.shuffle(more)
    xs = list(dict.fromkeys(xs + more[:ctx.scale(40, 1200)]))
    db = Database()
    class E(db.Entity):
        name = Optional(str, autostrip=False)
        tag = Optional(str, autostrip=False)
    db.bind('sqlite', ':memory:')
    db.generate_mapping(create_tables=True)
    with db_session:
        for i, r in enumerate(rows):
            E(name=r, tag=xs[i % len(xs)])
    ast_reqs = []; ast_meta = []
    with db_session:
        data = [(e.id, e.name, e.tag) for e in E.select()]
        for x in xs:
            for kind, (before, after, pyf, tmpl, mk, mkcol) in KINDS.items():
                exp = sorted(i for i, nm, tg in data if pyf(x, nm))
                for path in ('const', 'param'):
                    try:
                        q = select('e for e in E if ' + tmpl % repr(x)) if path == 'const' else mk(E, x)
                        got = sorted(e.id for e in q)
                        conds = q._translator.conditions
                    except Exception as ex:
                        got = 'raised %s: %s' % (type(ex).__name__, short(str(ex), 80)); conds = None
                    ctx.case(['like-query', kind, path, x], kind='like-query:%s:%s' % (kind, path))
                    if any(c in x for c in '%_!\\\''): ctx.count('like-query:with-metachar')
                    if got != exp:
                        mx = min_like(ctx, E, data, kind, path, x)
                        ctx.violation('%s with x as a %s returns different rows than Python on real SQLite' % (tmpl % 'x', 'constant' if path == 'const' else 'parameter'),
                                      {'kind': kind, 'path': path, 'x': x, 'rows': [nm for i, nm, tg in data if (i in exp) != (isinstance(got, list) and i in got)][:5]},
                                      observed=got if not isinstance(got, list) else [nm for i, nm, tg in data if i in got][:20],
                                      expected=[nm for i, nm, tg in data if i in exp][:20], key='like:%s:%s:%s' % (kind, path, json.dumps(mx)))
                    if conds and kind != 'not-contains':
                        c = conds[0]
                        ast_reqs.append({'op': 'like_ast', 'const': x if path == 'const' else None, 'before': before, 'after': after})
                        ast_meta.append(('sqlite', kind, path, x, {'pattern': conv_ast(c[2]), 'escape': len(c) == 4 and c[3] == ['VALUE', '!']}))
        # plain equality with an inline constant / a bound parameter (Value.__str__ and Param through a real query)
        for x in xs:
            exp = sorted(i for i, nm, tg in data if nm == x)
            for path in ('const', 'param'):
                try:
                    q = select('e for e in E if e.name == %s' % repr(x)) if path == 'const' else select(e for e in E if e.name == x)
                    got = sorted(e.id for e in q)
                except Exception as ex:
                    got = 'raised %s: %s' % (type(ex).__name__, short(str(ex), 80))
                ctx.case(['eq-query', path, x], kind='eq-query:' + path)
                if got != exp:
                    ctx.violation('e.name == x with x as a %s returns different rows than Python on real SQLite' % ('constant' if path == 'const' else 'parameter'),
                                  {'path': path, 'x': x}, observed=got, expected=exp, key='eq:%s:%s' % (path, json.dumps(x)))
        # expression path with a column as the item
        for kind, (before, after, pyf, tmpl, mk, mkcol) in KINDS.items():
            exp = sorted(i for i, nm, tg in data if pyf(tg, nm))
            try: got = sorted(e.id for e in mkcol(E))
            except Exception as ex: got = 'raised %s' % type(ex).__name__
            ctx.case(['like-query-column', kind], kind='like-query:%s:column' % kind)
            if got != exp:
                bad = [(nm, tg) for i, nm, tg in data if (i in exp) != (isinstance(got, list) and i in got)][:5]
                ctx.violation('%s with a column as x returns different rows than Python on real SQLite' % (tmpl % 'e.tag'), {'kind': kind, 'rows(name, tag)': bad},
                              observed=got, expected=exp, key='like-column:%s:%s' % (kind, json.dumps(bad[:1])))
    db.disconnect()
    other_dialect_like(ctx, xs, rows, ast_reqs, ast_meta)
    if ctx.driver.ok and ast_reqs:
        for (dialect, kind, path, x, real), out in zip(ast_meta, ctx.driver('C06', ast_reqs)):
            ctx.count('like-ast:%s:%s' % (dialect, path))
            if out != real:
                ctx.divergence('likeAst differs from the AST built by the real StringMixin._like', [dialect, kind, path, x], model=out, impl=real)


def min_like(ctx, E, data, kind, path, x):
    before, after, pyf, tmpl, mk, mkcol = KINDS[kind]
    def fails(y):
        try:
            q = select('e for e in E if ' + tmpl % repr(y)) if path == 'const' else mk(E, y)
            return sorted(e.id for e in q) != sorted(i for i, nm, tg in data if pyf(y, nm))
        except Exception: return True
    cur = x; changed = True
    while changed:
        changed = False
        for i in range(len(cur)):
            c = cur[:i] + cur[i + 1:]
            if fails(c): cur = c; changed = True; break
    return cur


def other_dialect_like(ctx, xs, rows, ast_reqs, ast_meta):
    """PostgreSQL / MySQL / Oracle offline: the REAL AST and SQL text (driver stubs + TestDatabase); the Lean dialect model decides the match"""
    from pony.orm.tests.testutils import TestDatabase
    run_reqs = []; run_meta = []
    subjects = [r for r in rows if len(r) <= 4][:25]
    for dialect, dflt in (('postgres', '\\'), ('mysql', '\\'), ('oracle', None)):
        db = TestDatabase()
        class E(db.Entity):
            name = Optional(str)
            tag = Optional(str)
        db.bind(dialect, ':memory:')
        db.generate_mapping()
        with db_session:
            for x in xs[:ctx.scale(45, 400)]:
                for kind, (before, after, pyf, tmpl, mk, mkcol) in KINDS.items():
                    if kind == 'not-contains': continue
                    for path in ('const', 'param'):
                        try:
                            q = select('e for e in E if ' + tmpl % repr(x)) if path == 'const' else mk(E, x)
                            c = q._translator.conditions[0]
                            sql = q.get_sql()
                        except Exception as ex:
                            # Oracle reads '' as NULL: OraProvider normalises an empty-string parameter/constant to None and the comparison is refused
                            ctx.count('like-dialect:%s:refused:%s%s' % (dialect, type(ex).__name__, ':empty-string' if x == '' else ''))
                            if not (dialect == 'oracle' and x == ''):
                                ctx.divergence('translation of a LIKE query failed on an offline dialect', [dialect, kind, path, x], model=None, impl='%s: %s' % (type(ex).__name__, short(str(ex), 100)))
                            continue
                        ctx.case(['like-dialect', dialect, kind, path, x], kind='like-dialect:' + dialect)
                        ast_reqs.append({'op': 'like_ast', 'const': x if path == 'const' else None, 'before': before, 'after': after})
                        ast_meta.append((dialect, kind, path, x, {'pattern': conv_ast(c[2]), 'escape': len(c) == 4 and c[3] == ['VALUE', '!']}))
                        if path == 'const':
                            # the constant pattern must be in the SQL text as the literal quote_str gives (tie of the text path)
                            style = db.provider.paramstyle
                            lit = str(Value(style, c[2][1]))
                            if lit not in sql:
                                ctx.divergence('the LIKE pattern literal is not in the emitted SQL text', [dialect, kind, x], model=lit, impl=sql)
                        for s in subjects:
                            run_reqs.append({'op': 'like_run', 'const': x if path == 'const' else None, 'before': before, 'after': after, 'dflt': dflt, 'item': x, 's': s})
                            run_meta.append((dialect, kind, path, x, s, pyf(x, s)))
    if ctx.driver.ok:
        for (dialect, kind, path, x, s, exp), out in zip(run_meta, ctx.driver('C06', run_reqs)):
            if out['match'] == exp:
                ctx.count('like-dialect-model:agree')
            else:
                has_meta = '%' in x or '_' in x
                if path == 'const' and dialect in ('postgres', 'mysql') and '\\' in x and not has_meta:
                    ctx.count('suspected:like-const-default-backslash-escape:' + dialect)
                    ctx.extra.setdefault('suspected_unconfirmable_offline', {}).setdefault('like-const-backslash:' + dialect, {'x': x, 's': s, 'pattern': out['pattern'], 'python': exp, 'like_model': out['match']})
                else:
                    ctx.divergence('dialect LIKE model on the model AST disagrees with Python outside the guard of C06_like_const_backslash_partial',
                                   [dialect, kind, path, x, s], model=out, impl=exp)


# ---------------------------------------------------------------------------------------------------------------------
import re as _re
_IDENT = _re.compile(r'^[A-Za-z_]\w*$')


def py_json_path(values, dialect=None, json1=False):
    """the JSON path text a sequence of keys / indexes denotes in a dialect (harness re-statement, independent of eval_json_path):
    `$.key[3]."quoted key"` in general - every key segment depends on that key alone; an index counted from the end is `[-n]`, and `[#-n]`
    for SQLite's json_extract (JSON1) when the path has one; the text[] literal `{key,3,"quoted key"}` for PostgreSQL"""
    if dialect == 'postgres':
        return '{%s}' % ','.join(str(v) if isinstance(v, int) else v if _IDENT.match(v) else '"%s"' % v.replace('"', '\\"') for v in values)
    hashed = dialect == 'sqlite' and json1 and any(isinstance(v, int) and v < 0 for v in values)
    out = '$'
    for v in values:
        if isinstance(v, int): out += ('[#%d]' if hashed and v < 0 else '[%d]') % v
        elif _IDENT.match(v): out += '.' + v
        else: out += '."%s"' % v.replace('"', '\\"')
    return out


def with_jpath(B):
    """the dialect builder plus one harness node: ['JPATH', elem, ...] renders SQLBuilder.build_json_path(path) - the real
    build_json_path / make_composite_param / CompositeParam.eval (the dialect JSON_* nodes wrap exactly this value)"""
    return type('J' + B.__name__, (B,), {'JPATH': lambda builder, *path: builder.build_json_path(path)[0]})


def exec_lowered(con, b, style, args):
    """run a built statement on real SQLite the way a DB-API driver of `style` would bind its arguments; one row -> list"""
    try:
        with warnings.catch_warnings():
            warnings.simplefilter('ignore', DeprecationWarning)
            if style in ('qmark', 'named'): got = con.execute(b.sql, args).fetchall()
            elif style == 'numeric':
                sql = ''.join((':n%d' % x.id) if isinstance(x, Param) else str(x) for x in b.result).rstrip('\n')
                got = con.execute(sql, {'n%d' % (i + 1): a for i, a in enumerate(args)}).fetchall()
            elif style == 'format': got = con.execute(b.sql % tuple(sql_lit(a) for a in args)).fetchall()
            else: got = con.execute(b.sql % {k: sql_lit(v) for k, v in args.items()}).fetchall()
        return list(got[0]) if len(got) == 1 else got
    except Exception as e:
        return 'raised %s: %s' % (type(e).__name__, short(str(e), 80))


def item_shape(it, names):
    """canonical shape of a select item: parameters renamed in order of first use, constants kept only for JSON paths"""
    def nm(k): return 'v%d' % names.setdefault(k, len(names))
    if it[0] == 'PARAM': return nm(it[1][0])
    if it[0] == 'VALUE': return 'lit'
    if it[0] == 'MOD': return 'mod(%s)' % ','.join(item_shape(x, names) for x in it[1:])
    if it[0] == 'JPATH': return 'jpath(%s)' % ','.join(nm(x[1][0]) if x[0] == 'PARAM' else repr(x[1]) for x in it[1:])
    return it[0]


def statements(ctx, strings):
    """whole statements: placeholders with repeats, literals, MOD, composite (JSON path) parameters that share variables and differ in
    constant keys - real builders, five styles; executed on real SQLite after lowering; every selected item compared per placeholder"""
    rng = ctx.rng; con = sqlite_con(); builders = {n: with_jpath(B) for n, B in builder_classes().items()}
    JKEYS = ['title', 'body', 'de', 'en', 'a b', 'x"y', '0', 'é', 0, 1, 3, -1, -2, 'a[-1]', 'a[#-1]', '[-', '[#', 'a.b', '$', '$.x', '[0]', '#-1', 'k[-2]x']
    reqs = []; meta = []
    pool = [s for s in strings if len(s) <= 8]
    for rd in range(ctx.scale(60, 1500)):
        nkeys = rng.choice([1, 2, 3, 4, 6])
        keys = rng.sample(range(1, 40), nkeys)
        vals = {}
        for k in keys:
            vals[k] = rng.choice([rng.choice(pool), rng.choice(pool), rng.randrange(-5, 100), None, bytes([rng.randrange(256)])])
        items = []; expected = []; occ = []
        jvars = rng.sample(range(100, 140), rng.choice([1, 2]))
        for k in jvars: vals[k] = rng.choice(JKEYS)
        jids = {}; jkeys = {}
        def add_jpath(desc):
            # desc: tuple of ('p', var) / ('c', const); one composite parameter per distinct description
            items.append(['JPATH'] + [['PARAM', (d[1], None, None)] if d[0] == 'p' else ['VALUE', d[1]] for d in desc])
            if not any(d[0] == 'p' for d in desc):
                # constants only: build_json_path renders the path as an inline literal, no parameter
                expected.append(('jpath', [d[1] for d in desc])); return
            cid = jids.setdefault(desc, 1000 + len(jids))
            jkeys[tuple((d[1], None, None) if d[0] == 'p' else d[1] for d in desc)] = cid
            vals[cid] = ('jpath', [vals[d[1]] if d[0] == 'p' else d[1] for d in desc])
            expected.append(vals[cid]); occ.append(cid)
        for _ in range(rng.choice([1, 2, 3, 5, 8, 12])):
            r = rng.random()
            if r < 0.16:
                desc = [('p', rng.choice(jvars)) if rng.random() < 0.5 else ('c', rng.choice(JKEYS)) for _ in range(rng.choice([1, 2, 3]))]
                if not any(d[0] == 'p' for d in desc) and rng.random() < 0.6: desc[rng.randrange(len(desc))] = ('p', rng.choice(jvars))
                add_jpath(tuple(desc))
                if rng.random() < 0.7:
                    # a sibling path through the same variable(s) that differs only in constant keys (or repeats the path exactly)
                    sib = list(desc); cpos = [i for i, d in enumerate(sib) if d[0] == 'c']
                    if cpos and rng.random() < 0.8:
                        i = rng.choice(cpos); sib[i] = ('c', rng.choice([x for x in JKEYS if x != sib[i][1]]))
                    elif rng.random() < 0.5: sib.append(('c', rng.choice(JKEYS)))
                    add_jpath(tuple(sib))
            elif r < 0.55:
                k = rng.choice(keys); items.append(['PARAM', (k, None, None)]); expected.append(vals[k]); occ.append(k)
            elif r < 0.85:
                v = rng.choice([rng.choice(pool), rng.choice(SPECIAL), rng.randrange(-3, 1000), None, True, b'\x00\xff'])
                items.append(['VALUE', v]); expected.append(int(v) if isinstance(v, bool) else v)
            else:
                k = rng.choice(keys); a = rng.randrange(0, 50); b = rng.randrange(1, 9)
                vals[k] = b if not any(o == k for o in occ) else vals[k]
                if isinstance(vals[k], int) and not isinstance(vals[k], bool) and vals[k] > 0:
                    items.append(['MOD', ['VALUE', a], ['PARAM', (k, None, None)]]); expected.append(a % vals[k]); occ.append(k)
                else:
                    items.append(['MOD', ['VALUE', a], ['VALUE', b]]); expected.append(a % b)
        ast = ['SELECT', ['ALL'] + items]
        for style in STYLES:
            has_jpath = any(it[0] == 'JPATH' for it in items)
            bname = rng.choice([n for n in builders if not (has_jpath and n == 'oracle')])    # OraBuilder refuses parameters in JSON paths and writes constants in its own syntax
            B = builders[bname]; json1 = rng.random() < 0.5
            enc = lambda v: py_json_path(v[1], bname, json1) if isinstance(v, tuple) and v and v[0] == 'jpath' else v
            vals_b = {k: enc(v) for k, v in vals.items()}; expected_b = [enc(v) for v in expected]
            b = B(FakeProvider(style, '`' if bname == 'mysql' else '"', json1), ast)
            args = b.adapter(vals)  # the real adapter evaluates the composite parameters itself
            phs = [str(x) for x in b.result if isinstance(x, Param)]
            ctx.case(['statement', style, bname, occ, [repr(e)[:12] for e in expected_b]], kind='statement:' + style)
            ctx.count('statement:repeats' if len(set(occ)) < len(occ) else 'statement:no-repeats')
            if len(jids) > 1: ctx.count('statement:several-composite-params')
            # tie of the hypothesis of C06_make_param_cache on the real objects: the key under which make_param caches a composite
            # parameter must contain every item that determines its value
            for pk, prm in b.keys.items():
                if hasattr(prm, 'items'):
                    full = tuple(it.paramkey if isinstance(it, Param) else it.value for it in prm.items)
                    if tuple(pk) != full:
                        ctx.divergence('the cache key of a composite parameter does not contain every item of the path', [style, bname, repr(pk)], model=repr(full), impl=repr(pk))
            # model tie
            reqs.append({'op': 'params', 'style': style, 'occ': occ})
            meta.append((style, bname, occ, phs, [jkeys.get(pk, pk[0]) if len(pk) != 3 or pk in jkeys or not (pk[1] is None and pk[2] is None) else pk[0] for pk in b.layout], args, vals_b))
            # property oracle: execute on real SQLite the way a driver of this style would
            try:
                with warnings.catch_warnings():
                    warnings.simplefilter('ignore', DeprecationWarning)
                    if style == 'qmark': got = con.execute(b.sql, args).fetchall()
                    elif style == 'named': got = con.execute(b.sql, args).fetchall()
                    elif style == 'numeric':
                        # PEP 249 reading: `:N` is args[N-1]  (lowered to SQLite named parameters n<N>)
                        sql = ''.join((':n%d' % x.id) if isinstance(x, Param) else str(x) for x in b.result).rstrip('\n')
                        got = con.execute(sql, {'n%d' % (i + 1): a for i, a in enumerate(args)}).fetchall()
                        # cx_Oracle's positional reading: one value per occurrence, left to right
                        sql2 = ''.join('?' if isinstance(x, Param) else str(x) for x in b.result).rstrip('\n')
                        try: got2 = con.execute(sql2, args).fetchall()
                        except Exception as e: got2 = 'raised %s' % type(e).__name__
                        ctx.count('statement:numeric:positional-reading-%s' % ('agrees' if got2 == got else 'differs'))
                    elif style == 'format': got = con.execute(b.sql % tuple(sql_lit(a) for a in args)).fetchall()
                    else: got = con.execute(b.sql % {k: sql_lit(v) for k, v in args.items()}).fetchall()
                got = list(got[0]) if len(got) == 1 else got
            except Exception as e:
                got = 'raised %s: %s' % (type(e).__name__, short(str(e), 80))
            if got != expected_b:
                # shrink: drop select items while the statement still returns something else than the values supplied
                qc = '`' if bname == 'mysql' else '"'
                def fails(idx):
                    try:
                        bb = B(FakeProvider(style, qc, json1), ['SELECT', ['ALL'] + [items[i] for i in idx]])
                        return exec_lowered(con, bb, style, bb.adapter(vals)) != [expected_b[i] for i in idx]
                    except Exception: return True
                idx = list(range(len(items))); changed = True
                while changed and len(idx) > 1:
                    changed = False
                    for i in list(idx):
                        cand = [x for x in idx if x != i]
                        if cand and fails(cand): idx = cand; changed = True; break
                mb = B(FakeProvider(style, qc, json1), ['SELECT', ['ALL'] + [items[i] for i in idx]])
                margs = mb.adapter(vals); mgot = exec_lowered(con, mb, style, margs); mexp = [expected_b[i] for i in idx]
                names = {}
                ctx.violation('a statement built for paramstyle %s does not return the supplied values: a placeholder is bound to another value than the one supplied for it' % style,
                              {'style': style, 'builder': bname, 'json1_available': json1, 'select_items': [items[i] for i in idx], 'variables': {k: v for k, v in vals.items() if not isinstance(v, tuple)},
                               'sql': mb.sql, 'args': repr(margs)[:300], 'full_statement': repr(ast)[:400]},
                              observed=repr(mgot)[:300], expected=repr(mexp)[:300],
                              key='statement:%s:%s' % (style, json.dumps([item_shape(items[i], names) for i in idx])))
    if ctx.driver.ok:
        for (style, bname, occ, phs, layout, args, vals), out in zip(meta, ctx.driver('C06', reqs)):
            if out.get('placeholders') != phs:
                ctx.divergence('placeholders differ from the real Param.__str__ / numbering', [style, bname, occ], model=out.get('placeholders'), impl=phs)
            if out.get('layout') != layout:
                ctx.divergence('layout differs', [style, bname, occ], model=out.get('layout'), impl=layout)
            if 'tuple' in out['args']:
                m = tuple(vals[k] for k in out['args']['tuple'])
            else:
                m = {}
                for name, k in out['args']['dict']: m[name] = vals[k]
            if m != args:
                ctx.divergence('adapter output differs', [style, bname, occ], model=repr(m), impl=repr(args))
            if out['resolved'] != occ:
                ctx.divergence('model resolve does not return the key of the occurrence', [style, occ], model=out['resolved'], impl=occ)
    con.close()


# ---------------------------------------------------------------------------------------------------------------------
class RecordingBuilder(object):
    """stands for `builder` in the translated SQLBuilder methods: records the sub-ASTs it is asked to render"""
    def __init__(self, paramstyle): self.paramstyle = paramstyle
    def __call__(self, ast): return {'call': 'builder', 'args': [ast]}


def jnorm(x):
    if isinstance(x, (tuple, list)): return [jnorm(i) for i in x]
    if isinstance(x, dict): return {k: jnorm(v) for k, v in x.items()}
    return x


def builder_text_tie(ctx):
    """Gen.sqlMod / sqlLike / sqlNotLike / sqlReplaceCall (regenerated from SQLBuilder on every run) vs the real methods"""
    if not ctx.driver.ok: return
    asts = [['VALUE', 'x'], ['VALUE', "a'%"], ['COLUMN', 'e', 'name'], ['PARAM', 1], ['VALUE', 7]]
    escs = [None, ['VALUE', '!'], [], ['VALUE', '']]
    reqs = []; reals = []; inputs = []
    for style in STYLES + ['other']:
        rb = RecordingBuilder(style)
        for a, b in itertools.product(asts, repeat=2):
            reqs.append({'op': 'gen_build', 'fn': 'mod', 'args': [a, b, style]}); reals.append(jnorm(SQLBuilder.MOD(rb, a, b))); inputs.append(['mod', style, a, b])
    rb = RecordingBuilder('qmark')
    for a, b in itertools.product(asts, repeat=2):
        for e in escs:
            reqs.append({'op': 'gen_build', 'fn': 'like', 'args': [a, b, e]}); reals.append(jnorm(SQLBuilder.LIKE(rb, a, b, e))); inputs.append(['like', a, b, e])
            reqs.append({'op': 'gen_build', 'fn': 'not_like', 'args': [a, b, e]}); reals.append(jnorm(SQLBuilder.NOT_LIKE(rb, a, b, e))); inputs.append(['not_like', a, b, e])
        for c in asts[:3]:
            reqs.append({'op': 'gen_build', 'fn': 'replace', 'args': [a, b, c]}); reals.append(jnorm(SQLBuilder.REPLACE(rb, a, b, c))); inputs.append(['replace', a, b, c])
    for inp, real, out in zip(inputs, reals, ctx.driver('C06', reqs)):
        ctx.case(['gen-build'] + inp, kind='translator-tie:' + inp[0])
        if out != {'ok': real}:
            ctx.divergence('generated SQLBuilder method and the real method disagree', inp, model=out, impl=real)
    # the overriding builders keep these methods (Oracle replaces MOD by the MOD() function: no % at all)
    for name, B in builder_classes().items():
        for m in ('LIKE', 'NOT_LIKE', 'REPLACE') + (() if name == 'oracle' else ('MOD',)):
            ctx.case(['builder-inherits', name, m], kind='builder-inherits')
            if getattr(B, m) is not getattr(SQLBuilder, m):
                ctx.divergence('a dialect builder overrides a method the model takes from SQLBuilder', [name, m], model='SQLBuilder.' + m, impl=repr(getattr(B, m)))


def skel_of(parts):
    """expected skeleton: merge adjacent raw strings; {'q': c} marks one quoted token"""
    out = []
    for p in parts:
        if isinstance(p, str):
            if not p: continue
            if out and isinstance(out[-1], str): out[-1] += p
            else: out.append(p)
        else: out.append(p)
    return out


def structure(ctx, strings):
    """statements with adversarial values AND adversarial aliases, five styles x five builders: executed on real SQLite
    (values and column names must come back) and their skeleton (Lean lexer model on the text the server receives) must be
    the one determined by the AST alone, whatever the values and names are"""
    rng = ctx.rng; con = sqlite_con(); builders = builder_classes()
    pool = [s for s in strings if len(s) <= 8 and '\x00' not in s]
    reqs = []; meta = []
    for rd in range(ctx.scale(50, 1200)):
        keys = rng.sample(range(1, 30), rng.choice([1, 2, 3]))
        vals = {k: rng.choice([rng.choice(pool), rng.choice(SPECIAL), rng.randrange(0, 1000)]) for k in keys}
        n = rng.choice([1, 2, 3, 5])
        aliases = rng.sample(pool, n) if len(set(pool)) >= n else pool[:n]
        items = []; expected = []; kinds = []
        for j in range(n):
            r = rng.random()
            if r < 0.5:
                k = rng.choice(keys); items.append(['PARAM', (k, None, None)]); expected.append(vals[k]); kinds.append(('param', k))
            elif r < 0.85:
                v = rng.choice([rng.choice(pool), rng.choice(SPECIAL)]); items.append(['VALUE', v]); expected.append(v); kinds.append(('lit', v))
            else:
                v = rng.randrange(0, 1000); items.append(['VALUE', v]); expected.append(v); kinds.append(('num', v))
        ast = ['SELECT', ['ALL'] + [['AS', it, al] for it, al in zip(items, aliases)]]
        for style in STYLES:
            bname = rng.choice(list(builders)); q = '`' if bname == 'mysql' else '"'
            b = builders[bname](FakeProvider(style, q), ast)
            args = b.adapter(vals)
            if style in PERCENT and any('%' in al for al in aliases):
                # outside the guard of C06_ident_expand_partial: quote_name does not double `%`, the DB-API expansion mangles or rejects
                # the statement.  No format-style backend exists here: suspected, unconfirmable offline - counted, not reported.
                try: ok = dbapi_expand(style, b.sql, tuple(sql_lit(a) for a in args) if style == 'format' else {k: sql_lit(v) for k, v in args.items()}) is not None
                except Exception: ok = False
                ctx.count('suspected:ident-percent:statement-%s' % ('expands' if ok else 'rejected-by-expansion'))
                ctx.extra.setdefault('suspected_unconfirmable_offline', {}).setdefault('ident-percent:statement', {'style': style, 'sql': b.sql, 'aliases': aliases})
                continue
            with warnings.catch_warnings():
                warnings.simplefilter('ignore', DeprecationWarning)
                try:
                    if style in ('qmark', 'named'): sent = b.sql; cur = con.execute(sent, args)
                    elif style == 'numeric':
                        sent = ''.join((':n%d' % x.id) if isinstance(x, Param) else str(x) for x in b.result).rstrip('\n')
                        cur = con.execute(sent, {'n%d' % (i + 1): a for i, a in enumerate(args)})
                    elif style == 'format': sent = b.sql % tuple(sql_lit(a) for a in args); cur = con.execute(sent)
                    else: sent = b.sql % {k: sql_lit(v) for k, v in args.items()}; cur = con.execute(sent)
                    got = ([d[0] for d in cur.description], [list(r) for r in cur.fetchall()])
                except Exception as e:
                    got = 'raised %s: %s' % (type(e).__name__, short(str(e), 80)); sent = None
            ctx.case(['structure', style, bname, aliases, [repr(e)[:12] for e in expected]], kind='structure:' + style)
            if got != (aliases, [expected]):
                ctx.violation('a statement with adversarial values and aliases does not return the supplied values under the supplied column names (paramstyle %s)' % style,
                              {'style': style, 'builder': bname, 'ast': repr(ast)[:600], 'sql': b.sql, 'args': repr(args)[:300]}, observed=repr(got)[:300], expected=repr((aliases, [expected]))[:300],
                              key='structure:%s:%s' % (style, json.dumps([k[0] for k in kinds])))
            if sent is not None:
                # what the skeleton must be, from the AST alone
                ids = {}
                for x in b.result:
                    if isinstance(x, Param): ids.setdefault(x.paramkey[0], x.id)
                parts = ['SELECT ']
                for j, (kind, al) in enumerate(zip(kinds, aliases)):
                    if j: parts.append(', ')
                    if kind[0] == 'lit': parts.append({'q': "'"})
                    elif kind[0] == 'num': parts.append(str(kind[1]))
                    else:
                        v = vals[kind[1]]
                        if style in PERCENT: parts.append({'q': "'"} if isinstance(v, str) else str(v))
                        elif style == 'qmark': parts.append('?')
                        elif style == 'named': parts.append(':p%d' % ids[kind[1]])
                        else: parts.append(':n%d' % ids[kind[1]])
                    parts.append(' AS '); parts.append({'q': q})
                reqs.append({'op': 'skeleton', 'text': sent}); meta.append((style, bname, sent, skel_of(parts)))
    if ctx.driver.ok:
        for (style, bname, sent, exp), out in zip(meta, ctx.driver('C06', reqs)):
            if out != exp:
                ctx.divergence('the skeleton of a real statement is not the one its AST determines (a value or name changed the structure, or the lexer model is off)',
                               [style, bname, sent], model=out, impl=exp)
        # the automaton's terminated / unterminated decision against SQLite's own tokenizer
        texts = [''.join(rng.choice(['a', ' ', "'", '"', '`', "'", ',']) for _ in range(rng.choice([1, 2, 3, 4, 6, 9]))) for _ in range(ctx.scale(400, 8000))]
        for t, out in zip(texts, ctx.driver('C06', [{'op': 'skeleton', 'text': t} for t in texts])):
            ctx.case(['skeleton-complete', t], kind='skeleton-vs-sqlite-complete')
            real = sqlite3.complete_statement(t + ';')
            ctx.count('skeleton:%s' % ('terminated' if out is not None else 'unterminated'))
            if (out is not None) != real:
                ctx.divergence('skeleton automaton and SQLite tokenizer disagree on whether every quoted token is terminated', [t], model=out, impl=real)
    con.close()


def const_src(v):
    return repr(v).replace('datetime.', '')


def typed_constants(ctx):
    """numbers, dates, times, intervals, bytes, booleans written as constants in a query (inline literals rendered by Value.__str__ /
    SQLiteValue.__str__) and supplied as parameters, on real SQLite, compared with Python"""
    rng = ctx.rng
    COLS = {
        'i': [0, 1, -1, -5, 7, 2 ** 31, -2 ** 63, 2 ** 63 - 1, 10 ** 15],
        'f': [0.0, 1.5, -2.25, 1e21, 1e-7, 123456789.125, 3.0e-5],
        'd': [Decimal('0'), Decimal('-1.50'), Decimal('1.000001'), Decimal('12345678901234.123456'), Decimal('100')],
        'dt': [date(2020, 2, 29), date(1999, 12, 31), date(9999, 12, 31), date(1, 1, 1), date(2020, 1, 2)],
        'ts': [datetime(2020, 1, 2, 3, 4, 5, 6), datetime(2020, 1, 2, 3, 4, 5), datetime(1999, 12, 31, 23, 59, 59, 999999), datetime(2020, 1, 2)],
        'tm': [time(3, 4, 5, 6), time(0, 0), time(23, 59, 59, 999999), time(3, 4, 5)],
        'td': [timedelta(1, 2, 3), timedelta(0), timedelta(days=2, microseconds=1), timedelta(days=100, microseconds=1), timedelta(hours=5), timedelta(days=390, seconds=276, microseconds=729633)],
        'b': [True, False],
        'by': [b'\x00', b"'", b'\xff\x00abc', b'abc'],
    }
    db = Database()
    class V(db.Entity):
        i = Required(int, size=64)
        f = Required(float)
        d = Required(Decimal, 20, 6)
        dt = Required(date)
        ts = Required(datetime, 6)
        tm = Required(time, 6)
        td = Required(timedelta, 6)
        b = Required(bool)
        by = Required(bytes)
    db.bind('sqlite', ':memory:')
    db.generate_mapping(create_tables=True)
    nrows = 9
    rows = [{c: vs[j % len(vs)] for c, vs in COLS.items()} for j in range(nrows)]
    with db_session:
        for r in rows: V(**r)
    kindname = {'i': 'int', 'f': 'float', 'd': 'Decimal', 'dt': 'date', 'ts': 'datetime', 'tm': 'time', 'td': 'timedelta', 'b': 'bool', 'by': 'bytes'}
    with db_session:
        ids = [e.id for e in V.select().order_by(V.id)]
        for c, vs in COLS.items():
            for v in vs:
                for op, pyop in (('==', lambda a, b: a == b), ('<', lambda a, b: a < b)):
                    if op == '<' and c in ('b', 'by'): continue
                    exp = [i for i, r in zip(ids, rows) if pyop(r[c], v)]
                    for path in ('const', 'param'):
                        try:
                            if path == 'const': q = select('e for e in V if e.%s %s %s' % (c, op, const_src(v)))
                            elif op == '==': q = select(e for e in V if getattr(e, c) == v)
                            else: q = select(e for e in V if getattr(e, c) < v)
                            sql = q.get_sql()
                            got = sorted(e.id for e in q)
                            inline = '?' not in sql.split('WHERE')[-1]
                        except Exception as ex:
                            got = 'raised %s' % type(ex).__name__; inline = None
                        ctx.case(['typed-const', c, op, path, repr(v)], kind='typed-const:%s:%s' % (kindname[c], path))
                        if inline: ctx.count('typed-const:inline-literal:' + kindname[c])
                        if got != exp:
                            ctx.violation('e.%s %s <%s constant> with the value written as a %s %s on real SQLite' % (c, op, kindname[c], 'constant in the query' if path == 'const' else 'parameter',
                                              ('raises ' + got[7:]) if isinstance(got, str) else 'returns different rows than Python'),
                                          {'attr': c, 'type': kindname[c], 'op': op, 'path': path, 'value': repr(v), 'query': 'select(e for e in V if e.%s %s %s)' % (c, op, const_src(v))},
                                          observed=got, expected=exp,
                                          key='typed-const:%s:%s:%s' % (kindname[c], path, got[7:] if isinstance(got, str) else 'rows'))
    db.disconnect()


def param_eval_queries(ctx, strings):
    """Param.eval: parameters that are items of a tuple (paramkey (var, i, None)) and components of an entity's composite primary key
    (paramkey (var, None, j) / (var, i, j)) must be bound to exactly that item / component - real queries on real SQLite vs Python"""
    rng = ctx.rng
    pool = [s for s in strings if 0 < len(s) <= 6 and s.strip() == s][:80]
    db = Database()
    class C(db.Entity):
        a = Required(str, autostrip=False)
        b = Required(str, autostrip=False)
        n = Required(int)
        PrimaryKey(a, b, n)
        fs = Set('F')
    class F(db.Entity):
        name = Optional(str, autostrip=False)
        c = Required(C)
    db.bind('sqlite', ':memory:')
    db.generate_mapping(create_tables=True)
    with db_session:
        keys = []
        for i in range(12):
            k = (rng.choice(pool), rng.choice(pool), rng.randrange(3))
            if k in keys: continue
            keys.append(k); c = C(a=k[0], b=k[1], n=k[2])
            for j in range(2): F(name=rng.choice(pool), c=c)
        # components swapped: same strings in the other order must not match
        k = keys[0]
        if (k[1], k[0], k[2]) not in keys and k[0] != k[1]:
            keys.append((k[1], k[0], k[2])); F(name='swapped', c=C(a=k[1], b=k[0], n=k[2]))
    with db_session:
        fdata = [(f.id, f.name, (f.c.a, f.c.b, f.c.n)) for f in F.select()]
        def check(what, got, exp, inp):
            ctx.case(['param-eval', what] + inp, kind='param-eval:' + what)
            if got != exp:
                ctx.violation('a query parameter that is %s is not bound to that value (real SQLite vs Python)' % what, {'case': what, 'input': inp},
                              observed=got, expected=exp, key='param-eval:%s' % what)
        for _ in range(ctx.scale(25, 400)):
            t = tuple(rng.choice(pool) for _ in range(rng.choice([1, 2, 3, 5])))
            try: got = sorted(f.id for f in select(f for f in F if f.name in t))
            except Exception as e: got = 'raised %s' % type(e).__name__
            check('an item of a tuple', got, sorted(i for i, nm, k in fdata if nm in t), [list(t)])
        for k in keys:
            cobj = C[k]
            try: got = sorted(f.id for f in select(f for f in F if f.c == cobj))
            except Exception as e: got = 'raised %s' % type(e).__name__
            check('a component of a composite primary key', got, sorted(i for i, nm, kk in fdata if kk == k), [list(k)])
            objs = (cobj, C[keys[0]])
            try: got = sorted(f.id for f in select(f for f in F if f.c in objs))
            except Exception as e: got = 'raised %s' % type(e).__name__
            check('a key component of an entity inside a tuple', got, sorted(i for i, nm, kk in fdata if kk in (k, keys[0])), [list(k)])
    db.disconnect()
    json_path_queries(ctx)
    make_param_tie(ctx)


def make_param_tie(ctx):
    """makeParams vs the real SQLBuilder.make_param on random (paramkey, content) sequences - the content is the converter argument"""
    if not ctx.driver.ok: return
    rng = ctx.rng; reqs = []; reals = []
    for _ in range(ctx.scale(60, 1500)):
        b = SQLBuilder(FakeProvider('qmark', '"'), ['VALUE', 1])
        occ = [[rng.randrange(4), rng.randrange(6)] for _ in range(rng.choice([1, 2, 3, 5, 8]))]
        reals.append([b.make_param(Param, (k, None, None), c).converter for k, c in occ])
        reqs.append({'op': 'make_params', 'occ': occ})
    for r, real, out in zip(reqs, reals, ctx.driver('C06', reqs)):
        ctx.case(['make-param', r['occ']], kind='make-param-cache')
        if out != real:
            ctx.divergence('makeParams differs from the real make_param cache', r['occ'], model=out, impl=real)


def json_path_queries(ctx):
    """composite (JSON path) parameters in real queries on real SQLite: several paths of ONE statement that go through the same external
    variable(s) and differ only in constant keys must each be bound to their own path - compared with Python on the decoded document"""
    rng = ctx.rng
    db = Database()
    class Page(db.Entity):
        name = Required(str)
        data = Required(Json)
    db.bind('sqlite', ':memory:')
    db.generate_mapping(create_tables=True)
    docs = {'home': {'en': {'title': 'Hello', 'body': 'World', 'n': [1, 2]}, 'de': {'title': 'Hallo', 'body': 'Welt', 'n': [3, 4]}},
            'same': {'en': {'title': 'X', 'body': 'X', 'n': [5, 5]}, 'de': {'title': 'Hallo', 'body': 'Hallo', 'n': [0, 0]}},
            'swap': {'en': {'title': 'World', 'body': 'Hello', 'n': [2, 1]}, 'de': {'title': 'Welt', 'body': 'Hallo', 'n': [4, 3]}}}
    with db_session:
        for n, dd in docs.items(): Page(name=n, data=dd)
    def check(what, got, exp, inp):
        ctx.case(['json-path-param', what] + inp, kind='param-eval:json-paths')
        if got != exp:
            ctx.violation('two JSON paths of one query that share a variable and differ in a constant key are not bound to their own paths (real SQLite vs Python)',
                          {'query': what, 'input': inp}, observed=got, expected=exp, key='json-paths-sharing-variable:%s' % what)
    with db_session:
        for lang in ('de', 'en'):
            for i in (0, 1):
                def run(f):
                    try: return f()
                    except Exception as e: return 'raised %s' % type(e).__name__
                got = run(lambda: sorted(select((p.name, p.data[lang]['title'], p.data[lang]['body']) for p in Page)))
                check('select (data[lang][title], data[lang][body])', got, sorted((n, dd[lang]['title'], dd[lang]['body']) for n, dd in docs.items()), [lang])
                got = run(lambda: sorted(select((p.name, p.data[lang]['n'][i], p.data[lang]['title']) for p in Page)))
                check('select (data[lang][n][i], data[lang][title])', got, sorted((n, dd[lang]['n'][i], dd[lang]['title']) for n, dd in docs.items()), [lang, i])
                for a, b in (('Hallo', 'Welt'), ('Hallo', 'Hallo'), ('Hello', 'World'), ('X', 'X')):
                    got = run(lambda: sorted(select(p.name for p in Page if p.data[lang]['title'] == a and p.data[lang]['body'] == b)))
                    check('where data[lang][title] == a and data[lang][body] == b', got, sorted(n for n, dd in docs.items() if dd[lang]['title'] == a and dd[lang]['body'] == b), [lang, a, b])
    db.disconnect()


def temporal_values(ctx):
    """Value.__str__ / SQLiteValue / MySQLValue for dates, datetimes, times, timedeltas and ints (all Value classes x five styles) vs
    temporalStr / intStr; the model's readers (parseDate/Time/Timestamp/Interval, lexInt) applied to the REAL emitted text must give back
    the value supplied"""
    if not ctx.driver.ok: return
    rng = ctx.rng; vcs = value_classes()
    dates = [date(1, 1, 1), date(9999, 12, 31), date(2020, 2, 29), date(1999, 12, 31), date(2020, 1, 2), date(987, 6, 5)]
    times = [time(0, 0), time(23, 59, 59, 999999), time(3, 4, 5), time(3, 4, 5, 6), time(12, 0, 0, 100000), time(0, 0, 0, 1)]
    dts = [datetime(2020, 1, 2, 3, 4, 5, 6), datetime(2020, 1, 2, 3, 4, 5), datetime(1, 1, 1), datetime(9999, 12, 31, 23, 59, 59, 999999), datetime(2020, 2, 29, 0, 0, 0, 10)]
    tds = [timedelta(0), timedelta(1, 2, 3), timedelta(seconds=-1), timedelta(microseconds=-1), timedelta(days=-1), timedelta(days=-3, seconds=5, microseconds=7),
           timedelta(days=100, microseconds=1), timedelta(hours=5), timedelta(days=999999999), timedelta(days=-999999999), timedelta(seconds=59), timedelta(seconds=3600), timedelta(microseconds=999999)]
    for _ in range(ctx.scale(20, 400)):
        dates.append(date(rng.randrange(1, 10000), rng.randrange(1, 13), rng.randrange(1, 29)))
        times.append(time(rng.randrange(24), rng.randrange(60), rng.randrange(60), rng.choice([0, rng.randrange(10 ** 6)])))
        dts.append(datetime(rng.randrange(1, 10000), rng.randrange(1, 13), rng.randrange(1, 29), rng.randrange(24), rng.randrange(60), rng.randrange(60), rng.choice([0, rng.randrange(10 ** 6)])))
        tds.append(timedelta(days=rng.choice([0, 1, -1, rng.randrange(-5000, 5000)]), seconds=rng.randrange(86400), microseconds=rng.choice([0, rng.randrange(10 ** 6)])))
    items = [('date', v, [v.year, v.month, v.day], None) for v in dates]
    items += [('time', v, [v.hour, v.minute, v.second, v.microsecond], None) for v in times]
    items += [('datetime', v, [v.year, v.month, v.day, v.hour, v.minute, v.second, v.microsecond], None) for v in dts]
    items += [('delta', v, [v.seconds, v.microseconds], v.days) for v in tds]
    reqs = []; meta = []
    for kind, v, f, days in items:
        for dialect, vc in vcs.items():
            if dialect == 'generic': continue
            for style in STYLES:
                real = str(vc(style, v))
                inner = real[real.index("'") + 1: real.rindex("'")] if "'" in real else ''
                r = {'op': 'temporal', 'dialect': dialect, 'style': style, 'kind': kind, 'f': f, 'real_inner': inner.replace('%%', '%') if style in PERCENT else inner}
                if days is not None: r['days'] = days
                reqs.append(r); meta.append((kind, v, f, days, dialect, style, real))
    for (kind, v, f, days, dialect, style, real), out in zip(meta, ctx.driver('C06', reqs)):
        ctx.case(['temporal', kind, dialect, style, repr(v)], kind='temporal:%s:%s' % (kind, dialect))
        if out.get('text') is None:
            ctx.count('temporal:not-modelled:%s:%s' % (kind, dialect))      # SQLite timedelta = repr(float days): covered by the query oracle
            continue
        if out['text'] != real:
            ctx.divergence('temporalStr differs from the real Value.__str__', [kind, dialect, style, repr(v)], model=out['text'], impl=real)
        exp = ((days * 86400 + f[0]) * 10 ** 6 + f[1]) if kind == 'delta' else f
        if out['readback'] != exp:
            # the oracle DESIGN names for the dialects without a server here: the dialect reader (proved inverse of the model renderer,
            # C06_*_readback) applied to the text the REAL code emitted
            ctx.violation('an inline %s literal does not denote the value supplied: the text really emitted reads back as a different value' % kind,
                          {'kind': kind, 'value_class': dialect, 'style': style, 'value': repr(v), 'emitted': real},
                          observed=out['readback'], expected=exp, key='temporal-readback:%s:%s' % (kind, 'sqlite' if dialect == 'sqlite' else 'standard'))
    # integers: every Value class renders str(int); the numeric lexer must read it back in front of ordinary SQL text
    ints = [0, 1, -1, 9, 10, -10, 99, 100, 2 ** 31, -2 ** 63, 2 ** 63 - 1, 10 ** 30, -10 ** 30] + [rng.randrange(-10 ** 18, 10 ** 18) for _ in range(ctx.scale(30, 600))]
    reqs = []; meta = []
    for v in ints:
        for tail in ('', ' AND', ')', ', 1'):
            real = str(Value('qmark', v)) + tail
            reqs.append({'op': 'lex_int', 'text': real}); meta.append((v, tail, real))
    for (v, tail, real), out in zip(meta, ctx.driver('C06', reqs)):
        ctx.case(['lex-int', v, tail], kind='lex-int')
        if not out or out['value'] != v or out['rest'] != tail:
            ctx.divergence('lexInt does not read back a real integer literal', [v, real], model=out, impl=[v, tail])


def sv_json(v):
    if v is None: return {'k': 'none'}
    if isinstance(v, bool): return {'k': 'bool', 'v': v}
    if isinstance(v, int): return {'k': 'int', 'v': v}
    if isinstance(v, str): return {'k': 'str', 'v': v}
    if isinstance(v, bytes): return {'k': 'bytes', 'v': list(v)}
    if isinstance(v, datetime): return {'k': 'datetime', 'v': [v.year, v.month, v.day, v.hour, v.minute, v.second, v.microsecond]}
    if isinstance(v, date): return {'k': 'date', 'v': [v.year, v.month, v.day]}
    if isinstance(v, time): return {'k': 'time', 'v': [v.hour, v.minute, v.second, v.microsecond]}
    raise TypeError(v)


def db_json(v):
    """a value as sqlite3 returns it / receives it"""
    if v is None: return {'db': 'null'}
    if isinstance(v, bool): return {'db': 'int', 'v': int(v)}
    if isinstance(v, int): return {'db': 'int', 'v': v}
    if isinstance(v, str): return {'db': 'text', 'v': v}
    if isinstance(v, (bytes, memoryview)): return {'db': 'blob', 'v': list(bytes(v))}
    return {'db': '?', 'v': repr(v)}


class FakeEntityMeta(type): pass
FakeEntityMeta.__name__ = 'EntityMeta'     # Param.eval asserts type(type(value)).__name__ == 'EntityMeta'
class FakeEntity(metaclass=FakeEntityMeta):
    def __init__(self, pk): self.pk = tuple(pk)
    def _get_raw_pkval_(self): return self.pk


def param_eval_tie(ctx, strings):
    """paramEvalRaw + sqliteBind vs the real Param.eval with the real SQLite converters (tuple items, entity key components);
    sqliteConstText / sqliteRead / sqliteBind vs the real SQLiteValue, real SQLite reading the literal and real SQLite receiving the
    converted parameter - and, real against real, the constant and the parameter must denote the same SQLite value"""
    if not ctx.driver.ok: return
    rng = ctx.rng; con = sqlite_con()
    db = Database(); db.bind('sqlite', ':memory:')
    prov = db.provider
    convs = {str: prov.get_converter_by_py_type(str), int: prov.get_converter_by_py_type(int), bool: prov.get_converter_by_py_type(bool),
             bytes: prov.get_converter_by_py_type(bytes), date: prov.get_converter_by_py_type(date), datetime: prov.get_converter_by_py_type(datetime),
             time: prov.get_converter_by_py_type(time)}
    pool = [s for s in strings if len(s) <= 6 and '\x00' not in s]
    def rand_sv():
        r = rng.randrange(9)
        if r == 0: return None
        if r == 1: return rng.choice([True, False])
        if r == 2: return rng.choice([0, 1, -1, 2 ** 63 - 1, -2 ** 63, rng.randrange(-10 ** 12, 10 ** 12)])
        if r in (3, 4): return rng.choice(pool + SPECIAL[:30])
        if r == 5: return bytes(rng.randrange(256) for _ in range(rng.randrange(0, 5)))
        if r == 6: return date(rng.choice([1, 987, 2020, 9999]), rng.randrange(1, 13), rng.randrange(1, 29))
        if r == 7: return datetime(rng.choice([1, 2020, 9999]), rng.randrange(1, 13), rng.randrange(1, 29), rng.randrange(24), rng.randrange(60), rng.randrange(60), rng.choice([0, 1, rng.randrange(10 ** 6)]))
        return time(rng.randrange(24), rng.randrange(60), rng.randrange(60), rng.choice([0, 1, rng.randrange(10 ** 6)]))
    def conv_of(v): return None if v is None else convs[type(v)]
    # --- Param.eval
    reqs = []; reals = []; inputs = []
    for _ in range(ctx.scale(150, 4000)):
        nvars = rng.choice([1, 2, 3]); values = []; jvals = []
        for _v in range(nvars):
            def elem():
                if rng.random() < 0.35:
                    pk = [x for x in (rand_sv() for _ in range(rng.choice([1, 2, 3]))) ]
                    return FakeEntity(pk), {'entity': [sv_json(x) for x in pk]}
                x = rand_sv(); return x, {'scalar': sv_json(x)}
            if rng.random() < 0.5:
                es = [elem() for _ in range(rng.choice([1, 2, 4]))]
                values.append(tuple(e[0] for e in es)); jvals.append({'seq': [e[1] for e in es]})
            else:
                e = elem(); values.append(e[0]); jvals.append({'one': e[1]})
        var = rng.randrange(nvars); val = values[var]
        i = rng.randrange(len(val)) if isinstance(val, tuple) else None
        el = val[i] if i is not None else val
        j = rng.randrange(len(el.pk)) if isinstance(el, FakeEntity) else None
        target = el.pk[j] if j is not None else el
        prm = Param('qmark', (var, i, j), conv_of(target))
        try: real = db_json(prm.eval(values))
        except Exception as e: real = 'raised %s' % type(e).__name__
        reqs.append({'op': 'param_eval', 'values': jvals, 'key': [var, i, j]}); reals.append(real); inputs.append([var, i, j, repr(values)[:200]])
        ctx.count('param-eval-tie:%s%s' % ('item' if i is not None else 'whole', '+pk' if j is not None else ''))
    for inp, real, out in zip(inputs, reals, ctx.driver('C06', reqs)):
        ctx.case(['param-eval-tie'] + inp, kind='param-eval-tie')
        if out != real:
            ctx.divergence('paramEvalRaw/sqliteBind differs from the real Param.eval with the real SQLite converter', inp, model=out, impl=real)
    # --- constant vs parameter
    vals = [None, True, False, 0, -1, 2 ** 63 - 1, -2 ** 63, '', "'", '%', '%s', "a'b%", 'é😀', b'', b'\x00\xff', date(1, 1, 1), date(9999, 12, 31),
            datetime(2020, 1, 2, 3, 4, 5), datetime(2020, 1, 2, 3, 4, 5, 6), time(0, 0), time(3, 4, 5, 6)] + [rand_sv() for _ in range(ctx.scale(60, 1500))]
    reqs = []; meta = []
    for v in vals:
        for style in STYLES:
            lit = str(SQLiteValue(style, v))
            c = conv_of(v)
            bound = c.py2sql(c.val2dbval(v)) if c is not None else v
            try:
                r_lit = con.execute('SELECT %s AS x, typeof(%s)' % ((dbapi_expand(style, lit),) * 2)).fetchall()[0]
                r_par = con.execute('SELECT ? AS x, typeof(?)', (bound, bound)).fetchall()[0]
            except Exception as e:
                r_lit = r_par = None; err = 'raised %s' % type(e).__name__
            ctx.case(['const-vs-param', style, repr(v)[:40]], kind='const-vs-param:' + type(v).__name__)
            if r_lit is None or r_lit != r_par:
                ctx.violation('a value written as a constant and the same value bound as a parameter do not denote the same SQLite value',
                              {'value': repr(v), 'style': style, 'literal': lit, 'bound_after_py2sql': repr(bound)}, observed=repr(r_lit), expected=repr(r_par),
                              key='const-vs-param:%s' % type(v).__name__)
            reqs.append({'op': 'sqlite_const', 'style': style, 'sv': sv_json(v)}); meta.append((v, style, lit, r_lit, r_par))
    for (v, style, lit, r_lit, r_par), out in zip(meta, ctx.driver('C06', reqs)):
        if out['text'] != lit:
            ctx.divergence('sqliteConstText differs from the real SQLiteValue.__str__', [repr(v), style], model=out['text'], impl=lit)
        if r_lit is not None and out['read'] != db_json(r_lit[0]):
            ctx.divergence('sqliteRead differs from what real SQLite reads from the literal', [repr(v), style, lit], model=out['read'], impl=db_json(r_lit[0]))
        if r_par is not None and out['bind'] != db_json(r_par[0]):
            ctx.divergence('sqliteBind differs from what real SQLite receives for the converted parameter', [repr(v), style], model=out['bind'], impl=db_json(r_par[0]))
    con.close(); db.disconnect()


def group_concat_separators(ctx, strings):
    """the separator a program passes to group_concat - Query.group_concat, top-level group_concat(gen, sep), in-query
    group_concat(x, sep=...) non-grouped, grouped, over a collection attribute, over a sub-generator - is rendered inline as a literal:
    the database must join with exactly that string (the empty string included); real SQLite vs Python, plus the literal in the SQL text of
    the PostgreSQL / MySQL / Oracle translations"""
    import itertools as _it
    rng = ctx.rng
    seps = ['', ',', ', ', '-', "'", "''", '"', '%', '%%', '%s', '%(p1)s', '\\', "\\'", '!', '_', '?', ':p1', ' ', '\n', 'é', '\U0001F600', 'ab', "x'y%z", '0', 'None']
    more = [x for x in strings if len(x) <= 4 and '\x00' not in x]; rng.shuffle(more)
    seps = list(dict.fromkeys(seps + more[:ctx.scale(15, 300)]))
    db = Database()
    class G(db.Entity):
        k = Required(int)
        items = Set('T')
    class T(db.Entity):
        name = Required(str, autostrip=False)
        g = Required(G)
    db.bind('sqlite', ':memory:')
    db.generate_mapping(create_tables=True)
    groups = {1: ['a', "b'%"], 2: ['c,d']}
    with db_session:
        for k, names in groups.items():
            g = G(k=k)
            for n in names: T(name=n, g=g)
    allnames = [n for k in sorted(groups) for n in groups[k]]
    def joins(names, sep): return {sep.join(p) for p in _it.permutations(names)}
    def sel(src): return select(src, {'T': T, 'G': G, 'group_concat': group_concat})
    with db_session:
        ids = {t.name: str(t.id) for t in T.select()}
        for sep in seps:
            r = repr(sep)
            forms = [
                ('Query.group_concat(sep=s)', lambda: select(t.name for t in T).group_concat(sep=sep), lambda got: got in joins(allnames, sep)),
                ('Query.group_concat(s) positional', lambda: select(t.name for t in T).group_concat(sep), lambda got: got in joins(allnames, sep)),
                ('Query.group_concat on entities', lambda: select(t for t in T).group_concat(sep=sep), lambda got: got in joins([ids[n] for n in allnames], sep)),
                ('group_concat(gen, sep=s)', lambda: group_concat((t.name for t in T), sep=sep), lambda got: got in joins(allnames, sep)),
                ('select(group_concat(x, sep=const))', lambda: sel('group_concat(t.name, sep=%s) for t in T' % r)[:], lambda got: len(got) == 1 and got[0] in joins(allnames, sep)),
                ('grouped: (key, group_concat(x, sep=const))', lambda: sorted(sel('(t.g.k, group_concat(t.name, sep=%s)) for t in T' % r)),
                 lambda got: len(got) == len(groups) and all(k in groups and v in joins(groups[k], sep) for k, v in got)),
                ('grouped over a collection attribute', lambda: sorted(sel('(g.k, group_concat(g.items.name, sep=%s)) for g in G' % r)),
                 lambda got: len(got) == len(groups) and all(k in groups and v in joins(groups[k], sep) for k, v in got)),
                ('grouped over two loops, positional sep', lambda: sorted(sel('(g.k, group_concat(t.name, %s)) for g in G for t in g.items' % r)),
                 lambda got: len(got) == len(groups) and all(k in groups and v in joins(groups[k], sep) for k, v in got)),
                ('group_concat of a sub-generator', lambda: sorted(sel('(g.k, group_concat((t.name for t in T if t.g == g), sep=%s)) for g in G' % r)),
                 lambda got: len(got) == len(groups) and all(k in groups and v in joins(groups[k], sep) for k, v in got)),
            ]
            for what, run, ok in forms:
                try: got = run(); good = ok(got); sql = ' '.join((db.last_sql or '').split())
                except Exception as e: got = 'raised %s: %s' % (type(e).__name__, short(str(e), 80)); good = False; sql = None
                ctx.case(['group-concat-sep', what, sep], kind='group-concat-sep:' + what.split('(')[0].split(':')[0].strip())
                if sep == '': ctx.count('group-concat-sep:empty-separator')
                if not good:
                    ctx.violation('group_concat does not join with exactly the separator the program supplied (real SQLite)',
                                  {'form': what, 'sep': sep, 'rows': groups, 'sql': sql}, observed=repr(got)[:200],
                                  expected='the names joined by %r' % sep, key='group-concat-sep:%s:%s' % (what, json.dumps(sep if sep in ('', ',') else 'other')))
    db.disconnect()
    # dbGroupConcat / groupConcatArg vs real SQLite's group_concat with the separator bound as a parameter (and without one)
    if ctx.driver.ok:
        con = sqlite_con(); con.execute('CREATE TABLE x (v TEXT)')
        for n in allnames: con.execute('INSERT INTO x VALUES (?)', (n,))
        reals = []; reqs = []
        for sep in [None] + seps:
            reals.append(con.execute('SELECT group_concat(v) FROM x').fetchall()[0][0] if sep is None else con.execute('SELECT group_concat(v, ?) FROM x', (sep,)).fetchall()[0][0])
            reqs.append({'op': 'group_concat', 'sep': sep, 'xs': allnames})
        for r, real, out in zip(reqs, reals, ctx.driver('C06', reqs)):
            ctx.case(['group-concat-model', r['sep']], kind='group-concat-model-vs-sqlite')
            if out != real:
                ctx.divergence('dbGroupConcat differs from real SQLite group_concat', [r['sep'], allnames], model=out, impl=real)
        con.close()
    # the other dialects offline: the separator must be in the SQL text as the literal quote_str renders, the empty string included
    from pony.orm.tests.testutils import TestDatabase
    for dialect in ('postgres', 'mysql', 'oracle'):
        db = TestDatabase()
        class G(db.Entity):
            k = Required(int)
            items = Set('T')
        class T(db.Entity):
            name = Required(str)
            g = Required(G)
        db.bind(dialect, ':memory:')
        db.generate_mapping()
        with db_session:
            for sep in seps[:ctx.scale(30, 300)]:
                lit = str(Value(db.provider.paramstyle, sep))
                for what, mk in (('select(group_concat(x, sep=const))', lambda: select('group_concat(t.name, sep=%s) for t in T' % repr(sep), {'T': T, 'G': G, 'group_concat': group_concat}).get_sql()),
                                 ('grouped: (key, group_concat(x, sep=const))', lambda: select('(t.g.k, group_concat(t.name, sep=%s)) for t in T' % repr(sep), {'T': T, 'G': G, 'group_concat': group_concat}).get_sql()),
                                 ('Query.group_concat(sep=s)', lambda: (select(t.name for t in T).group_concat(sep=sep), db.sql)[1])):
                    try: sql = mk()
                    except Exception as e: sql = 'raised %s: %s' % (type(e).__name__, short(str(e), 80))
                    ctx.case(['group-concat-sep-dialect', dialect, what, sep], kind='group-concat-sep-dialect:' + dialect)
                    arg = (' SEPARATOR ' + lit + ')') if dialect == 'mysql' else (', ' + lit + ')')
                    if arg not in sql:
                        ctx.violation('the group_concat separator is not in the %s statement as the literal of exactly that string' % dialect,
                                      {'dialect': dialect, 'form': what, 'sep': sep, 'sql': ' '.join(sql.split())}, observed=' '.join(sql.split())[:300],
                                      expected='... %s' % arg, key='group-concat-sep-dialect:%s:%s' % (what, json.dumps(sep if sep in ('', ',') else 'other')))


PATH_KEYS = ['a', 'a b', 'a[-1]', 'a[#-1]', '[-', '[#', 'x[-2]y', 'a.b', '$', '$.x', '[0]', '#-1', 'x"y', 'é', '-1', '0']


def json_path_texts(ctx):
    """the JSON path text that reaches the database, systematically: string keys that contain path syntax mixed with negative and
    non-negative indexes, every element as constant or as parameter, SQLite with JSON1 on and off / generic / MySQL / PostgreSQL builders;
    built by the real build_json_path + eval_json_path, sent through real SQLite (`SELECT <path>`), compared per statement with the
    harness re-statement in which every key segment depends on that key alone"""
    rng = ctx.rng; con = sqlite_con()
    builders = {n: with_jpath(B) for n, B in builder_classes().items() if n != 'oracle'}
    idxs = [-2, -1, 0, 1]; mreqs = []; mmeta = []
    shapes = []
    for k in PATH_KEYS:
        for i in idxs:
            shapes += [(k, i), (i, k), (k, i, rng.choice(PATH_KEYS)), (rng.choice(PATH_KEYS), k, i)]
        shapes.append((k, rng.choice(PATH_KEYS)))
    if not ctx.thorough: shapes = [sh for n, sh in enumerate(shapes) if n % 2 == ctx.seed % 2 or any(isinstance(x, int) and x < 0 for x in sh)]
    for sh in shapes:
        for mask in sorted({0, (1 << len(sh)) - 1, rng.randrange(1 << len(sh)), rng.randrange(1 << len(sh))}):
            vals = {}; elems = []
            for pos, v in enumerate(sh):
                if mask >> pos & 1: vals[200 + pos] = v; elems.append(['PARAM', (200 + pos, None, None)])
                else: elems.append(['VALUE', v])
            for bname, json1 in (('sqlite', True), ('sqlite', False), ('generic', False), ('mysql', False), ('postgres', False)):
                style = rng.choice(STYLES)
                exp = py_json_path(list(sh), bname, json1)
                try:
                    b = builders[bname](FakeProvider(style, '`' if bname == 'mysql' else '"', json1), ['SELECT', ['ALL', ['JPATH'] + elems]])
                    got = exec_lowered(con, b, style, b.adapter(vals)); sql = b.sql
                except Exception as e:
                    got = 'raised %s: %s' % (type(e).__name__, short(str(e), 80)); sql = None
                ctx.case(['json-path-text', bname, json1, list(sh), mask], kind='json-path-text:%s%s' % (bname, ':json1' if json1 else ''))
                if bname != 'postgres' and mask == 0 and all(isinstance(x, int) or x.isascii() for x in sh):
                    # the Lean model of the path text (jsonPathText) against the REAL text, not against the harness re-statement
                    mreqs.append({'op': 'json_path', 'json1': bool(json1 and bname == 'sqlite'), 'items': list(sh)}); mmeta.append((bname, json1, list(sh), got))
                if any(isinstance(x, int) and x < 0 for x in sh) and any(isinstance(x, str) and ('[-' in x or '[#' in x) for x in sh):
                    ctx.count('json-path-text:negative-index-with-bracket-key')
                if got != [exp]:
                    ctx.violation('the JSON path text that reaches the database does not name the keys / indexes the program supplied (a key segment was altered or mis-quoted)',
                                  {'builder': bname, 'json1_available': json1, 'style': style, 'path': list(sh), 'parameters_at': [p for p in range(len(sh)) if mask >> p & 1], 'sql': sql},
                                  observed=repr(got), expected=repr([exp]),
                                  key='json-path-text:%s:%s' % (bname + ('+json1' if json1 else ''), json.dumps(['neg' if isinstance(x, int) and x < 0 else 'idx' if isinstance(x, int) else ('key[-' if '[-' in x else 'key') for x in sh])))
    if ctx.driver.ok and mreqs:
        for (bname, json1, sh, real), out in zip(mmeta, ctx.driver('C06', mreqs)):
            if [out] != real:
                ctx.divergence('jsonPathText differs from the path text the real eval_json_path produces', [bname, json1, sh], model=out, impl=real)
    con.close()


def json_key_queries(ctx):
    """real queries on real SQLite, JSON1 on and off: d.data[key][idx] with string keys that contain path syntax, negative and non-negative
    indexes, key and index each as a constant of the query or as a parameter - the value fetched must be the one Python's doc[key][idx] gives.
    (Keys containing a double quote are left to the path-text oracle: SQLite's path grammar cannot address them, a recorded C29 finding.)"""
    rng = ctx.rng
    keys = [k for k in PATH_KEYS if '"' not in k]
    doc = {k: [10 * n + 1, 10 * n + 2, 10 * n + 3] for n, k in enumerate(keys)}
    doc['nest'] = {k: {'v': [n, -n]} for n, k in enumerate(keys)}
    for json1 in (True, False):
        db = Database()
        class Doc(db.Entity):
            data = Required(Json)
        try:
            db.bind('sqlite', ':memory:')
            if not json1: db.provider.json1_available = False
            elif not db.provider.json1_available: ctx.count('json-key-query:json1-not-available'); continue
            db.generate_mapping(create_tables=True)
            with db_session: Doc(data=doc)
        except Exception as e:
            ctx.violation('setting up a Json entity raised', {'json1': json1, 'exception': '%s: %s' % (type(e).__name__, short(str(e), 120))}, observed='raised', expected='no exception', key='json-key-query:setup:%s' % type(e).__name__)
            continue
        with db_session:
            for key in keys:
                for idx in (-1, -3, 0, 2):
                    exp = doc[key][idx]; exp2 = doc['nest'][key]['v'][idx % 2 if idx >= 0 else -1 - (idx % 2)]
                    i2 = idx % 2 if idx >= 0 else -1 - (idx % 2)
                    forms = [('const key, const idx', lambda: select('d.data[%r][%d] for d in Doc' % (key, idx), {'Doc': Doc})[:]),
                             ('param key, const idx', lambda: select('d.data[key][%d] for d in Doc' % idx, {'Doc': Doc, 'key': key})[:]),
                             ('const key, param idx', lambda: select('d.data[%r][idx] for d in Doc' % key, {'Doc': Doc, 'idx': idx})[:]),
                             ('param key, param idx', lambda: select(d.data[key][idx] for d in Doc)[:])]
                    for what, run in forms:
                        try: got = list(run())
                        except Exception as e: got = 'raised %s: %s' % (type(e).__name__, short(str(e), 100))
                        ctx.case(['json-key-query', json1, what, key, idx], kind='json-key-query:%s' % ('json1' if json1 else 'py_json_extract'))
                        if got != [exp]:
                            ctx.violation('d.data[key][idx] does not fetch the value Python gives for that key and index (real SQLite)',
                                          {'json1_available': json1, 'form': what, 'key': key, 'idx': idx, 'sql': ' '.join((db.last_sql or '').split())[:300]},
                                          observed=repr(got), expected=repr([exp]),
                                          key='json-key-query:%s:%s:%s' % ('json1' if json1 else 'py', what, json.dumps([('key[-' if '[-' in key else 'key[#' if '[#' in key else 'key'), 'neg' if idx < 0 else 'idx'])))
                    # nested: key between two other segments, condition in WHERE
                    try: got = list(select(d.id for d in Doc if d.data['nest'][key]['v'][i2] == exp2 and d.data[key][idx] == exp))
                    except Exception as e: got = 'raised %s: %s' % (type(e).__name__, short(str(e), 100))
                    ctx.case(['json-key-query-where', json1, key, idx], kind='json-key-query:where')
                    if not (isinstance(got, list) and len(got) == 1):
                        ctx.violation('a WHERE condition on d.data[...][key][...] with a key containing path syntax does not select the row whose document has that value',
                                      {'json1_available': json1, 'key': key, 'idx': idx, 'idx2': i2, 'sql': ' '.join((db.last_sql or '').split())[:300]}, observed=repr(got), expected='one row',
                                      key='json-key-query-where:%s:%s' % ('json1' if json1 else 'py', json.dumps([('key[-' if '[-' in key else 'key[#' if '[#' in key else 'key'), 'neg' if idx < 0 else 'idx'])))
        db.disconnect()


def canon_occ(occ):
    m = {}
    return [m.setdefault(k, len(m)) for k in occ]


def run(ctx):
    if not ctx.driver.ok:
        ctx.note('driver unavailable: model ties skipped, property oracle still runs')
    import time as _t
    strings = adversarial_strings(ctx)
    ctx.extra['adversarial_strings'] = len(strings)
    timings = ctx.extra.setdefault('section_seconds', {})
    for name, f in [('literals', lambda: literals(ctx, strings)), ('mysql_witness', lambda: mysql_witness(ctx)), ('other_values', lambda: other_values(ctx)),
                    ('identifiers', lambda: identifiers(ctx, strings)), ('like_model_vs_sqlite', lambda: like_model_vs_sqlite(ctx)),
                    ('like_queries', lambda: like_queries(ctx, strings)), ('statements', lambda: statements(ctx, strings)),
                    ('builder_text_tie', lambda: builder_text_tie(ctx)), ('structure', lambda: structure(ctx, strings)), ('typed_constants', lambda: typed_constants(ctx)), ('param_eval_queries', lambda: param_eval_queries(ctx, strings)), ('temporal_values', lambda: temporal_values(ctx)), ('param_eval_tie', lambda: param_eval_tie(ctx, strings)), ('group_concat_separators', lambda: group_concat_separators(ctx, strings)), ('json_path_texts', lambda: json_path_texts(ctx)), ('json_key_queries', lambda: json_key_queries(ctx))]:
        t0 = _t.time()
        try: f()
        except Exception as ex:
            # nothing in these sections raises on the unchanged tree: the real code refused or crashed on an input of the property's domain
            import traceback
            tb = traceback.format_exc().strip().splitlines()
            ctx.violation('the real code raised %s while the check section %r supplied values of the property\'s domain' % (type(ex).__name__, name),
                          {'section': name, 'exception': '%s: %s' % (type(ex).__name__, short(str(ex), 200)), 'traceback_tail': tb[-8:]},
                          observed='raised %s' % type(ex).__name__, expected='no exception', key='section-raised:%s:%s' % (name, type(ex).__name__))
        timings[name] = round(_t.time() - t0, 2)


def replay(ctx, data):
    run(ctx)
