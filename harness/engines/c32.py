"""C32 — objects from a finished db_session are read-only snapshots.

Exhaustive (finite) enumeration on REAL Pony over a file-backed SQLite database with the recording connection of
harness/tracing.py:   session scripts (which statuses / attribute / collection load states are left over)
                    x how the session ended (commit / rollback() / exception)  x  db_session(strict=False/True)
                    x every object of the finished session  x  every operation class  x  (no db_session / a NEW db_session active)

Correspondence (ctx.divergence):
  * `SessionCache.close`: snapshot of all objects right before the session ends  --model close-->  snapshot right after;
  * every operation: model `step` applied to the REAL pre-state snapshot must give the real outcome class (exception class and
    the 'Cannot <action>' text / returned value), the real post-state snapshot, and the number of SELECTs recorded.
Property oracle on the real code alone (ctx.violation), for every operation on an object whose session is over:
  R1  no INSERT/UPDATE/DELETE/DDL is ever sent, the database dump is unchanged, and outside a new db_session no DB-API call at all;
  R2  assignment / set() / collection change / delete(): DatabaseSessionIsOver (OperationWithDeletedObjectError accepted for an
      object that was deleted) and the snapshot of every object is unchanged;
  R3  explicit loads, and reads whose value is not held in memory: DatabaseSessionIsOver, or an answer from memory without
      any statement; nothing else; on an error the snapshot is unchanged (read-bits apart);
  R4  reads of values held in memory (attribute present in _vals_, fully loaded collection): non-strict -> the value the live
      session had; strict (detached) -> DatabaseSessionIsOver;
  R5  obj.flush() with something pending: DatabaseSessionIsOver.
"""
import os, re, sqlite3, json, itertools, threading

from pony.orm import Database, Required, Optional, Set, PrimaryKey, Json, db_session, commit, rollback, flush
from pony.orm import core
from tracing import Tracer, Fault
import ponyutil


class BodyError(Exception): pass


# ---------------------------------------------------------------------------------------------------------------------
# schema + database
# ---------------------------------------------------------------------------------------------------------------------

class Env(object):
    def __init__(self, path):
        self.path = path
        self.tr = Tracer()
        db = self.db = Database()
        class G(db.Entity):
            a = Required(int)
            b = Optional(int)
            lz = Optional(int, lazy=True)
            data = Optional(Json, nullable=True)
            items = Set('I')
            tags = Set('T')
            one = Optional('O', cascade_delete=True)                # one-to-one, the column is on the other side
        class S(G):                            # G has a subclass: references to G must learn the real class of their target
            extra = Optional(int)
        class O(db.Entity):
            g = Required(G)
        class I(db.Entity):
            g = Required(G)
            w = Optional(int)
        class T(db.Entity):
            n = Required(int)
            gs = Set(G)
        self.G, self.I, self.T, self.S, self.O = G, I, T, S, O
        self.atoms = {}
        @db.on_connect(provider='sqlite')
        def fast(db, connection): connection.execute('pragma synchronous = off')     # Pony's own hook for connection set-up; speed only
        db.bind('sqlite', path, create_db=True, **self.tr.bind_kwargs(timeout=0.05))     # short busy timeout: the 'database is locked' ending
        db.generate_mapping(create_tables=True)
        self.entities = [G, I, T, S, O]
        self.attrs = []             # all attributes, model id = position
        for e in self.entities:
            for a in e._attrs_:
                if a not in self.attrs: self.attrs.append(a)
        self.aid = {a: i for i, a in enumerate(self.attrs)}
        self.raw = sqlite3.connect(path, isolation_level=None, timeout=0.05)
        self.raw.execute('pragma synchronous = off')
        self.tables = [r[0] for r in self.raw.execute("select name from sqlite_master where type='table' and name not like 'sqlite_%' order by name")]

    def reset(self):
        db = self.db
        self.tr.clear_faults()
        if core.local.db2cache:      # a session that was not closed (only a broken Pony leaves one): harness clean-up
            try: core.rollback()
            except Exception: pass
            core.local.db2cache.clear()
        db.disconnect()      # drop the pooled connection: the next session opens a new one (keeps runs independent)
        raw = self.raw
        raw.execute('begin')
        for t in self.tables: raw.execute('delete from "%s"' % t)
        raw.execute('delete from sqlite_sequence')
        raw.execute('''insert into "G" (id, classtype, a, b, lz, data, extra) values (1, 'G', 10, 11, 12, '{"k": 1, "l": [1]}', NULL),
                       (2, 'G', 20, NULL, NULL, NULL, NULL), (3, 'S', 30, 31, NULL, NULL, 7)''')
        raw.execute('insert into "O" (id, g) values (1, 1)')
        raw.execute('insert into "I" (id, g, w) values (1, 1, 5), (2, 1, NULL), (3, 3, 6)')
        raw.execute('insert into "T" (id, n) values (1, 100), (2, 200)')
        link = [t for t in self.tables if t not in ('G', 'I', 'T', 'O')][0]
        cols = [r[1] for r in raw.execute('pragma table_info("%s")' % link)]
        raw.execute('insert into "%s" (%s) values (?, ?), (?, ?)' % (link, ', '.join('"%s"' % c for c in cols)),
                    self._link_row(cols, 1, 1) + self._link_row(cols, 3, 2))
        raw.execute('commit')

    @staticmethod
    def _link_row(cols, g, t):
        return tuple(g if c.lower().startswith('g') else t for c in cols)

    def table_cols(self, table):
        if not hasattr(self, '_cols'): self._cols = {}
        if table not in self._cols: self._cols[table] = [r[1] for r in self.raw.execute('pragma table_info("%s")' % table)]
        return self._cols[table]

    def dump(self):
        try:
            return {t: self.raw.execute('select * from "%s" order by 1, 2' % t).fetchall() for t in self.tables}
        except sqlite3.OperationalError as e:
            # only a Pony that leaves the failed session's transaction open makes the file unreadable (connection release is property C19)
            return {'unreadable': str(e)}

    def attr_json(self, a):
        rev = a.reverse
        ent = self.entities.index(a.entity)
        return {'id': self.aid[a], 'ent': ent, 'kind': 'coll' if a.is_collection else ('ref' if rev else 'scalar'),
                'pk': a.pk_offset is not None, 'lazy': bool(a.lazy), 'bit': 0 if a.is_discriminator else a.entity._bits_except_volatile_[a],
                'rev': self.aid[rev] if rev else 0, 'revColl': bool(rev and rev.is_collection), 'revPk': bool(rev and rev.pk_offset is not None),
                'revBit': rev.entity._bits_except_volatile_[rev] if rev else 0,
                'refSub': bool(rev and not a.is_collection and a.py_type._subclasses_)}

    def atom(self, v):
        """non-integer scalar values (strings, Json documents) as integers: the model only needs their identity"""
        key = json.dumps(v, sort_keys=True, default=repr)
        if key not in self.atoms: self.atoms[key] = 100000 + len(self.atoms)
        return self.atoms[key]

    def close(self):
        try: self.db.disconnect()
        except Exception: pass
        self.tr.cleanup(); self.raw.close()


# ---------------------------------------------------------------------------------------------------------------------
# session scripts: what the finished session leaves behind
# ---------------------------------------------------------------------------------------------------------------------

def s_loaded_min(E): E.G[1]
def s_seed(E): E.I[1].g                      # G[1] known by key only (nothing loaded)
def s_partial(E):
    i = E.I[1]; i.g.a                        # G[1].items partially loaded (reverse side filled by the load of I[1])
def s_full(E):
    g = E.G[1]; g.items.load(); g.tags.load(); E.G[2].items.load(); E.G[2].tags.load()
def s_count(E):
    g = E.G[1]; g.items.count(); g.tags.count(); E.G[2].items.count()
def s_is_empty(E):
    E.G[1].items.is_empty(); E.G[2].tags.is_empty(); E.G[3].tags.is_empty()
def s_absent(E):
    g = E.G[1]; E.T[2] in g.tags; E.T[1] in g.tags
def s_m2m_reverse(E):
    t = E.T[1]; t.gs.load(); E.G[1]; E.G[3]
def s_lazy(E): E.G[1].lz
def s_read(E):
    g = E.G[1]; g.a; g.b; i = E.I[1]; i.w; i.g
def s_modified(E):
    g = E.G[1]; g.items.load(); g.a = 77; g.b = None
def s_rel_modified(E):
    g = E.G[1]; g3 = E.G[3]; i = E.I[1]; i.g = g3; g.tags.add(E.T[2]); g.tags.remove(E.T[1])
def s_created(E): E.G(a=5)                   # nothing else: no connection unless the session commits
def s_created_graph(E):
    t = E.T[1]; n = E.G(a=5, b=6, tags=[t]); E.I(g=n, w=1); E.T(n=9, gs=[n])
def s_delete(E): E.G[2].delete()
def s_delete_cascade(E):
    g = E.G[1]; g.tags.load(); g.delete()
def s_cancelled(E):
    n = E.G(a=5); n.delete()
def s_cancelled_conn(E):
    E.G[1]; n = E.G(a=5); E.I(g=n); n.delete()
def s_json(E): E.G[1].data; E.G[2].data
def s_json_modified(E): E.G[1].data['k'] = 2
def s_json_deleted(E):
    g = E.G[1]; g.data; g.tags.load(); g.delete()
def s_one(E):
    g = E.G[1]; g.one; E.O[1].g; E.G[2].one
def s_subclass(E):
    E.G[3].extra; E.I[3].g; E.I[1]                      # G[3] is an S; I[1].g stays a seed of an entity with subclasses
def s_seed_raw(E): E.I(g=1, w=2); E.O(g=2)            # references given by raw key: seeds, and no connection unless the session commits
def s_failed_flush(E):
    g = E.G[2]; g.items.load(); E.I(id=1, g=g)                   # then flush(): the INSERT collides with the row I[1], the session fails inside flush()

SCRIPTS = [('loaded_min', s_loaded_min), ('seed', s_seed), ('partial', s_partial), ('full', s_full), ('count', s_count),
           ('is_empty', s_is_empty), ('absent', s_absent), ('m2m_reverse', s_m2m_reverse), ('lazy', s_lazy), ('read', s_read),
           ('modified', s_modified), ('rel_modified', s_rel_modified), ('created', s_created), ('created_graph', s_created_graph),
           ('delete', s_delete), ('delete_cascade', s_delete_cascade), ('cancelled', s_cancelled), ('cancelled_conn', s_cancelled_conn),
           ('json', s_json), ('json_modified', s_json_modified), ('json_deleted', s_json_deleted), ('one', s_one), ('subclass', s_subclass), ('seed_raw', s_seed_raw),
           ('failed_flush', s_failed_flush)]
# how the session ends:  commit (normal exit) / rollback() / exception in the body /
#   commit_fault: the COMMIT at the exit raises (fault injected into the recording connection) -> SessionCache.commit's except path
#   commit_locked: the COMMIT at the exit really fails with 'database is locked' (another connection holds a read transaction)
# and, for the script `failed_flush`, `exit`: the flush inside the exit's commit() fails (instead of an explicit flush() in the body)
ENDINGS = ['commit', 'rollback', 'error', 'commit_fault', 'commit_locked']


# ---------------------------------------------------------------------------------------------------------------------
# snapshots
# ---------------------------------------------------------------------------------------------------------------------

class Run(object):
    """one finished session: the objects it left, their stable indices, the snapshots around close"""
    def __init__(self, E):
        self.E = E; self.objs = []; self.index = {}; self.cache = None
        self.live = None; self.strict = None; self.had_connection = None; self.close_tie = True
        self.wrappers = {}       # (object, attr) -> the Tracked document obtained DURING the session (it outlives the session)

    def idx(self, o):
        i = self.index.get(o)
        if i is None:
            # an object of another session (only `is_empty` under a new db_session can put one into an old collection)
            pk = o._pkval_ if isinstance(o._pkval_, int) else 0
            i = 1000 + 100 * self.E.entities.index(type(o)) + pk
        return i

    def collect(self):
        objs = list(self.cache.objects)
        objs.sort(key=lambda o: (self.E.entities.index(type(o)), o._pkval_ is None, o._pkval_ if o._pkval_ is not None else o._newid_))
        self.objs = objs; self.index = {o: i for i, o in enumerate(objs)}

    def val(self, v):
        if v is None: return None
        if isinstance(v, core.Entity): return self.idx(v)
        if isinstance(v, core.SetData):
            f = lambda s: None if s is None else sorted(self.idx(x) for x in s)
            return {'items': sorted(self.idx(x) for x in v), 'full': bool(v.is_fully_loaded), 'count': v.count,
                    'added': f(v.added), 'removed': f(v.removed), 'absent': f(v.absent)}
        if isinstance(v, bool) or not isinstance(v, int): return self.E.atom(v if not hasattr(v, 'get_untracked') else v.get_untracked())
        return v

    def snap_obj(self, o):
        aid = self.E.aid
        vals = o._vals_; dbvals = o._dbvals_
        return {'ent': self.E.entities.index(type(o)), 'status': o._status_, 'cache': o._session_cache_ is not None,
                'vals': None if vals is None else sorted([aid[a], self.val(v)] for a, v in vals.items()),
                'dbvals': None if dbvals is None else sorted([aid[a], self.val(v)] for a, v in dbvals.items()),
                'rbits': o._rbits_, 'wbits': o._wbits_, 'savePos': o._save_pos_, 'seed': self.is_seed(o)}

    def is_seed(self, o):
        seeds = self.cache.seeds
        return bool(seeds is not None and o in seeds.get(type(o)._pk_attrs_, ()))

    def snapshot(self):
        c = self.cache
        return {'alive': bool(c.is_alive), 'savedPending': bool(c.saved_objects), 'objs': [self.snap_obj(o) for o in self.objs]}

    def extra(self):
        docs = sorted([self.index.get(o, -1), self.E.aid[a], json.dumps(w.get_untracked(), sort_keys=True)] for (o, a), w in self.wrappers.items())
        return [[repr(o._pkval_), o._newid_] for o in self.objs] + [docs]

    def capture_wrappers(self):
        from pony.orm.ormtypes import TrackedValue
        for o in list(self.cache.objects):
            if o._vals_ is None: continue
            for a, v in o._vals_.items():
                if isinstance(v, TrackedValue) and isinstance(v, dict): self.wrappers[(o, a)] = v


def canon_world(w):
    w = json.loads(json.dumps(w))
    for o in w['objs']:
        for k in ('vals', 'dbvals'):
            if o[k] is not None: o[k] = sorted(o[k], key=lambda p: p[0])
        if o['vals'] is not None:
            for p in o['vals']:
                if isinstance(p[1], dict):
                    for f in ('items', 'added', 'removed', 'absent'):
                        if p[1].get(f) is not None: p[1][f] = sorted(p[1][f])
    return w

def strip_rbits(w):
    w = json.loads(json.dumps(w))
    for o in w['objs']: o['rbits'] = None
    return w


def run_session(E, script, ending, strict):
    """execute one script on the real code; returns the Run (with live + detached snapshots) and how the session ended"""
    E.reset()
    R = Run(E); R.strict = strict
    outcome = 'ok'
    reader = None
    try:
        with db_session(strict=strict):
            R.cache = E.db._get_cache()
            name, fn = script
            fn(E)
            if name != 'failed_flush':
                if ending == 'commit': commit()
                elif ending in ('commit_fault', 'commit_locked'): flush()     # statuses are final; only the COMMIT itself is left for the exit
            R.capture_wrappers()
            R.collect()
            R.live = R.snapshot()
            R.had_connection = R.cache.connection is not None
            R.wrote = bool(R.cache.in_transaction)
            if name == 'failed_flush':
                R.close_tie = False; R.had_connection = True
                if ending != 'exit': flush()
            if ending == 'rollback': rollback()
            elif ending == 'error': raise BodyError('body')
            elif ending == 'commit_fault': E.tr.set_faults([Fault(call='commit', nth=0)])
            elif ending == 'commit_locked':
                reader = sqlite3.connect(E.path, isolation_level=None)
                reader.execute('begin'); reader.execute('select count(*) from "G"').fetchall()       # holds a SHARED lock on the file
    except BodyError: outcome = 'BodyError'
    except core.TransactionIntegrityError: outcome = 'TransactionIntegrityError'
    except core.CommitException: outcome = 'CommitException'
    finally:
        E.tr.clear_faults()
        if reader is not None:
            reader.rollback(); reader.close()
    return R, outcome


# ---------------------------------------------------------------------------------------------------------------------
# operations
# ---------------------------------------------------------------------------------------------------------------------

def wrapper_of(o, a):
    return a.py_type._get_set_wrapper_subclass_()(o, a)

def ops_for(E, R, o):
    """every operation class for object o: (model op json, callable, tags)"""
    ent = type(o); out = []
    AJ = E.attr_json
    for a in ent._attrs_:
        if a.is_discriminator: continue     # class constant: `__get__` returns the class's value, `__set__` always raises TypeError, `load` is never called
        if not a.is_collection:
            out.append(({'k': 'getAttr', 'attr': AJ(a)}, (lambda a=a: getattr(o, a.name)), 'read'))
            out.append(({'k': 'attrLoad', 'attr': AJ(a)}, (lambda a=a: a.load(o) and None), 'load'))
            if a.py_type is Json:
                out.append(({'k': 'attrChanged', 'attr': AJ(a)}, (lambda a=a: o._attr_changed_(a)), 'mutate'))
                doc = R.wrappers.get((o, a))
                if doc is not None:
                    # in-place mutators of the Tracked document obtained during the session (tracked_method): refused AND nothing changed
                    out.append(({'k': 'attrChanged', 'attr': AJ(a), 'via': 'dict.__setitem__'}, (lambda doc=doc: doc.__setitem__('k', 5)), 'mutate'))
                    out.append(({'k': 'attrChanged', 'attr': AJ(a), 'via': 'dict.pop'}, (lambda doc=doc: doc.pop('k', None) and None), 'mutate'))
                    if isinstance(doc.get('l'), list):
                        out.append(({'k': 'attrChanged', 'attr': AJ(a), 'via': 'list.append'}, (lambda doc=doc: doc['l'].append(2)), 'mutate'))
                        out.append(({'k': 'attrChanged', 'attr': AJ(a), 'via': 'list.clear'}, (lambda doc=doc: doc['l'].clear()), 'mutate'))
            if a.pk_offset is None:
                newv = 99
                if a.reverse:
                    cands = [x for x in R.objs if isinstance(x, a.py_type) and x is not o]
                    newv = cands[0] if cands else None
                out.append(({'k': 'setAttr', 'attr': AJ(a)}, (lambda a=a, v=newv: setattr(o, a.name, v)), 'mutate'))
        else:
            w = wrapper_of(o, a)
            items = [x for x in R.objs if isinstance(x, a.py_type)]
            arg = items[:1]
            out.append(({'k': 'collGet', 'attr': AJ(a)}, (lambda a=a: getattr(o, a.name)), 'wrapper'))
            out.append(({'k': 'collAssign', 'attr': AJ(a), 'same': True}, (lambda a=a, w=w: setattr(o, a.name, w)), 'noop'))
            out.append(({'k': 'collAssign', 'attr': AJ(a), 'same': False}, (lambda a=a, arg=arg: setattr(o, a.name, arg)), 'mutate'))
            out.append(({'k': 'collAdd', 'attr': AJ(a)}, (lambda w=w, arg=arg: w.add(arg)), 'mutate'))
            out.append(({'k': 'collRemove', 'attr': AJ(a)}, (lambda w=w, arg=arg: w.remove(arg)), 'mutate'))
            out.append(({'k': 'collAdd', 'attr': AJ(a), 'via': 'iadd'}, (lambda w=w, arg=arg: w.__iadd__(arg) and None), 'mutate'))
            out.append(({'k': 'collRemove', 'attr': AJ(a), 'via': 'isub'}, (lambda w=w, arg=arg: w.__isub__(arg) and None), 'mutate'))
            out.append(({'k': 'collClear', 'attr': AJ(a)}, (lambda w=w: w.clear()), 'mutate'))
            out.append(({'k': 'collStr', 'attr': AJ(a)}, (lambda w=w: str(w)), 'other'))
            kw = {[x for x in a.py_type._attrs_ if not x.is_collection and x.pk_offset is None and not x.reverse and x.is_required][0].name: 1} \
                 if [x for x in a.py_type._attrs_ if not x.is_collection and x.pk_offset is None and not x.reverse and x.is_required] else {}
            out.append(({'k': 'collCreate', 'attr': AJ(a)}, (lambda w=w, kw=kw: w.create(**kw) and None), 'newobj'))
            out.append(({'k': 'collCopy', 'attr': AJ(a)}, (lambda w=w: w.copy()), 'read'))
            out.append(({'k': 'collCopy', 'attr': AJ(a), 'via': 'iter'}, (lambda w=w: set(iter(w))), 'read'))
            out.append(({'k': 'collLen', 'attr': AJ(a)}, (lambda w=w: len(w)), 'read'))
            out.append(({'k': 'collCount', 'attr': AJ(a)}, (lambda w=w: w.count()), 'read'))
            out.append(({'k': 'collIsEmpty', 'attr': AJ(a)}, (lambda w=w: w.is_empty()), 'read'))
            for it in items:
                out.append(({'k': 'collContains', 'attr': AJ(a), 'item': R.idx(it)}, (lambda w=w, it=it: it in w), 'read'))
            out.append(({'k': 'collLoad', 'attr': AJ(a)}, (lambda w=w: w.load()), 'load'))
            out.append(({'k': 'collSelect', 'attr': AJ(a)}, (lambda w=w: w.select()), 'query'))
    plain = [a for a in ent._attrs_ if not a.is_collection and a.pk_offset is None and not a.reverse and not a.is_discriminator and a.py_type is int]
    refs = [a for a in ent._attrs_ if not a.is_collection and a.pk_offset is None and a.reverse]
    kw = {plain[0].name: 98} if plain else {refs[0].name: ([x for x in R.objs if isinstance(x, refs[0].py_type)] or [None])[0]}
    out.append(({'k': 'setMany'}, (lambda kw=kw: o.set(**kw)), 'mutate'))
    out.append(({'k': 'delete'}, (lambda: o.delete()), 'mutate'))
    out.append(({'k': 'flush'}, (lambda: o.flush()), 'flush'))
    out.append(({'k': 'load'}, (lambda: o.load()), 'load'))
    out.append(({'k': 'loadInternal'}, (lambda: o._load_()), 'load'))
    for wc, wl in ((False, False), (True, True)):
        attrs = ent._get_attrs_(None, None, wc, wl)
        out.append(({'k': 'toDict', 'attrs': [AJ(a) for a in attrs], 'wc': wc},
                    (lambda wc=wc, wl=wl, attrs=attrs: ('dict', attrs, o.to_dict(with_collections=wc, with_lazy=wl, related_objects=True))), 'read'))
    G, I, T = E.G, E.I, E.T
    if isinstance(o, G): mk = lambda: I(g=o)
    elif ent is I: mk = lambda: G(a=1, items=[o])
    elif ent is E.O: mk = lambda: G(a=1, one=o)
    else: mk = lambda: G(a=1, tags=[o])
    out.append(({'k': 'useAsRef'}, (lambda: mk() and None), 'newobj'))
    return out


def canon_result(R, r):
    if isinstance(r, tuple) and len(r) == 3 and r[0] == 'dict':
        _, attrs, d = r
        return {'dict': [[R.E.aid[a], canon_value(R, d[a.name])] for a in attrs]}
    if r is None: return {'value': None}      # refined by the caller (noop vs None value)
    return {'value': canon_value(R, r)}

def canon_value(R, v):
    if v is None: return None
    if isinstance(v, bool): return v
    if isinstance(v, int): return v
    if isinstance(v, core.Entity): return R.idx(v)
    if isinstance(v, (set, frozenset, list, tuple)): return {'items': sorted(R.idx(x) for x in v)}
    if isinstance(v, core.SetInstance): return 'wrapper'
    if isinstance(v, core.Query): return 'query'
    if isinstance(v, str) and v.endswith('([...])'): return '...'
    return R.E.atom(v if not hasattr(v, 'get_untracked') else v.get_untracked())

def canon_model_out(out):
    out = json.loads(json.dumps(out))
    def fix(v):
        if isinstance(v, dict) and 'items' in v: v['items'] = sorted(v['items'])
        return v
    if 'value' in out: out['value'] = fix(out['value'])
    if 'dict' in out: out['dict'] = [[k, fix(v)] for k, v in out['dict']]
    return out

def real_outcome(R, fn, kind):
    try:
        r = fn()
    except AssertionError:
        return {'error': 'AssertionError'}
    except core.DatabaseSessionIsOver as e:
        msg = str(e); act = msg[len('Cannot '):].split(' ' + type(R.objs[0]).__name__ + '[')[0] if msg.startswith('Cannot ') else msg
        for a in ('load attribute', 'read value of', 'assign new value to', 'load collection', 'change collection', 'load object', 'delete object', 'change object', 'flush object'):
            if msg.startswith('Cannot ' + a + ' '): act = a
        return {'error': 'DatabaseSessionIsOver', 'action': act}
    except core.TransactionError as e:
        if type(e) is core.TransactionError:
            return {'error': 'TransactionError', 'why': 'mixed' if 'mix objects' in str(e) else ('db_session required' if 'db_session is required' in str(e) else str(e))}
        return {'error': type(e).__name__}
    except Exception as e:
        return {'error': type(e).__name__}
    if kind in ('mutate', 'flush', 'load', 'noop', 'newobj') and r is None: return {'noop': True}
    return canon_result(R, r)


# ---------------------------------------------------------------------------------------------------------------------
# the property oracle (real code only)
# ---------------------------------------------------------------------------------------------------------------------

DEL = ('marked_to_delete', 'deleted', 'cancelled')
WRITE_KINDS = ('insert', 'update', 'delete', 'ddl', 'other')

def held_in_memory(pre_obj, op, world=None):
    """is the value the read asks for held in the object (the property's 'values that were loaded')"""
    vals = pre_obj['vals']
    k = op['k']
    if vals is None: return None          # strict: nothing is held
    d = {p[0]: p[1] for p in vals}
    if k == 'getAttr':
        if op['attr']['id'] not in d: return False
        if op['attr'].get('refSub') and pre_obj['cache'] and isinstance(d[op['attr']['id']], int) and world is not None:
            t = d[op['attr']['id']]
            if t < len(world['objs']) and world['objs'][t].get('seed'): return False     # the real class of the target is not known yet
        return True
    if k in ('collCopy', 'collLen', 'collCount', 'collIsEmpty', 'collContains'):
        sd = d.get(op['attr']['id'])
        return isinstance(sd, dict) and sd['full']
    return False

def collection_truth(E, R, o, attr_id, dump):
    """world indices of the items of collection `attr` of object o according to the raw database dump (None: not derivable)"""
    a = E.attrs[attr_id]; rev = a.reverse
    if o._pkval_ is None: return None
    def idx_of(ent, pk):
        for i, x in enumerate(R.objs):
            if isinstance(x, ent) and x._pkval_ == pk: return i
        cls = ent
        return 1000 + 100 * E.entities.index(cls) + pk
    if rev.is_collection:
        table = a.table if isinstance(a.table, str) else a.table[-1]
        cols = E.table_cols(table)
        mine, other = cols.index(rev.columns[0]), cols.index(a.columns[0])
        return [idx_of(a.py_type, r[other]) for r in dump[table] if r[mine] == o._pkval_]
    table = rev.entity._root_._table_
    table = table if isinstance(table, str) else table[-1]
    cols = E.table_cols(table)
    c = cols.index(rev.columns[0])
    return [idx_of(rev.entity, r[0]) for r in dump[table] if r[c] == o._pkval_]


def oracle(ctx, R, E, case, op, kind, o_i, pre, post, extra_pre, extra_post, out, events, dump_pre, dump_post, ambient, live_val):
    status = pre['objs'][o_i]['status']
    # a strict session that had a connection must leave nothing readable (a strict session that never connected is not detached
    # by SessionCache.close at all: the property allows either answer there)
    strictly_detached = pre['objs'][o_i]['vals'] is None or (case['strict'] and R.had_connection)
    k = op['k']
    def viol(what, key, observed, expected):
        ctx.violation(what, dict(case, op=op_brief(op), object_status=status, ambient_session=ambient), observed=observed, expected=expected, key=key)
    # R1
    writes = [e for e in events if e['call'] in ('execute', 'executemany') and e['kind'] in WRITE_KINDS]
    if writes or dump_pre != dump_post:
        viol('an operation on an object of a finished session wrote to the database', 'write:%s' % k, [e['sql'] for e in writes], 'no statement')
    if not ambient and events:
        viol('an operation on an object of a finished session used the database connection outside any db_session', 'dbapi:%s' % k,
             [[e['call'], e['kind']] for e in events], 'no DB-API call')
    selects = [e for e in events if e['call'] == 'execute' and e['kind'] == 'select']
    err = out.get('error')
    refused = err == 'DatabaseSessionIsOver' or (err == 'OperationWithDeletedObjectError' and status in DEL)
    unchanged = (post == pre and extra_pre == extra_post)
    unchanged_mod_rbits = (strip_rbits(post) == strip_rbits(pre) and extra_pre == extra_post)
    if kind == 'mutate':
        if not refused:
            viol('a modification of an object of a finished session was not refused with a session-is-over error', 'mutate:%s:%s' % (k, err or 'no-error'), out, 'DatabaseSessionIsOver')
        if not unchanged:
            viol('a refused modification changed the object', 'mutate-changed:%s' % k, diff_worlds(pre, post), 'unchanged')
    elif kind == 'load':
        if not refused:
            viol('an explicit load on an object of a finished session was not refused with a session-is-over error', 'load:%s:%s' % (k, err or 'no-error'), out, 'DatabaseSessionIsOver')
        if not unchanged:
            viol('a refused load changed the object', 'load-changed:%s' % k, diff_worlds(pre, post), 'unchanged')
    elif kind == 'flush':
        if status in ('created', 'modified', 'marked_to_delete') and not refused:
            viol('obj.flush() of an object with pending changes after its session ended does not raise a session-is-over error',
                 'flush:pending:%s' % (err or 'no-error'), out, 'DatabaseSessionIsOver')
        if not unchanged:
            viol('flush changed an object of a finished session', 'flush-changed', diff_worlds(pre, post), 'unchanged')
    elif kind == 'read':
        held = held_in_memory(pre['objs'][o_i], op, pre)
        if selects:
            viol('a read on an object of a finished session queried the database instead of raising a session-is-over error',
                 'read-sql:%s' % k, {'out': out, 'sql': [e['sql'] for e in selects]}, 'DatabaseSessionIsOver')
        if held and not strictly_detached:
            if status in DEL and err == 'OperationWithDeletedObjectError': pass
            elif k == 'getAttr' and status in ('deleted', 'cancelled') and err == 'OperationWithDeletedObjectError': pass
            elif err:
                viol('a value held by an object of a finished non-strict session is not readable', 'read-held:%s:%s' % (k, err), out, 'the value')
            elif live_val is not None and out != live_val:
                viol('a value read after the session differs from what the session held', 'read-held-value:%s' % k, out, live_val)
        elif strictly_detached:
            if not refused:
                viol('a read on an object of a finished STRICT session was not refused', 'read-strict:%s:%s' % (k, err or 'no-error'), out, 'DatabaseSessionIsOver')
        else:
            # not held: a session-is-over error, or an answer from memory without a statement
            if err and not refused:
                viol('a read that needs the database on an object of a finished session raises %s instead of a session-is-over error' % err,
                     'read-unloaded:%s:%s' % (k, err), out, 'DatabaseSessionIsOver')
        # independent truth for collection answers (held or answered from partial knowledge): after a session that COMMITTED the
        # database holds exactly what the session saw, so the answer must agree with the rows read through the raw connection
        if not err and case['ending'] == 'commit' and status not in DEL and k in ('collCopy', 'collLen', 'collCount', 'collIsEmpty', 'collContains') \
                and 'unreadable' not in dump_pre:
            truth = collection_truth(E, R, R.objs[o_i], op['attr']['id'], dump_pre)
            if truth is not None:
                v = out.get('value')
                if k == 'collCopy': exp = {'items': sorted(truth)}
                elif k in ('collLen', 'collCount'): exp = len(truth)
                elif k == 'collIsEmpty': exp = not truth
                else: exp = op['item'] in truth
                ctx.count('truth-checked:%s:%s' % (k, 'held' if held else 'from-partial-knowledge'))
                if v != exp:
                    viol('a collection read on an object of a finished (committed) session gave an answer that differs from the database', 'read-wrong-answer:%s' % k,
                         out, {'value': exp})
        if err and not unchanged_mod_rbits:
            viol('a failing read changed the object of a finished session', 'read-changed:%s' % k, diff_worlds(pre, post), 'unchanged')
        if not err and k != 'collIsEmpty' and not unchanged_mod_rbits:
            viol('a read changed the object of a finished session', 'read-ok-changed:%s' % k, diff_worlds(pre, post), 'unchanged')
    else:
        if not unchanged and k not in ('useAsRef', 'collCreate'):
            viol('an operation changed the object of a finished session', 'other-changed:%s' % k, diff_worlds(pre, post), 'unchanged')
        if k in ('useAsRef', 'collCreate') and (not err or not unchanged):
            viol('an object of a finished session was accepted as a reference of a new object', 'useAsRef:%s' % (err or 'no-error'), out, 'TransactionError')


def op_brief(op):
    b = {'k': op['k']}
    if 'attr' in op: b['attr'] = op['attr']['id']
    for f in ('same', 'item', 'via', 'wc'):
        if f in op: b[f] = op[f]
    return b

def diff_worlds(pre, post):
    d = []
    for i, (a, b) in enumerate(zip(pre['objs'], post['objs'])):
        for k in a:
            if a[k] != b[k]: d.append([i, k, a[k], b[k]])
    return d[:6]


# ---------------------------------------------------------------------------------------------------------------------
# run
# ---------------------------------------------------------------------------------------------------------------------

def in_other_thread(f):
    def g():
        box = {}
        def t():
            try: box['r'] = ('ok', f())
            except BaseException as e: box['r'] = ('err', e)
        th = threading.Thread(target=t, name='c32-other'); th.start(); th.join()
        if box['r'][0] == 'err': raise box['r'][1]
        return box['r'][1]
    return g


def two_sessions(ctx, E, scripts):
    """objects of TWO different finished sessions in one call (oracle only: the model has one cache per world):
    a.coll.add(b) / a.coll.remove(b) / a.ref = b must be refused and change neither object; `b in a.coll` must not touch the database"""
    for script in scripts:
        if script[0] == 'failed_flush': continue
        for strict in (False, True):
            A, _ = run_session(E, script, 'commit', strict)
            keepA = list(A.objs)
            B, _ = run_session(E, script, 'commit', strict)
            for a in keepA:
                for attr in type(a)._attrs_:
                    if attr.is_discriminator or attr.pk_offset is not None or not attr.reverse: continue
                    bs = [b for b in B.objs if isinstance(b, attr.py_type)][:2]
                    for b in bs:
                        if attr.is_collection:
                            w = wrapper_of(a, attr)
                            calls = [('add', lambda: w.add(b), True), ('remove', lambda: w.remove(b), True), ('contains', lambda: b in w, False)]
                        else:
                            calls = [('assign', lambda: setattr(a, attr.name, b), True)]
                        for name, f, mut in calls:
                            preA = canon_world(A.snapshot()); preB = canon_world(B.snapshot()); m = E.tr.mark()
                            try: f(); err = None
                            except core.DatabaseSessionIsOver: err = 'DatabaseSessionIsOver'
                            except core.OperationWithDeletedObjectError: err = 'OperationWithDeletedObjectError'
                            except Exception as e: err = type(e).__name__
                            ev = E.tr.db_events(E.tr.since(m))
                            changed = strip_rbits(canon_world(A.snapshot())) != strip_rbits(preA) or strip_rbits(canon_world(B.snapshot())) != strip_rbits(preB)
                            inp = {'script': script[0], 'strict': strict, 'op': name, 'attr': attr.name, 'a': repr(a), 'b': repr(b), 'two_sessions': True}
                            ctx.case(['two-sessions', script[0], strict, name, attr.name, a._status_, b._status_], kind='two-sessions:' + name)
                            if ev:
                                ctx.violation('an operation mixing objects of two finished sessions used the database', inp, observed=[[e['call'], e['kind']] for e in ev], expected='no DB-API call', key='two-sessions:dbapi:%s' % name)
                            if changed:
                                ctx.violation('an operation mixing objects of two finished sessions changed an object', inp, observed=err, expected='unchanged', key='two-sessions:changed:%s' % name)
                            if mut and err not in ('DatabaseSessionIsOver', 'OperationWithDeletedObjectError'):
                                ctx.violation('a modification mixing objects of two finished sessions was not refused with a session-is-over error', inp,
                                              observed=err or 'no error', expected='DatabaseSessionIsOver', key='two-sessions:%s:%s' % (name, err or 'no-error'))


def stale_arguments(ctx, E, scripts, pending, per_entity=2):
    """objects of a FINISHED session used as arguments of operations on LIVE objects of another session: bare instance and inside
    list / set / tuple, for add / remove / += / -= / assignment / set() / constructor keyword / create(), for every relationship kind.
    Every call must raise, must leave the finished session's snapshot and the database unchanged; the model (Op.staleArg) says
    TransactionError('An attempt to mix objects belonging to different transactions').  Each call runs in its own live db_session."""
    G, I, T, S, O = E.G, E.I, E.T, E.S, E.O
    def live_of(ent):
        return live_object(E, ent)
    def shapes(x): return [('bare', x), ('list', [x]), ('set', {x}), ('tuple', (x,))] if ctx.thorough else [('bare', x), ('list', [x]), ('tuple', (x,))][:2 + (ctx.seed % 2)]
    for script in scripts:
        if script[0] == 'failed_flush': continue
        for strict in (False, True):
            A, _ = run_session(E, script, 'commit', strict)
            seen = {}
            for s_i, st in enumerate(A.objs):
                if st._pkval_ is None: continue
                n = seen.get(type(st), 0)
                if n >= per_entity: continue
                seen[type(st)] = n + 1
                calls = []       # (label, callable executed inside a fresh live session)
                for ent in (G, I, T, O):
                    for attr in ent._attrs_:
                        if not attr.reverse or attr.is_discriminator or not isinstance(st, attr.py_type): continue
                        if attr.is_collection:
                            for sh, x in shapes(st):
                                calls.append(('%s.%s.add(%s)' % (ent.__name__, attr.name, sh), lambda ent=ent, attr=attr, x=x: getattr(live_of(ent), attr.name).add(x)))
                                calls.append(('%s.%s.remove(%s)' % (ent.__name__, attr.name, sh), lambda ent=ent, attr=attr, x=x: getattr(live_of(ent), attr.name).remove(x)))
                                calls.append(('%s.%s = %s' % (ent.__name__, attr.name, sh), lambda ent=ent, attr=attr, x=x: setattr(live_of(ent), attr.name, x)))
                                calls.append(('%s.%s += %s' % (ent.__name__, attr.name, sh), lambda ent=ent, attr=attr, x=x: getattr(live_of(ent), attr.name).__iadd__(x)))
                                calls.append(('%s.set(%s=%s)' % (ent.__name__, attr.name, sh), lambda ent=ent, attr=attr, x=x: live_of(ent).set(**{attr.name: x})))
                                for when in ('first', 'later'):
                                    pre_q = (lambda: None) if when == 'first' else (lambda: E.T.select().first())
                                    calls.append(('%s(%s=%s) [%s]' % (ent.__name__, attr.name, sh, when), lambda ent=ent, attr=attr, x=x, pre_q=pre_q: (pre_q(), new_object(E, ent, {attr.name: x}, first=(when == 'first')))))
                        else:
                            # keyword lookups with the stale object as the key, and the constructor, as the FIRST thing in the session
                            # (the new session has no cache yet) and after a query
                            for when in ('first', 'later'):
                                pre_q = (lambda: None) if when == 'first' else (lambda: E.T.select().first())
                                calls.append(('%s.get(%s=bare) [%s]' % (ent.__name__, attr.name, when), lambda ent=ent, attr=attr, pre_q=pre_q: (pre_q(), ent.get(**{attr.name: st}))))
                                calls.append(('%s.exists(%s=bare) [%s]' % (ent.__name__, attr.name, when), lambda ent=ent, attr=attr, pre_q=pre_q: (pre_q(), ent.exists(**{attr.name: st}))))
                                calls.append(('%s.select(%s=bare) [%s]' % (ent.__name__, attr.name, when), lambda ent=ent, attr=attr, pre_q=pre_q: (pre_q(), ent.select(**{attr.name: st})[:])))
                                calls.append(('%s(%s=bare) [%s]' % (ent.__name__, attr.name, when), lambda ent=ent, attr=attr, pre_q=pre_q: (pre_q(), new_object(E, ent, {attr.name: st}, first=(when == 'first')))))
                            calls.append(('%s.%s = bare' % (ent.__name__, attr.name), lambda ent=ent, attr=attr: setattr(live_of(ent), attr.name, st)))
                            calls.append(('%s.set(%s=bare)' % (ent.__name__, attr.name), lambda ent=ent, attr=attr: live_of(ent).set(**{attr.name: st})))
                        # create() on a live collection whose item entity has this relationship attribute
                        for cattr in [a for e2 in (G, I, T, O) for a in e2._attrs_ if a.is_collection and a.py_type is ent and a.reverse is not attr]:
                            val = [st] if attr.is_collection else st
                            calls.append(('%s.%s.create(%s=%s)' % (cattr.entity.__name__, cattr.name, attr.name, 'list' if attr.is_collection else 'bare'),
                                          lambda cattr=cattr, attr=attr, val=val: getattr(live_of(cattr.entity), cattr.name).create(**dict(required_kwargs(cattr.py_type, skip=(cattr.reverse.name, attr.name)), **{attr.name: val}))))
                def one_call(label, f):
                    pre = canon_world(A.snapshot()); xpre = A.extra(); dump_pre = E.dump(); m = E.tr.mark()
                    err = None; msg = ''
                    try:
                        with db_session: f()
                    except BaseException as e:
                        err = type(e).__name__; msg = str(e)
                        if core.local.db2cache:
                            try: core.rollback()
                            except Exception: pass
                    events = E.tr.db_events(E.tr.since(m))
                    post = canon_world(A.snapshot()); xpost = A.extra(); dump_post = E.dump()
                    inp = {'script': script[0], 'strict': strict, 'stale': '%s (%s)' % (type(st).__name__, st._status_), 'call': 'live ' + label, 'stale_argument': True}
                    E.last_case = inp
                    ctx.case(['stale-arg', script[0], strict, type(st).__name__, st._status_, label], kind='stale-arg:' + label.split('(')[0].split('=')[0].strip().split('.')[-1])
                    ctx.count('stale-arg-outcome:' + (err or 'no-error'))
                    writes = [e for e in events if e['call'] in ('execute', 'executemany') and e['kind'] in WRITE_KINDS]
                    key_call = re.sub(r'^\w+\.', '', label)
                    if err is None:
                        ctx.violation('an object of a finished session was accepted as an argument of an operation on a live object of another session',
                                      inp, observed='no exception', expected='TransactionError (mix objects belonging to different transactions)', key='stale-arg:accepted:' + key_call)
                    elif err not in ('TransactionError', 'OperationWithDeletedObjectError', 'DatabaseSessionIsOver'):
                        ctx.violation('an object of a finished session used as an argument of an operation on a live object raised %s' % err, inp,
                                      observed=err + ': ' + msg[:120], expected='TransactionError (mix objects belonging to different transactions)', key='stale-arg:%s:%s' % (err, key_call))
                    if strip_rbits(post) != strip_rbits(pre) or xpre != xpost:
                        ctx.violation('an operation on a live object changed the snapshot of the finished session its argument came from', inp,
                                      observed=diff_worlds(pre, post), expected='unchanged', key='stale-arg:snapshot-changed:' + key_call)
                    if writes or dump_pre != dump_post:
                        ctx.violation('an operation on a live object with an argument of a finished session wrote to the database', inp,
                                      observed={'sql': [e['sql'] for e in writes][:4]}, expected='no write', key='stale-arg:wrote:' + key_call)
                    real = {'error': 'TransactionError', 'why': 'mixed'} if (err == 'TransactionError' and 'mix objects' in msg) else {'error': err or 'no-error', 'msg': msg[:80]}
                    pending.append(({'op': 'step', 'world': pre, 'obj': s_i, 'opr': {'k': 'staleArg'}, 'ambient': True}, real, post,
                                    dict(inp, obj=s_i), 0))
                for label, f in calls:
                    try: one_call(label, f)
                    except Exception as e:
                        ctx.divergence('a stale-argument call could not be evaluated: %s: %s' % (type(e).__name__, str(e)[:160]),
                                       {'script': script[0], 'strict': strict, 'call': 'live ' + label, 'stale': type(st).__name__}, model='mixed', impl=type(e).__name__)
                        try: E.reset()
                        except Exception: pass


def live_object(E, ent):
    """a LIVE object of the current session that exists whatever the finished session's script deleted: the first row, else a new one
    (fetching the live side is a precondition of the call under test, never a verdict about it)"""
    obj = ent.select().first()
    if obj is not None: return obj
    if ent is E.G or ent is E.S: return ent(a=1)
    if ent is E.T: return E.T(n=1)
    return ent(g=E.G(a=1))


def required_kwargs(ent, skip=()):
    return {a.name: 1 for a in ent._attrs_ if a.is_required and not a.is_collection and not a.reverse and a.pk_offset is None and not a.is_discriminator and a.name not in skip}

def new_object(E, ent, kw, first=False):
    kw = dict(required_kwargs(ent, skip=tuple(kw)), **kw)
    for a in ent._attrs_:      # required references other than the one under test: a live object (by raw key when nothing may be queried first)
        if a.is_required and a.reverse and not a.is_collection and a.name not in kw:
            kw[a.name] = 2 if first else live_object(E, a.py_type)
    return ent(**kw)


def explore(ctx, E, scripts, stricts, ambients, target_limit=None, ambient_scripts=None, pending=None):
    """returns the list of pending model checks: (request, real outcome, real post-state, case)"""
    if pending is None: pending = []
    for script in scripts:
        for ending in ENDINGS:
            if script[0] == 'failed_flush' and ending not in ('error', 'commit'): continue
            if script[0] == 'failed_flush' and ending == 'commit': ending = 'exit'
            for strict in stricts:
                for ambient in ambients:
                    if ambient and ambient_scripts is not None and script[0] not in ambient_scripts: continue
                    R, how = run_session(E, script, ending, strict)
                    # a third of the runs: every operation is made by ANOTHER thread than the one that ran the session (the thread-local
                    # registry of that thread is empty: the liveness guards must answer before the cross-thread guards are reached)
                    other_thread = ctx.rng.random() < 0.33
                    ctx.count('operations-from-another-thread' if other_thread else 'operations-from-the-session-thread')
                    case = {'script': script[0], 'ending': ending, 'strict': strict}
                    if other_thread: case['thread'] = 'other'
                    if ending in ('commit_fault', 'commit_locked') and how != 'CommitException':
                        # nothing was written: no COMMIT is sent at the exit, nothing can fail — the run equals the `commit` ending
                        ctx.count('ending-kind:%s:no-COMMIT-sent (same as commit, not repeated)' % ending); continue
                    det = canon_world(R.snapshot())
                    if R.close_tie and not ambient:
                        how_model = {'commit': 'commit', 'rollback': 'rollback', 'error': 'error', 'exit': 'flushFailed',
                                     'commit_fault': 'commitFailed', 'commit_locked': 'commitFailed'}[ending]
                        pending.append(({'op': 'close', 'world': canon_world(R.live), 'strict': strict, 'hadConnection': R.had_connection,
                                         'how': how_model, 'inTransaction': bool(getattr(R, 'wrote', True))},
                                        None, det, dict(case, tie='close', how=how), None))
                        ctx.count('close:%s' % ('no-connection' if not R.had_connection else ('strict' if strict else 'non-strict')))
                    ctx.count('ending:%s' % how)
                    ctx.count('ending-kind:%s%s' % (ending, ':commit-really-failed' if how == 'CommitException' else ''))
                    if det['alive']:
                        ctx.violation('the session cache is still alive after its db_session ended', dict(case, how=how), observed='cache.is_alive is True',
                                      expected='is_alive False', key='alive-after-end:%s' % ending)
                    live_vals = R.live
                    targets = list(range(len(R.objs)))
                    if target_limit: targets = targets[:target_limit]
                    dirty = False; last = None
                    for o_i in targets:
                        n_ops = len(ops_for(E, R, R.objs[o_i]))
                        for op_i in range(n_ops):
                            if dirty:
                                # the previous operation changed the snapshot (read-bits apart): start again from a fresh finished session
                                R, how = run_session(E, script, ending, strict); dirty = False; last = None
                                ctx.count('session-rerun')
                            o = R.objs[o_i]
                            op, fn, kind = ops_for(E, R, o)[op_i]
                            if last is None: last = (canon_world(R.snapshot()), R.extra(), E.dump())
                            pre, xpre, dump_pre = last
                            m = E.tr.mark()
                            if ambient:
                                def call(fn=fn):
                                    with db_session: return fn()
                            else: call = fn
                            if other_thread: call = in_other_thread(call)
                            out = real_outcome(R, call, kind)
                            events = E.tr.db_events(E.tr.since(m))
                            post = canon_world(R.snapshot()); xpost = R.extra()
                            dump_post = E.dump()
                            last = (post, xpost, dump_post)
                            op = dict(op)
                            nsel = len([e for e in events if e['call'] == 'execute' and e['kind'] == 'select'])
                            E.last_case = dict(case, obj=o_i, op=op_brief(op), ambient=ambient)
                            full_case = dict(case, obj=o_i, ent=type(o).__name__, status=pre['objs'][o_i]['status'], op=op_brief(op), ambient=ambient)
                            ctx.case([script[0], ending, strict, ambient, type(o).__name__, pre['objs'][o_i]['status'], op_brief(op),
                                      pre['objs'][o_i]['vals'], pre['objs'][o_i]['cache']], kind='op:' + op['k'])
                            ctx.count('status:' + pre['objs'][o_i]['status'])
                            ctx.count('real-outcome:' + (out.get('error') or ('noop' if 'noop' in out else 'value')))
                            live_val = None
                            if op['k'] == 'getAttr' and live_vals['objs'][o_i]['vals'] is not None:
                                d = {p[0]: p[1] for p in live_vals['objs'][o_i]['vals']}
                                if op['attr']['id'] in d and not isinstance(d[op['attr']['id']], dict): live_val = {'value': d[op['attr']['id']]}
                            oracle(ctx, R, E, case, op, kind, o_i, pre, post, xpre, xpost, out, events, dump_pre, dump_post, ambient, live_val)
                            if strip_rbits(post) != strip_rbits(pre) or xpre != xpost: dirty = True
                            req = {'op': 'step', 'world': pre, 'obj': o_i, 'opr': {k: v for k, v in op.items() if k not in ('via', 'wc')}, 'ambient': ambient}
                            pending.append((req, out, post, full_case, nsel))
    return pending


def check_model(ctx, pending):
    if not ctx.driver.ok:
        ctx.note('driver unavailable: correspondence skipped'); return
    outs = ctx.driver('C32', [p[0] for p in pending])
    for (req, real_out, real_post, case, nsel), m in zip(pending, outs):
        if 'driver_error' in m:
            ctx.divergence('driver error', case, model=m, impl=real_out); continue
        mw = canon_world(m['world'])
        if req['op'] == 'close':
            if mw != real_post:
                ctx.divergence('SessionCache.close: model and real detached state differ', case, model=diff_worlds(real_post, mw), impl='see diff [obj, field, real, model]')
            continue
        mo = canon_model_out(m['out'])
        ctx.count('model-outcome:' + (mo.get('error') or ('noop' if 'noop' in mo else ('live' if 'live' in mo else 'value'))))
        if mo != real_out:
            ctx.divergence('operation outcome differs between model and real Pony', case, model=mo, impl=real_out)
        elif mw != real_post:
            ctx.divergence('object state after the operation differs between model and real Pony', case, model=diff_worlds(real_post, mw), impl='see diff [obj, field, real, model]')
        elif m['stmts'] != nsel:
            ctx.divergence('number of SELECT statements differs between model and real Pony', case, model=m['stmts'], impl=nsel)


def witnesses(ctx, E):
    """the concrete witnesses of the `_full_false` theorems of Props/C32.lean, replayed on the real code on every run"""
    G, I, T = E.G, E.I, E.T
    # W1  flush of a detached object with a pending change: AssertionError (Props: C32_flush_full_false)
    E.reset()
    with db_session:
        g = G[1]; g.a = 5; rollback()
    try: g.flush(); r = 'no error'
    except AssertionError: r = 'AssertionError'
    except core.DatabaseSessionIsOver: r = 'DatabaseSessionIsOver'
    ctx.case(['witness', 'flush-pending'], kind='witness')
    if r != 'DatabaseSessionIsOver':
        ctx.violation('obj.flush() of an object with pending changes after its session ended does not raise a session-is-over error',
                      {'script': 'with db_session: g = G[1]; g.a = 5; rollback()', 'op': 'g.flush()'}, observed=r, expected='DatabaseSessionIsOver',
                      key='flush:pending:%s' % ('AssertionError' if r == 'AssertionError' else 'no-error'))
    # W2  is_empty() of an unloaded collection under a NEW db_session: runs a SELECT in the new session, answers wrongly, marks the collection loaded
    E.reset()
    with db_session: g = G[1]
    m = E.tr.mark()
    try:
        with db_session: r = g.items.is_empty()
    except core.DatabaseSessionIsOver: r = 'DatabaseSessionIsOver'
    sel = [e['sql'] for e in E.tr.db_events(E.tr.since(m)) if e['kind'] == 'select']
    ctx.case(['witness', 'is_empty-ambient'], kind='witness')
    if r != 'DatabaseSessionIsOver':
        try: after = sorted(x.id for x in g.items.copy())
        except Exception as e: after = type(e).__name__
        ctx.violation('a read on an object of a finished session queried the database instead of raising a session-is-over error',
                      {'script': 'with db_session: g = G[1]  # G[1] has 2 items', 'op': 'with db_session: g.items.is_empty()'},
                      observed={'returned': r, 'select': sel, 'g.items.copy() afterwards': after}, expected='DatabaseSessionIsOver', key='read-sql:collIsEmpty')
    # W3  count() of an unloaded collection: raises, but has replaced the pruned slot by an empty SetData -> later `in` answers differently
    E.reset()
    with db_session:
        t = T[1]; t.gs.load(); g = G[1]; g.tags.count() if False else None
    before = t in g.tags
    try: g.tags.count(); r = 'no error'
    except core.DatabaseSessionIsOver: r = 'DatabaseSessionIsOver'
    try: after = t in g.tags
    except core.DatabaseSessionIsOver: after = 'DatabaseSessionIsOver'
    ctx.case(['witness', 'count-changes-state'], kind='witness')
    if after != before:
        ctx.violation('a failing read changed the object of a finished session',
                      {'script': 'with db_session: t = T[1]; t.gs.load(); g = G[1]', 'op': 't in g.tags; g.tags.count(); t in g.tags'},
                      observed={'first': before, 'count()': r, 'second': after}, expected='the same answer', key='read-changed:collCount')


def witness_json(ctx, E):
    """in-place change of a Json value held by an object of a finished session: TrackedValue -> Entity._attr_changed_"""
    E.reset()
    with db_session: g = E.G[1]; g.data
    before = json.dumps(g.data.get_untracked(), sort_keys=True)
    try: g.data['k'] = 5; r = 'no error'
    except core.DatabaseSessionIsOver: r = 'DatabaseSessionIsOver'
    except Exception as e: r = type(e).__name__
    after = json.dumps(g.data.get_untracked(), sort_keys=True)
    ctx.case(['witness', 'json-in-place'], kind='witness')
    if after != before:
        ctx.violation('a refused modification changed the object', {'script': 'with db_session: g = G[1]; g.data', 'op': "g.data['k'] = 5"},
                      observed={'raised': r, 'document': after}, expected=before, key='mutate-changed:attrChanged')
    if r != 'DatabaseSessionIsOver':
        ctx.violation('an in-place change of a Json value of an object of a finished session was not refused', {'script': 'with db_session: g = G[1]; g.data', 'op': "g.data['k'] = 5"},
                      observed=r, expected='DatabaseSessionIsOver', key='mutate:json-in-place:%s' % r)


def run(ctx):
    work = ponyutil.workdir('c32')
    E = Env(os.path.join(work, 'c32.sqlite'))
    try:
        scripts = SCRIPTS
        # quick tier: the variant 'inside a NEW db_session' for a seed-chosen half of the scripts (all of them in the thorough tier)
        amb = None if ctx.thorough else set(ctx.rng.sample([n for n, _ in scripts], (len(scripts) + 1) // 2))
        pending = []
        stale_scripts = scripts if ctx.thorough else [sc for sc in scripts if sc[0] in ('full', 'created_graph', 'delete', 'one', 'subclass')]
        phases = [('operation matrix', lambda: explore(ctx, E, scripts, [False, True], [False, True], target_limit=None if ctx.thorough else 5, ambient_scripts=amb, pending=pending)),
                  ('stale arguments', lambda: stale_arguments(ctx, E, stale_scripts, pending, per_entity=3 if ctx.thorough else 2)),
                  ('model comparison', lambda: check_model(ctx, pending)),
                  ('witnesses', lambda: witnesses(ctx, E)), ('json witness', lambda: witness_json(ctx, E)),
                  ('two sessions', lambda: two_sessions(ctx, E, scripts if ctx.thorough else scripts[::3]))]
        for name, phase in phases:
            try: phase()
            except Exception as e:
                # an exception escaping from the code under test (or from the harness on a state only a changed tree produces) is a verdict
                import traceback
                tb = traceback.format_exc().splitlines()
                ctx.divergence('the %s phase was stopped by an exception: %s: %s' % (name, type(e).__name__, str(e)[:200]),
                               {'phase': name, 'last_case': getattr(E, 'last_case', None), 'traceback_tail': tb[-6:]}, model='completes', impl=type(e).__name__)
                try: E.reset()
                except Exception: pass
        ctx.extra['violation_keys'] = sorted(v['key'] for v in ctx.violations)
        ctx.extra['sessions'] = sum(v for k, v in ctx.counters.items() if k.startswith('ending:'))
    finally:
        E.close(); ponyutil.rmtree(work)


def replay(ctx, data):
    run(ctx)
