"""C35 — locked rows and serializable sessions cannot be overwritten concurrently.

Real sessions: two or three threads, each in its own `db_session`, on ONE file-backed SQLite database, through the
tracing connection class of harness/tracing.py.  A deterministic scheduler lets exactly one thread run at a time; a
thread hands the processor back
    coarse mode: after every operation of its program (load, locking load, UPDATE of one object, end of session),
    fine mode:   additionally before EVERY DB-API call (cursor / execute / commit / rollback ...),
and whenever it cannot get `provider.pre_transaction_lock` / `provider.transaction_lock` (the two lock objects of the
provider are wrapped: same mutual exclusion, but a failed acquire reports `blocked` to the scheduler instead of
blocking the OS thread; nothing in Pony is patched).  Sessions of a second `Database` object bound to the same file
play the part of another process: they do not share the Python locks, only SQLite's own file lock.

Property oracle (real code only, from the engine's own bookkeeping and an independent observer connection read after
every scheduler step):
    O1  a value a session read under the lock (for_update / get_for_update with every nowait/skip_locked variant; every
        load of an immediate, serializable or optimistic=False session) stays the committed value until that session
        ends; when it commits the row holds what it wrote (or still what it read),
    O2  no committed write is lost: at every successful commit the committed value of each object the session writes
        is the one the session had seen before its first UPDATE of it; for increment programs final = initial + number of
        committed increments,
    O3  concurrent writers wait or fail: every session ends (committed, OptimisticCheckError, UnrepeatableReadError,
        "database is locked") - a scheduler step that does not come back, or all threads blocked = violation 'blocked'.
Correspondence (coarse mode): the same schedule is run by Model/RowLock.lean through the driver; the result of every
step (value / blocked / busy / OptimisticCheckError / UnrepeatableReadError), the committed rows after every step and
the final status of every session must agree -> ctx.divergence.
PostgreSQL / MySQL / Oracle: only the generated text (FOR UPDATE [NOWAIT | SKIP LOCKED]) is compared with the model's
printer through the offline provider stubs; server behaviour cannot be executed here.
"""
import itertools, json, os, sqlite3, sys, threading, time, traceback, multiprocessing

from tracing import Tracer
import ponyutil

STEP_TIMEOUT = 10.0       # a scheduler step that does not come back within this time (and is not inside SQLite) = 'blocked'
GRACE = 240.0
SQLITE_TIMEOUT = 0.3
OBJS = [1, 2]
INITIAL = {1: 10, 2: 20}

MODES = {            # name: (db_session options, model cfg [immediate, checks])
    'optimistic':   ({}, [False, True]),
    'immediate':    ({'immediate': True}, [True, True]),
    'serializable': ({'serializable': True}, [True, False]),      # db_session.optimistic = optimistic and not serializable
    'pessimistic':  ({'optimistic': False}, [True, False]),
}
COMMIT_VARIANTS = ['commit', 'db_commit', 'flush_commit']      # commit() / db.commit() / flush(); commit() INSIDE the db_session
KNOWN_KEY_NOCHECK = 'nocheck-session-stale-write-after-commit'
LOCK_VARIANTS = ['get', 'get_nowait', 'get_skip', 'query', 'query_nowait', 'query_skip', 'lambda_get', 'get_unique', 'get_composite']
# 'get_reverse' (T.get_for_update(p=P[o])): the unchanged code cannot build this query (NotImplementedError: no column on that side) -
# the session FAILS, which the property allows; what it must never do is hand out the object without a lock.  Oracle only.


class Abort(Exception): pass


class Env(object): pass


def define(tr, path):
    from pony.orm import Database, Required, db_session, select, flush
    db = Database()
    from pony.orm import Optional, composite_key
    class T(db.Entity):
        _table_ = 't'
        x = Required(int)
        # the other lookup paths of EntityMeta._find_in_cache_ / _find_in_db_: a simple unique key, a composite key, and the
        # column-less side of a one-to-one relationship
        code = Required(int, unique=True)
        ka = Required(int)
        kb = Required(int)
        composite_key(ka, kb)
        p = Optional('P')
    class P(db.Entity):
        _table_ = 'p'
        t = Required(T)
    from pony.orm import commit
    db.bind('sqlite', path, create_db=True, timeout=SQLITE_TIMEOUT, **tr.bind_kwargs())
    E = Env()
    E.db = db; E.T = T; E.P = P; E.db_session = db_session; E.select = select; E.flush = flush; E.commit = commit
    return E


# ---------------------------------------------------------------------------------------------------------------------
# scheduler
# ---------------------------------------------------------------------------------------------------------------------

class Sched(object):
    def __init__(self, n, fine):
        self.cv = threading.Condition()
        self.turn = None
        self.n = n
        self.fine = fine
        self.done = [False] * n
        self.event = None
        self.names = {'c35-w%d' % i: i for i in range(n)}
        self.acquired = []        # [thread, lock name] of provider-lock acquisitions since the controller last looked
    def me(self):
        return self.names.get(threading.current_thread().name)
    # -- worker side
    def wait_turn(self, i):
        with self.cv:
            self.cv.wait_for(lambda: self.turn == i)
    def yield_(self, i, kind, payload=None):
        with self.cv:
            self.event = (kind, payload)
            self.turn = None
            self.cv.notify_all()
            self.cv.wait_for(lambda: self.turn == i)
    def finish(self, i, payload):
        with self.cv:
            self.event = ('end', payload)
            self.done[i] = True
            self.turn = None
            self.cv.notify_all()
    # -- controller side
    def resume(self, i, slow_ok=None):
        """let thread i run until it hands the processor back.  `slow_ok()`: the thread is inside a DB-API call right now
        (the machine / the disk is slow, nobody is waiting for anybody): keep waiting, up to GRACE seconds"""
        with self.cv:
            self.event = None
            self.turn = i
            self.cv.notify_all()
            ok = self.cv.wait_for(lambda: self.turn is None, STEP_TIMEOUT)
            end = time.time() + GRACE
            while not ok and slow_ok is not None and slow_ok() and time.time() < end:
                ok = self.cv.wait_for(lambda: self.turn is None, 1.0)
            if not ok: ok = self.cv.wait_for(lambda: self.turn is None, 1.0)
            return self.event if ok else ('hung', None)


class Progress(object):
    """is the running worker merely slow (loaded machine, slow disk) rather than blocked?  True while it is inside a DB-API
    call (SQLite's own waits end after the busy timeout) or while its Python stack keeps changing between two looks.
    Every Python lock the provider uses is wrapped (never blocks), so a thread whose stack stands still outside SQLite is
    really waiting for something."""
    def __init__(self, tr, thread, name, n):
        self.tr = tr; self.thread = thread; self.name = name; self.n = n; self.last = None
    def __call__(self):
        if any(ev['outcome'] is None and ev['thread'] == self.name for ev in self.tr.events[-3 * self.n:]): return True
        f = sys._current_frames().get(self.thread.ident)
        sig = []
        while f is not None and len(sig) < 12:
            sig.append((id(f.f_code), f.f_lasti)); f = f.f_back
        moved = sig != self.last
        self.last = sig
        return moved


class SchedLock(object):
    """wrapper of one provider lock: a scheduled thread that cannot get it reports `blocked` and retries when it is
    scheduled again"""
    def __init__(self, sched, lock, name):
        self.sched = sched; self.lock = lock; self.name = name
    def acquire(self, *args, **kwargs):
        i = self.sched.me()
        if i is None: return self.lock.acquire(*args, **kwargs)
        while not self.lock.acquire(False):
            self.sched.yield_(i, 'blocked', self.name)
        self.sched.acquired.append([i, self.name])
        return True
    def release(self): self.lock.release()
    def locked(self): return self.lock.locked()
    __enter__ = acquire
    def __exit__(self, *a): self.release()


# ---------------------------------------------------------------------------------------------------------------------
# one real run
# ---------------------------------------------------------------------------------------------------------------------

def lock_load(E, o, variant):
    T = E.T
    if variant == 'get': return T.get_for_update(id=o)
    if variant == 'get_nowait': return T.get_for_update(id=o, nowait=True)
    if variant == 'get_skip': return T.get_for_update(id=o, skip_locked=True)
    if variant == 'query': return E.select(t for t in T if t.id == o).for_update()[:][0]
    if variant == 'query_nowait': return E.select(t for t in T if t.id == o).for_update(nowait=True)[:][0]
    if variant == 'query_skip': return E.select(t for t in T if t.id == o).for_update(skip_locked=True)[:][0]
    if variant == 'lambda_get': return T.get_for_update(lambda t: t.id == o)
    if variant == 'get_unique': return T.get_for_update(code=100 + o)                 # simple unique key
    if variant == 'get_composite': return T.get_for_update(ka=o, kb=7)                # composite key
    if variant == 'get_reverse': return T.get_for_update(p=E.P[o])                    # reverse side of a one-to-one (no column on T)
    raise ValueError(variant)


def do_action(E, act):
    k = act[0]
    if k == 'read':
        return E.T[act[1]].x
    if k == 'lock':
        return lock_load(E, act[1], act[2]).x
    if k == 'trylock':
        # the application catches "database is locked" inside the session and goes on (it will retry)
        try: return lock_load(E, act[1], act[2]).x
        except Exception as e:
            if 'database is locked' in str(e): return 'refused'
            raise
    if k == 'update':
        obj = E.T[act[1]]
        v = obj.x + 1 if act[2] == 'inc' else act[2]
        obj.x = v
        E.flush()
        return v
    if k == 'commit_mid':
        if act[1] == 'commit': E.commit()
        elif act[1] == 'db_commit': E.db.commit()
        else: E.flush(); E.commit()
        return None
    raise ValueError(act)


def outcome_of(e):
    if e is None: return 'ok'
    from pony.orm import core
    if isinstance(e, Abort): return 'Abort'
    name = type(e).__name__
    if 'database is locked' in str(e): return 'busy'
    if isinstance(e, core.OptimisticCheckError): return 'OptimisticCheckError'
    if isinstance(e, core.UnrepeatableReadError): return 'UnrepeatableReadError'
    if isinstance(e, NotImplementedError): return 'NotImplementedError'       # an explicit refusal: the session fails
    return 'other:%s:%s' % (name, str(e)[:120])


def run_case(workdir, case):
    """case: {'id', 'threads': [{'mode', 'dom', 'prog': [actions.., ['commit']|['rollback']]}], 'schedule': [tid..], 'fine': bool}"""
    path = os.path.join(workdir, 'c%d.sqlite' % case['id'])
    for ext in ('', '-journal'):
        if os.path.exists(path + ext): os.remove(path + ext)
    n = len(case['threads'])
    sched = Sched(n, case['fine'])
    tr = Tracer()
    doms = sorted(set(t['dom'] for t in case['threads']))
    envs = {}
    for d in doms:
        E = define(tr, path)
        E.db.generate_mapping(create_tables=(d == doms[0]))
        envs[d] = E
    E0 = envs[doms[0]]
    with E0.db_session:
        for o in OBJS: E0.P(id=o, t=E0.T(id=o, x=INITIAL[o], code=100 + o, ka=o, kb=7))
    for E in envs.values():
        E.db.disconnect()
        prov = E.db.provider
        prov.pre_transaction_lock = SchedLock(sched, prov.pre_transaction_lock, 'pre')
        prov.transaction_lock = SchedLock(sched, prov.transaction_lock, 'lock')
    obs = sqlite3.connect(path, timeout=5.0, isolation_level=None, check_same_thread=False)
    def snapshot():
        try: return {r[0]: r[1] for r in obs.execute('select id, x from t order by id').fetchall()}
        except sqlite3.OperationalError: return None      # a connection sits on a PENDING/EXCLUSIVE lock between two calls

    refuse = case.get('refuse')            # [thread, n]: the n-th BEGIN IMMEDIATE of that thread is refused ("database is locked")
    if refuse:
        seen_begins = [0]
        def refuse_begin(ev):
            if ev['i'] is not None and ev['kind'] == 'begin' and sched.me() == refuse[0]:
                k = seen_begins[0]; seen_begins[0] += 1
                if k == refuse[1]:
                    ev['outcome'] = 'OperationalError'; ev['injected'] = True
                    raise sqlite3.OperationalError('database is locked')
    if case['fine']:
        def before(ev):
            i = sched.me()
            if i is not None and ev['i'] is not None: sched.yield_(i, 'call', [ev['call'], ev['kind']])
        tr.before_call.append(before)
    if refuse: tr.before_call.append(refuse_begin)       # after the hand-off hook: the refusal happens when the call is performed

    crash = {}
    def worker(i):
        th = case['threads'][i]
        E = envs[th['dom']]
        sched.wait_turn(i)
        exc = None
        cur = [0]
        have = set()               # objects this session has loaded
        try:
            with E.db_session(**MODES[th['mode']][0]):
                for j, act in enumerate(th['prog']):
                    cur[0] = j
                    if act[0] == 'commit': break
                    if act[0] == 'rollback': raise Abort()
                    if act[0] == 'update' and act[1] not in have:
                        v = 'skipped'          # every locking load of the object was refused: the application has nothing to change
                    else:
                        v = do_action(E, act)
                        if act[0] in ('read', 'lock') or (act[0] == 'trylock' and v != 'refused'): have.add(act[1])
                    sched.yield_(i, 'action', [j, v])
        except BaseException as e:
            exc = e
            if not isinstance(e, Exception): crash[i] = traceback.format_exc()
        sched.finish(i, [cur[0], outcome_of(exc)])

    threads = [threading.Thread(target=worker, args=(i,), name='c35-w%d' % i, daemon=True) for i in range(n)]
    for t in threads: t.start()

    log = []            # per controller step: {'t': tid, 'kind': 'action'|'blocked'|'end'|'call'|'hung', 'payload', 'db': snapshot}
    picks = list(case['schedule'])
    rr = 0
    problem = None
    waiting = [None] * n          # the lock object a thread reported `blocked` on
    def lock_of(i, name):
        prov = envs[case['threads'][i]['dom']].db.provider
        return (prov.pre_transaction_lock if name == 'pre' else prov.transaction_lock).lock
    def runnable(j):
        return not sched.done[j] and (waiting[j] is None or not waiting[j].locked())
    limit = 3000 if case['fine'] else 300
    while not all(sched.done) and len(log) < limit:
        if picks: i = picks.pop(0) % n
        else: i = rr; rr = (rr + 1) % n
        if not runnable(i):
            cand = [(i + d) % n for d in range(1, n + 1) if runnable((i + d) % n)]
            if not cand:
                problem = {'what': 'deadlock', 'step': len(log), 'waiting': [j for j in range(n) if waiting[j] is not None and not sched.done[j]]}
                break
            i = cand[0]
        waiting[i] = None
        wname = 'c35-w%d' % i
        kind, payload = sched.resume(i, Progress(tr, threads[i], wname, n))
        entry = {'t': i, 'kind': kind, 'payload': payload, 'db': None, 'acq': list(sched.acquired)}
        del sched.acquired[:]
        log.append(entry)
        if kind == 'hung':
            problem = {'what': 'hung', 'thread': i, 'step': len(log) - 1}
            break
        entry['db'] = snapshot()
        if kind == 'blocked': waiting[i] = lock_of(i, payload)
    if problem is None and not all(sched.done):
        problem = {'what': 'step-limit', 'step': len(log)}
    out = {'log': log, 'problem': problem, 'crash': crash or None}
    if problem is None:
        for t in threads: t.join(5.0)
        out['final'] = snapshot()
        out['locks'] = {d: [envs[d].db.provider.transaction_lock.locked(), envs[d].db.provider.pre_transaction_lock.locked()] for d in doms}
    obs.close()
    if problem is None:
        tr.cleanup()
        for ext in ('', '-journal'):
            if os.path.exists(path + ext):
                try: os.remove(path + ext)
                except OSError: pass
    return out


def run_case_thread(workdir, case):
    box = {}
    def target():
        try: box['r'] = run_case(workdir, case)
        except BaseException: box['crash'] = traceback.format_exc()
    t = threading.Thread(target=target, name='c35-case-%d' % case['id'], daemon=True)
    t.start(); t.join(STEP_TIMEOUT * 3 + GRACE * 2)
    if t.is_alive(): return {'harness_crash': 'case controller did not finish'}
    if 'crash' in box: return {'harness_crash': box['crash']}
    return box['r']


# ---------------------------------------------------------------------------------------------------------------------
# oracle (real observations only)
# ---------------------------------------------------------------------------------------------------------------------

def oracle(case, obs):
    problems = []
    if obs['problem'] is not None:
        p = obs['problem']
        if p['what'] in ('hung', 'deadlock'):
            problems.append(('blocked', 'a session neither finished nor failed: %s at scheduler step %d' % (p['what'], p['step']), p))
        else:
            problems.append(('harness', 'step limit reached', p))
        return problems
    n = len(case['threads'])
    stable = [dict() for _ in range(n)]       # per thread: object -> value read under the lock IN THE CURRENT TRANSACTION
    seen = [dict() for _ in range(n)]         # per thread: object -> what the session knows of the row (identity map)
    basis = [dict() for _ in range(n)]        # per thread: object -> value known before its first UPDATE in this transaction
    wrote = [dict() for _ in range(n)]        # per thread: object -> last value written in this transaction
    ninc = [dict() for _ in range(n)]         # per thread: object -> increments in this transaction
    renewed = [False] * n                     # the session has committed in its middle (it is immediate from then on)
    ended = [None] * n
    parked = [None] * n                       # fine mode: the DB-API call the thread is about to make
    prev_db = dict(INITIAL)
    incs = {o: 0 for o in OBJS}

    def commit_point(i, si, before, after):
        """the step in which a COMMIT of session i was executed (end of the session or commit() in its middle)"""
        th = case['threads'][i]
        checks = MODES[th['mode']][1][1]
        for o, v in wrote[i].items():
            # O2: nothing this session never saw is overwritten by its commit
            if basis[i].get(o) is not None and before.get(o) != basis[i][o]:
                kind = 'lost-write-nocheck-after-commit' if (not checks and renewed[i]) else 'lost-write'
                problems.append((kind, 'session %d (%s) committed x=%r for object %d computed from the value %r it knew, but the committed value just '
                                 'before its commit was %r: another session\'s committed write is lost' % (i, th['mode'], v, o, basis[i][o], before.get(o)),
                                 {'step': si, 'thread': i, 'object': o}))
            if after.get(o) != v:
                problems.append(('commit-value', 'after the commit of session %d object %d holds %r, not what the session wrote (%r)' % (i, o, after.get(o), v),
                                 {'step': si}))
        for o, v in stable[i].items():
            if o not in wrote[i] and after.get(o) != v:
                problems.append(('locked-row-changed', 'object %d locked/read under the lock by session %d changed at its own commit' % (o, i), {'step': si}))
        for o, k in ninc[i].items(): incs[o] += k
        stable[i] = {}; wrote[i] = {}; basis[i] = {}; ninc[i] = {}

    for si, e in enumerate(obs['log']):
        i, kind, payload, db = e['t'], e['kind'], e['payload'], e['db']
        if db is None: db = prev_db                # observer locked out (reported as a divergence by evaluate)
        th = case['threads'][i]
        immediate = MODES[th['mode']][1][0] or renewed[i]
        performed, parked[i] = parked[i], (payload if kind == 'call' else None)
        if performed is not None:
            if performed[0] == 'commit' and all(db.get(o) == v for o, v in wrote[i].items()):
                commit_point(i, si, prev_db, db)       # the COMMIT call went through (a refused one is seen at the session's end)
            elif performed[0] in ('rollback', 'close'): stable[i] = {}        # the transaction is over: the lock is released
        if kind == 'action':
            j, v = payload
            act = th['prog'][j]
            if act[0] == 'commit_mid':
                commit_point(i, si, prev_db, db)
                renewed[i] = True
            else:
                o = act[1]
                if act[0] == 'read':
                    if o not in seen[i]:
                        seen[i][o] = v
                        if immediate and o not in wrote[i]: stable[i][o] = v
                elif act[0] == 'trylock' and v == 'refused':
                    pass                                   # refused and caught: nothing is locked, nothing new is known
                elif act[0] in ('lock', 'trylock'):
                    # a locking load always queries: what it returns is what the session knows from now on (on the unchanged
                    # code a value different from an earlier read raises UnrepeatableReadError instead)
                    if o not in wrote[i]: seen[i][o] = v; stable[i][o] = v
                    else: seen[i].setdefault(o, v)
                elif act[0] == 'update' and v == 'skipped':
                    pass
                elif act[0] == 'update':
                    if o not in wrote[i]: basis[i][o] = seen[i].get(o)
                    wrote[i][o] = v; seen[i][o] = v
                    if act[2] == 'inc': ninc[i][o] = ninc[i].get(o, 0) + 1
        elif kind == 'end':
            j, outcome = payload
            ended[i] = outcome
            if outcome == 'ok': commit_point(i, si, prev_db, db)
            elif outcome.startswith('other:'):
                problems.append(('unexpected-exception', 'session %d ended with %s' % (i, outcome), {'step': si}))
            stable[i] = {}
        # O1: what any running session holds stable is still committed
        for t in range(n):
            if ended[t] is not None: continue
            for o, v in stable[t].items():
                if db.get(o) != v:
                    problems.append(('locked-row-changed', 'object %d was read under the lock by session %d as %r, but at scheduler step %d (thread %d, %s) '
                                     'its committed value became %r while the transaction of that session was still open' % (o, t, v, si, i, kind, db.get(o)),
                                     {'step': si, 'locker': t, 'object': o}))
                    stable[t] = {}
                    break
        prev_db = db
    final = obs['final'] if obs['final'] is not None else prev_db
    all_inc = all(a[2] == 'inc' for th in case['threads'] for a in th['prog'] if a[0] == 'update')
    if all_inc:
        for o in OBJS:
            if final.get(o) != INITIAL[o] + incs[o]:
                known = any(k == 'lost-write-nocheck-after-commit' and d.get('object') == o for k, _, d in problems)
                problems.append(('lost-write-nocheck-after-commit' if known else 'lost-increment',
                                 'object %d: %d increments were committed but the value went from %d to %r' % (o, incs[o], INITIAL[o], final.get(o)),
                                 {'final': final, 'object': o}))
    for d, (l, p) in obs['locks'].items():
        if l or p: problems.append(('lock-left', 'provider lock of domain %s still held after all sessions ended' % d, None))
    return problems


# ---------------------------------------------------------------------------------------------------------------------
# model side (coarse mode)
# ---------------------------------------------------------------------------------------------------------------------

def model_request(case, obs):
    """the observed scheduler steps as a model schedule + the results to expect"""
    if any(a[0] in ('lock', 'trylock') and a[2] == 'get_reverse' for t in case['threads'] for a in t['prog']): return None      # oracle only
    sched, expect = [], []
    pos = [0] * len(case['threads'])
    for e in obs['log']:
        i, kind, payload = e['t'], e['kind'], e['payload']
        th = case['threads'][i]
        if kind == 'blocked':
            act = th['prog'][pos[i]]
            res = ['blocked']
            val = None
        elif kind == 'action':
            j, v = payload
            act = th['prog'][j]; pos[i] = j + 1
            res = ['ok', None if act[0] in ('update', 'commit_mid') else v]
            val = v
            if act[0] == 'trylock' and v == 'refused':
                sched.append([i, ['refused']]); expect.append(['busy']); continue
            if act[0] == 'update' and v == 'skipped':
                sched.append([i, ['refused']]); expect.append(['busy']); continue      # a no-op step keeps model steps and scheduler steps aligned
        elif kind == 'end':
            j, outcome = payload
            act = th['prog'][j]
            res = {'ok': ['ok', None], 'Abort': ['ok', None], 'busy': ['busy']}.get(outcome, [outcome])
            val = None
        else:
            return None
        if act[0] == 'read': m = ['read', act[1]]
        elif act[0] in ('lock', 'trylock'): m = ['lock', act[1]]
        elif act[0] == 'update':
            # the value written is data of the run (obj.x + 1 of what the session holds); on a failed/blocked UPDATE use the intended one
            m = ['update', act[1], val if val is not None else 0]
        elif act[0] == 'commit_mid': m = ['commitMid']
        else: m = [act[0]]
        sched.append([i, m]); expect.append(res)
    req = {'op': 'run', 'n': max(len(case['threads']), max(OBJS) + 1), 'objs': OBJS, 'db': [[o, INITIAL[o]] for o in OBJS],
           'cfg': [MODES[t['mode']][1] for t in case['threads']], 'dom': [t['dom'] for t in case['threads']], 'sched': sched}
    return req, expect


def model_request_fine(case, obs):
    """call-granularity run -> model schedule by LINEARISATION POINTS: the model's step of an operation is placed at the
    scheduler step in which its deciding DB-API call ran:
        begin        the step in which the thread got provider.transaction_lock (acquire_lock + BEGIN IMMEDIATE follow without
                     anybody else being able to get in); a failed attempt is a `blocked` begin
        load / locking load / UPDATE   the step in which the operation returned (its SELECT / UPDATE ran in that step)
        commit (final or in the middle) the step in which connection.commit() ran (the lock is released right after it)
        a failing operation / rollback  the step in which the session's first connection.rollback() ran (lock released there)
    Single lock domain only (the busy wait of a foreign writer is not a point).  Returns (request, expected results, log index of
    every model step) or None."""
    threads = case['threads']
    if any(t['dom'] != 0 for t in threads): return None
    if any(a[0] == 'lock' and a[2] == 'get_reverse' for t in threads for a in t['prog']): return None
    if any(a[0] == 'trylock' for t in threads for a in t['prog']): return None     # a refused BEGIN has no linearisation point of its own
    n = len(threads)
    fail_at = [None] * n
    for e in obs['log']:
        if e['kind'] == 'end' and e['payload'][1] != 'ok': fail_at[e['t']] = e['payload']
    pos, parked, placed = [0] * n, [None] * n, [set() for _ in range(n)]
    upd_val = {}
    for e in obs['log']:
        if e['kind'] == 'action': upd_val[(e['t'], e['payload'][0])] = e['payload'][1]
    sched, expect, where = [], [], []
    def mact(i, j):
        a = threads[i]['prog'][j]
        if a[0] == 'read': return ['read', a[1]]
        if a[0] == 'lock': return ['lock', a[1]]
        if a[0] == 'update': return ['update', a[1], upd_val.get((i, j)) or 0]
        if a[0] == 'commit_mid': return ['commitMid']
        return [a[0]]
    def put(i, m, res, si):
        sched.append([i, m]); expect.append(res); where.append(si)
    for si, e in enumerate(obs['log']):
        i, kind, payload = e['t'], e['kind'], e['payload']
        prog = threads[i]['prog']
        performed, parked[i] = parked[i], (payload if kind == 'call' else None)
        for t, name in e.get('acq', []):
            if name == 'lock': put(t, ['begin'], ['ok', None], si)
        j = pos[i]
        if performed is not None and j < len(prog):
            if performed[0] == 'commit' and prog[j][0] in ('commit', 'commit_mid') and j not in placed[i] and not (fail_at[i] and fail_at[i][0] == j):
                put(i, mact(i, j), ['ok', None], si); placed[i].add(j)
            elif performed[0] == 'rollback' and fail_at[i] is not None and fail_at[i][0] == j and j not in placed[i]:
                out = fail_at[i][1]
                put(i, mact(i, j), {'Abort': ['ok', None], 'busy': ['busy']}.get(out, [out]), si); placed[i].add(j)
        if kind == 'blocked':
            put(i, ['begin'], ['blocked'], si)
        elif kind == 'action':
            j, v = payload
            if j not in placed[i]:
                a = prog[j]
                put(i, mact(i, j), ['ok', None if a[0] in ('update', 'commit_mid') else v], si); placed[i].add(j)
            pos[i] = j + 1
        elif kind == 'end':
            j, out = payload
            if j not in placed[i]:
                put(i, mact(i, j), {'ok': ['ok', None], 'Abort': ['ok', None], 'busy': ['busy']}.get(out, [out]), si); placed[i].add(j)
        elif kind == 'hung': return None
    req = {'op': 'run', 'n': max(n, max(OBJS) + 1), 'objs': OBJS, 'db': [[o, INITIAL[o]] for o in OBJS],
           'cfg': [MODES[t['mode']][1] for t in threads], 'dom': [t['dom'] for t in threads], 'sched': sched}
    return req, expect, where


def check_model(ctx, case, obs, req_expect, m):
    cj = case_json(case)
    if 'driver_error' in m:
        ctx.divergence('driver error', cj, model=m); return
    req, expect = req_expect[0], req_expect[1]
    where = req_expect[2] if len(req_expect) > 2 else list(range(len(expect)))
    last_of = {si: k for k, si in enumerate(where)}            # several model steps may sit at one scheduler step: compare rows after the last
    for k, (r, x) in enumerate(zip(m['res'], expect)):
        if r != x:
            ctx.divergence('model and real sessions disagree on the result of model step %d %r (scheduler step %d)' % (k, req['sched'][k], where[k]), cj, model=r, impl=x)
            return
        dbm = {o: v for o, v in m['trace'][k]}
        if last_of[where[k]] == k and obs['log'][where[k]]['db'] is not None and dbm != obs['log'][where[k]]['db']:
            ctx.divergence('model and real database disagree on the committed rows after model step %d %r (scheduler step %d)' % (k, req['sched'][k], where[k]), cj,
                           model=dbm, impl=obs['log'][where[k]]['db'])
            return
    ctx.count('model-compared:' + ('call-granularity' if len(req_expect) > 2 else 'operation-granularity'))
    if (m['lost'] and not m['unguarded']) or m['broken']:
        ctx.divergence('the model\'s monitor fired (contradicts its theorems)', cj, model={'lost': m['lost'], 'broken': m['broken']})
    for p in m['res']: ctx.count('model-res:' + p[0])
    if m['lost']: ctx.count('model-lost-by-unguarded-session')


def case_json(case):
    return dict({'threads': case['threads'], 'schedule': case['schedule'], 'fine': case['fine']}, **({'refuse': case['refuse']} if case.get('refuse') else {}))


def case_key(kind, case):
    return '%s:%s' % (kind, json.dumps([[[t['mode'], t['dom'], t['prog']] for t in case['threads']], case['schedule'], case['fine'], case.get('refuse')], separators=(',', ':')))


# ---------------------------------------------------------------------------------------------------------------------
# case generation
# ---------------------------------------------------------------------------------------------------------------------

def P(mode, prog, dom=0):
    return {'mode': mode, 'dom': dom, 'prog': prog}

C, R = ['commit'], ['rollback']

def locker(variant, o=1, end=C): return P('optimistic', [['lock', o, variant], ['update', o, 'inc'], end])
def CM(how='commit'): return ['commit_mid', how]
def opt_writer(o=1, dom=0): return P('optimistic', [['read', o], ['update', o, 'inc'], C], dom)
def mode_writer(mode, o=1, dom=0): return P(mode, [['read', o], ['update', o, 'inc'], C], dom)

PAIRS = [
    # name, threads
    ('locker-vs-optimistic', [locker('get'), opt_writer()]),
    ('locker-vs-pessimistic', [locker('query'), mode_writer('pessimistic')]),
    ('locker-vs-locker', [locker('get_nowait'), locker('query_skip')]),
    ('locker-vs-late-locker', [locker('get'), P('optimistic', [['read', 1], ['lock', 1, 'get'], ['update', 1, 'inc'], C])]),
    ('serializable-vs-optimistic', [P('serializable', [['read', 1], ['read', 2], ['update', 1, 'inc'], C]), opt_writer(2)]),
    ('serializable-vs-optimistic-same', [mode_writer('serializable'), opt_writer()]),
    ('immediate-vs-pessimistic', [mode_writer('immediate'), mode_writer('pessimistic')]),
    ('locker-rollback-vs-optimistic', [locker('lambda_get', end=R), opt_writer()]),
    ('locker-two-objects', [P('optimistic', [['lock', 1, 'get_skip'], ['read', 2], ['update', 2, 'inc'], ['update', 1, 'inc'], C]), opt_writer(2)]),
    ('locker-vs-foreign-writer', [locker('get'), opt_writer(dom=1)]),
    ('foreign-locker-vs-pessimistic', [P('optimistic', [['lock', 1, 'query_nowait'], ['update', 1, 'inc'], C], 1), mode_writer('pessimistic')]),
    ('optimistic-vs-optimistic', [opt_writer(), opt_writer()]),
    ('reader-vs-locker', [P('optimistic', [['read', 1], ['read', 2], C]), locker('get')]),
    ('set-vs-locker', [P('optimistic', [['read', 1], ['update', 1, 77], C]), locker('query')]),
    # a locking load of an object that a plain load of the SAME session has already put into the identity map, through every
    # lookup path of EntityMeta._find_in_cache_ (primary key, simple unique key, composite key, reverse one-to-one): it must
    # still query under the lock (or refuse); the contender must wait or fail while the lock is held
    ('cached-then-lock-get', [P('optimistic', [['read', 1], ['lock', 1, 'get'], ['update', 1, 'inc'], C]), opt_writer()]),
    ('cached-then-lock-get-vs-pessimistic', [P('optimistic', [['read', 1], ['lock', 1, 'get'], ['update', 1, 'inc'], C]), mode_writer('pessimistic')]),
    ('cached-then-lock-get_unique', [P('optimistic', [['read', 1], ['lock', 1, 'get_unique'], ['update', 1, 'inc'], C]), opt_writer()]),
    ('cached-then-lock-get_unique-vs-pessimistic', [P('optimistic', [['read', 1], ['lock', 1, 'get_unique'], ['update', 1, 'inc'], C]), mode_writer('pessimistic')]),
    ('cached-then-lock-get_composite', [P('optimistic', [['read', 1], ['lock', 1, 'get_composite'], ['update', 1, 'inc'], C]), opt_writer()]),
    ('cached-then-lock-get_composite-vs-pessimistic', [P('optimistic', [['read', 1], ['lock', 1, 'get_composite'], ['update', 1, 'inc'], C]), mode_writer('pessimistic')]),
    ('cached-then-lock-get_reverse', [P('optimistic', [['read', 1], ['lock', 1, 'get_reverse'], ['update', 1, 'inc'], C]), opt_writer()]),
    ('cached-then-lock-get_reverse-vs-pessimistic', [P('optimistic', [['read', 1], ['lock', 1, 'get_reverse'], ['update', 1, 'inc'], C]), mode_writer('pessimistic')]),
    ('cached-then-lock-unique-midcommit', [P('optimistic', [['lock', 1, 'get_unique'], ['update', 1, 'inc'], CM('commit'), ['lock', 1, 'get_composite'], ['update', 1, 'inc'], C]), opt_writer()]),
    # several transactions in one session: commit() / db.commit() / flush()+commit() in the middle, then the same objects again
    ('midcommit-rewrite', [P('optimistic', [['lock', 1, 'get'], ['update', 1, 'inc'], CM('commit'), ['update', 1, 'inc'], C]), opt_writer()]),
    ('midcommit-relock', [P('optimistic', [['lock', 1, 'get'], CM('db_commit'), ['lock', 1, 'query'], ['update', 1, 'inc'], C]), opt_writer()]),
    ('midcommit-relock-get', [P('optimistic', [['lock', 1, 'query_nowait'], ['update', 1, 'inc'], CM('flush_commit'), ['lock', 1, 'get_skip'], ['update', 1, 'inc'], C]),
                              mode_writer('pessimistic')]),
    ('midcommit-read-write', [P('optimistic', [['lock', 1, 'get'], CM('commit'), ['read', 1], ['update', 1, 'inc'], C]), mode_writer('pessimistic')]),
    ('immediate-midcommit', [P('immediate', [['read', 1], ['update', 1, 'inc'], CM('db_commit'), ['update', 1, 'inc'], C]), opt_writer()]),
    ('midcommit-two-objects', [P('optimistic', [['lock', 1, 'get'], ['lock', 2, 'query_skip'], ['update', 1, 'inc'], CM('commit'), ['update', 2, 'inc'], C]), opt_writer(2)]),
    ('midcommit-both', [P('optimistic', [['lock', 1, 'get'], ['update', 1, 'inc'], CM('commit'), ['lock', 1, 'get'], C]),
                        P('optimistic', [['read', 1], CM('flush_commit'), ['update', 1, 'inc'], C])]),
]
TRIPLES = [
    ('locker-optimistic-pessimistic', [locker('get'), opt_writer(), mode_writer('pessimistic')]),
    ('three-lockers', [locker('get'), locker('query_nowait'), locker('get_skip')]),
    ('locker-serializable-foreign', [locker('query_skip'), mode_writer('serializable', 2), opt_writer(dom=1)]),
    ('midcommit-locker-two-writers', [P('optimistic', [['lock', 1, 'get'], ['update', 1, 'inc'], CM('commit'), ['lock', 1, 'query'], ['update', 1, 'inc'], C]),
                                      opt_writer(), mode_writer('pessimistic')]),
]
# the witness of C35_no_lost_write_full_false (known finding): a session without optimistic checks commits in its middle
WITNESSES = [
    ('witness-pessimistic', [P('pessimistic', [['read', 1], CM('commit'), ['update', 1, 'inc'], C]), opt_writer()], [0, 0, 1, 1, 1, 0, 0]),
    ('witness-serializable', [P('serializable', [['read', 1], CM('db_commit'), ['update', 1, 'inc'], C]), opt_writer()], [0, 0, 1, 1, 1, 0, 0]),
]


def retry_locker(variant, variant2=None, mode='optimistic', pre_read=True):
    """a locking load whose refusal ("database is locked") the application catches, retried in the same session"""
    prog = ([['read', 1]] if pre_read else []) + [['trylock', 1, variant], ['trylock', 1, variant2 or variant], ['update', 1, 'inc'], C]
    return P(mode, prog)

# (name, threads, refuse): refuse = [thread, n] -> the n-th BEGIN IMMEDIATE of that thread is refused by fault injection; None -> the
# refusal has to come from a session of a second Database object (lock domain 1) that holds SQLite's write lock at that moment
REFUSED = [
    ('refused-relock-vs-foreign', [retry_locker('get'), opt_writer(dom=1)], [0, 0]),
    ('refused-relock-vs-foreign-pessimistic', [retry_locker('query', 'get_unique'), mode_writer('pessimistic', dom=1)], [0, 0]),
    ('refused-relock-vs-local', [retry_locker('get_composite'), opt_writer()], [0, 0]),
    ('refused-relock-noread', [retry_locker('get_nowait', pre_read=False), opt_writer(dom=1)], [0, 0]),
    ('refused-relock-immediate', [retry_locker('get', mode='immediate', pre_read=False), opt_writer(dom=1)], [0, 0]),
    ('refused-second-begin', [P('optimistic', [['lock', 1, 'get'], ['update', 1, 'inc'], CM('commit'), ['trylock', 1, 'get'], ['trylock', 1, 'query'],
                                               ['update', 1, 'inc'], C]), opt_writer(dom=1)], [0, 1]),
    ('refused-by-foreign-locker', [retry_locker('get'), P('optimistic', [['lock', 1, 'get'], ['update', 1, 'inc'], C], 1), opt_writer(dom=1)], None),
    ('refused-by-foreign-locker-local-contender', [retry_locker('query_skip'), P('optimistic', [['lock', 1, 'query'], ['update', 1, 'inc'], C], 1), opt_writer()], None),
]

def interleavings(lens):
    """all sequences of thread picks in which thread i is picked lens[i] times"""
    total = sum(lens)
    def rec(rem, acc):
        if len(acc) == total: yield list(acc); return
        for i in range(len(rem)):
            if rem[i]:
                rem[i] -= 1; acc.append(i)
                yield from rec(rem, acc)
                acc.pop(); rem[i] += 1
    return rec(list(lens), [])


def generate(ctx):
    rng = ctx.rng
    cases = []
    def add(name, threads, schedule, fine, refuse=None):
        cases.append({'id': len(cases), 'name': name, 'threads': threads, 'schedule': schedule, 'fine': fine, 'refuse': refuse})
    for name, threads in PAIRS:
        lens = [len(t['prog']) for t in threads]
        alls = list(interleavings(lens))
        if not ctx.thorough and len(alls) > 12: alls = [alls[0], alls[-1]] + rng.sample(alls[1:-1], 10)
        for s in alls: add(name, threads, s, False)
        # fine mode: hand-off before every DB-API call; single preemption points + random schedules
        nf = ctx.scale(4, 30)
        for k in range(nf):
            a = rng.randint(0, 14); b = rng.randint(1, 14)
            add(name, threads, [0] * a + [1] * b + [0] * 40 + [1] * 40, True)
            add(name, threads, [rng.randint(0, 1) for _ in range(80)], True)
    # a refused BEGIN IMMEDIATE of a locking load, caught by the application, then the retry and a contender
    for name, threads, refuse in REFUSED:
        lens = [len(t['prog']) for t in threads]
        if len(threads) == 2:
            alls = list(interleavings(lens))
            if len(alls) > (40 if ctx.thorough else 10): alls = [alls[0], alls[-1]] + rng.sample(alls[1:-1], (38 if ctx.thorough else 8))
        else:
            # the foreign locker holds the lock while the retrying session asks for it the first time; then random continuations
            alls = []
            for k in range(ctx.scale(8, 40)):
                tail = [i for i, l in enumerate(lens) for _ in range(l)]; rng.shuffle(tail)
                alls.append([0, 1, 0] + tail)
        for sch in alls: add(name, threads, sch, False, refuse)
        for k in range(ctx.scale(3, 20)):
            add(name, threads, [rng.randint(0, len(threads) - 1) for _ in range(120)], True, refuse)
    for name, threads in TRIPLES:
        lens = [len(t['prog']) for t in threads]
        for k in range(ctx.scale(10, 150)):
            s = [i for i, l in enumerate(lens) for _ in range(l)]; rng.shuffle(s)
            add(name, threads, s, False)
        for k in range(ctx.scale(4, 40)):
            add(name, threads, [rng.randint(0, 2) for _ in range(120)], True)
    # random programs
    for name, threads, schedule in WITNESSES: add(name, threads, schedule, False)
    for k in range(ctx.scale(30, 400)):
        n = rng.choice([2, 2, 3])
        threads = []
        for i in range(n):
            mode = rng.choice(['optimistic', 'optimistic', 'serializable', 'immediate', 'pessimistic'])
            dom = 1 if rng.random() < 0.12 else 0
            prog, loaded = [], set()
            for _ in range(rng.randint(1, 4)):
                o = rng.choice(OBJS)
                r = rng.random()
                if r < 0.12 and prog: prog.append(CM(rng.choice(COMMIT_VARIANTS)))
                elif r < 0.35: prog.append(['read', o]); loaded.add(o)
                elif r < 0.6: prog.append(['lock', o, rng.choice(LOCK_VARIANTS)]); loaded.add(o)
                elif loaded:
                    o = rng.choice(sorted(loaded)); prog.append(['update', o, 'inc'])
                else: prog.append(['read', o]); loaded.add(o)
            prog.append(R if rng.random() < 0.1 else C)
            threads.append(P(mode, prog, dom))
        lens = [len(t['prog']) for t in threads]
        s = [i for i, l in enumerate(lens) for _ in range(l)]; rng.shuffle(s)
        fine = rng.random() < 0.3
        add('random', threads, [rng.randint(0, n - 1) for _ in range(100)] if fine else s, fine)
    return cases


# ---------------------------------------------------------------------------------------------------------------------
# dialect text
# ---------------------------------------------------------------------------------------------------------------------

def dialect_text(ctx):
    """FOR UPDATE emission per dialect through the offline provider stubs vs the model's printer"""
    ponyutil.add_stubs()
    from pony.orm.tests.testutils import TestDatabase
    from pony.orm import Required, db_session, select
    combos = [(False, False), (True, False), (False, True)]
    reqs, reals = [], []
    for prov in ('sqlite', 'postgres', 'mysql', 'oracle'):
        db = TestDatabase()
        class T(db.Entity):
            x = Required(int)
        try:
            db.bind(prov, ':memory:')
            db.generate_mapping(create_tables=False, check_tables=False)
        except Exception as e:
            ctx.note('dialect %s unavailable offline: %s' % (prov, e)); continue
        with db_session:
            for nowait, skip in combos:
                texts = {}
                def attempt(how, fn):
                    try: texts[how] = fn()
                    except Exception as e:
                        texts[how] = None
                        ctx.count('text:call-raised')
                        ctx.divergence('a locking call raised on the offline %s provider' % prov, {'dialect': prov, 'how': how, 'nowait': nowait, 'skip_locked': skip},
                                       impl='%s: %s' % (type(e).__name__, e))
                def by_get():
                    db.sql = None; T.get_for_update(id=1, nowait=nowait, skip_locked=skip); return db.sql
                def by_lambda():
                    db.sql = None; T.get_for_update(lambda t: t.x == 3, nowait=nowait, skip_locked=skip); return db.sql
                attempt('query', lambda: select(t for t in T if t.x > 1).for_update(nowait=nowait, skip_locked=skip).get_sql())
                attempt('get', by_get)
                attempt('lambda_get', by_lambda)
                texts['plain'] = select(t for t in T if t.x > 1).get_sql()
                for how, sql in texts.items():
                    reqs.append({'op': 'clause', 'dialect': prov, 'nowait': nowait and how != 'plain', 'skip': skip and how != 'plain'})
                    reals.append((prov, how, nowait, skip, sql))
            for how in ('query', 'get'):
                try:
                    if how == 'query': select(t for t in T).for_update(nowait=True, skip_locked=True)
                    else: T.get_for_update(id=1, nowait=True, skip_locked=True)
                    ctx.violation('nowait and skip_locked were accepted together', {'dialect': prov, 'how': how}, key='both-flags:%s:%s' % (prov, how))
                except TypeError:
                    ctx.count('text:both-flags-rejected')
    if not ctx.driver.ok: return
    outs = ctx.driver('C35', reqs)
    for (prov, how, nowait, skip, sql), m in zip(reals, outs):
        ctx.case(['text', prov, how, nowait, skip], kind='text:' + prov)
        if sql is None: continue          # the call raised (reported above)
        clause = m.get('clause')
        tail = ' '.join((sql or '').split())
        want = clause if how != 'plain' else ''
        n_for = tail.upper().count('FOR UPDATE')
        ok = (tail.endswith(want) and n_for == 1) if want else (n_for == 0 and 'NOWAIT' not in tail.upper() and 'SKIP LOCKED' not in tail.upper())
        if want and ok:
            # nothing else of the locking vocabulary besides the clause
            rest = tail[:-len(want)].upper()
            ok = 'NOWAIT' not in rest and 'SKIP LOCKED' not in rest
        if not ok:
            ctx.divergence('FOR UPDATE text differs from the model printer', {'dialect': prov, 'how': how, 'nowait': nowait, 'skip_locked': skip}, model=want, impl=sql)
            if prov != 'sqlite' and how != 'plain' and n_for == 0:
                ctx.violation('a locking query is sent to %s without FOR UPDATE: the rows are not locked' % prov,
                              {'dialect': prov, 'how': how, 'nowait': nowait, 'skip_locked': skip}, observed=sql, expected=want,
                              key='no-for-update:%s:%s' % (prov, how))


# ---------------------------------------------------------------------------------------------------------------------

def _worker(args):
    workdir, case = args
    try: return case['id'], run_case_thread(workdir, case)
    except BaseException: return case['id'], {'harness_crash': traceback.format_exc()}


def run_cases(cases, workdir):
    procs = min(8, max(1, (os.cpu_count() or 2) // 2), max(1, len(cases) // 30))
    if procs <= 1: return dict(_worker((workdir, c)) for c in cases)
    mpctx = multiprocessing.get_context('fork')
    with mpctx.Pool(procs) as pool:
        return dict(pool.imap_unordered(_worker, [(workdir, c) for c in cases], chunksize=4))


def evaluate(ctx, cases, res):
    reqs, idx = [], []
    for c in cases:
        obs = res[c['id']]
        if 'harness_crash' in obs:
            ctx.divergence('the real code raised outside the sessions under test (setup / teardown of the case)', case_json(c), impl=str(obs['harness_crash'])[-1500:])
            continue
        if obs.get('crash'):
            ctx.divergence('a session thread died with a non-Exception', case_json(c), impl=str(obs['crash'])[-1500:])
            continue
        ctx.case([[[t['mode'], t['dom'], t['prog']] for t in c['threads']], c['schedule'], c['fine'], c.get('refuse')], nontrivial=True,
                 kind=('fine:' if c['fine'] else 'coarse:') + c['name'])
        for kind, text, detail in oracle(c, obs):
            if kind == 'harness': raise RuntimeError('%s on %r' % (text, case_json(c)))
            ctx.count('violation:' + kind)
            ctx.violation(text, case_json(c), observed=detail, expected='the locked / serializably read row keeps its value until the locker ends; writers wait or fail; no committed write is lost',
                          key=KNOWN_KEY_NOCHECK if kind == 'lost-write-nocheck-after-commit' else case_key(kind, c))
        if obs['problem'] is None and (obs['final'] is None or any(e['db'] is None for e in obs['log'])):
            ctx.divergence('the observer connection was locked out between two DB-API calls: some connection keeps a PENDING/EXCLUSIVE file lock '
                           'while it is not executing anything, which the modelled protocol (BEGIN IMMEDIATE ... COMMIT) never does', case_json(c),
                           impl=[[e['t'], e['kind'], e['payload']] for e in obs['log'] if e['db'] is None][:5])
        for e in obs['log']:
            if e['kind'] != 'call': ctx.count('step:' + e['kind'])
            if e['kind'] == 'end': ctx.count('session-end:' + e['payload'][1].split(':')[0] + (':' + e['payload'][1].split(':')[1] if e['payload'][1].startswith('other') else ''))
        for t in c['threads']:
            ctx.count('mode:' + t['mode']); ctx.count('domain:%d' % t['dom'])
            for a in t['prog']:
                if a[0] in ('lock', 'trylock'): ctx.count('lock-variant:' + a[2])
                if a[0] == 'trylock': ctx.count('trylock')
                if a[0] == 'commit_mid': ctx.count('mid-commit:%s:%s' % (a[1], t['mode']))
        if obs['problem'] is None and ctx.driver.ok:
            re_ = model_request_fine(c, obs) if c['fine'] else model_request(c, obs)
            if re_ is not None:
                reqs.append(re_[0]); idx.append((c, obs, re_))
    if reqs:
        outs = ctx.driver('C35', reqs)
        for (c, obs, re_), m in zip(idx, outs): check_model(ctx, c, obs, re_, m)


def run(ctx):
    workdir = ponyutil.workdir('c35')
    try:
        if not ctx.driver.ok: ctx.note('driver unavailable: correspondence skipped, property oracle only')
        dialect_text(ctx)
        cases = generate(ctx)
        t0 = time.time()
        res = run_cases(cases, workdir)
        ctx.extra['real_runs_s'] = round(time.time() - t0, 1)
        evaluate(ctx, cases, res)
    finally:
        ponyutil.rmtree(workdir)


def replay(ctx, data):
    inp = data.get('input') or {}
    if 'threads' not in inp: return run(ctx)
    workdir = ponyutil.workdir('c35')
    try:
        case = {'id': 0, 'name': 'replay', 'threads': inp['threads'], 'schedule': inp['schedule'], 'fine': inp['fine'], 'refuse': inp.get('refuse')}
        evaluate(ctx, [case], {0: run_case_thread(workdir, case)})
    finally:
        ponyutil.rmtree(workdir)
