"""C33 — lifecycle hooks run once per saved change and their edits are saved.

Random histories on REAL Pony over a file-backed SQLite database (recording connection of harness/tracing.py + SQLite's own
statement trace with bound values, installed through Pony's `db.on_connect`): entity classes whose six hooks are SCRIPTED from the
generator (read an attribute / assign an attribute of any object / create an object with or without a reference / nothing;
different bodies for the 1st, 2nd, ... call), a session that creates, modifies and deletes objects and then calls flush(),
commit() or obj.flush().  One log records every hook entry (phase, kind, object) and every INSERT/UPDATE/DELETE (kind, object) in
the order they really happened.

Correspondence (ctx.divergence): the same initial cache state (statuses, objects_to_save, modified), the same hook script and the
observed statement order are given to the Lean model (Model/Hooks.lean: flush / entityFlush); the model's trace, final statuses,
queue, modified flag and error class must equal the real ones.
Property oracle (ctx.violation), on the real log alone:
  O1  every statement is preceded by exactly one entry of the matching before_X hook of that object since the object's previous
      statement, and followed by exactly one matching after_X entry before its next statement / the end of the flush;
  O2  no before_X / after_X entry without such a statement (when the flush did not raise);
  O3  after commit the database holds every object created (also inside hooks) and not deleted, with the value that counts every
      assignment made before the flush and inside hooks; deleted objects are gone;
  O4  a flush that ran 50 rounds and still has changes raises TransactionError; otherwise nothing is left pending.
"""
import os, re, sqlite3, json

from pony.orm import Database, Required, Optional, Set, PrimaryKey, db_session, commit, rollback, flush, select
from pony.orm import core
from tracing import Tracer
import ponyutil


class HookScriptError(Exception): pass

KIND_OF_STATUS = {'created': 'insert', 'modified': 'update', 'marked_to_delete': 'delete'}


class World(object):
    def __init__(self, path):
        self.path = path
        self.tr = Tracer()
        self.log = []            # [phase|'stmt', kind, oid]
        self.sql = []
        db = self.db = Database()
        W = self
        def mk(phase, kind):
            def hook(obj): W.hook(phase, kind, obj)
            return hook
        hooks = {'%s_%s' % (p, k): mk(p, k) for p in ('before', 'after') for k in ('insert', 'update', 'delete')}
        self.G = type('G', (db.Entity,), dict(id=PrimaryKey(int), a=Required(int), items=Set('I'), tags=Set('T'), **hooks))
        self.I = type('I', (db.Entity,), dict(id=PrimaryKey(int), g=Required('G'), a=Required(int), **hooks))
        self.T = type('T', (db.Entity,), dict(id=PrimaryKey(int), a=Required(int), gs=Set('G'), **hooks))
        @db.on_connect(provider='sqlite')
        def setup(db, connection):
            connection.execute('pragma synchronous = off')
            connection.set_trace_callback(W.on_sql)
        # SQLite's statement trace also fires for the sub-programs of a statement (foreign key actions): only the first trace
        # event after an `execute` of the recording connection is the statement itself
        self.armed = False
        def arm(ev):
            if ev['call'] == 'execute': W.armed = 'one'
            elif ev['call'] == 'executemany': W.armed = 'many'        # one trace event per row of the batch
        self.tr.before_call.append(arm)
        db.bind('sqlite', path, create_db=True, **self.tr.bind_kwargs())
        db.generate_mapping(create_tables=True)
        self.raw = sqlite3.connect(path, isolation_level=None)
        self.raw.execute('pragma synchronous = off')
        self.link_table = self.G.tags.table if isinstance(self.G.tags.table, str) else self.G.tags.table[-1]
        self.link_g_col = self.T.gs.columns[0]        # column of the link table that holds the G key
        self.link_t_col = self.G.tags.columns[0]
        self.reset_case()

    def reset_case(self):
        self.reg = []; self.oid = {}; self.expected = []; self.cls = []; self.refs = []
        self.script = {}; self.calls = {}; self.log = []; self.sql = []; self.in_hook = 0
        self.links = set()        # the engine's own book of many-to-many pairs (g oid, t oid)
        self.cur_hook = None      # object whose hook body is running
        self.cross_ref = False    # a hook stored a reference into ANOTHER object than its own

    # -- statements ----------------------------------------------------------------------------------------------------
    def on_sql(self, text):
        if not self.armed: return
        if self.armed == 'one': self.armed = False
        t = ' '.join(text.split())
        m = re.match(r'INSERT INTO "%s" \("(\w+)", "(\w+)"\) VALUES \((-?\d+), (-?\d+)\)' % self.link_table, t)
        if m:
            d = {m.group(1): int(m.group(3)) - 1, m.group(2): int(m.group(4)) - 1}
            self.log.append(['linkIns', d[self.link_g_col], d[self.link_t_col]]); self.sql.append(t); return
        m = re.match(r'DELETE FROM "%s" WHERE "(\w+)" = (-?\d+) AND "(\w+)" = (-?\d+)' % self.link_table, t)
        if m:
            d = {m.group(1): int(m.group(2)) - 1, m.group(3): int(m.group(4)) - 1}
            self.log.append(['linkDel', d[self.link_g_col], d[self.link_t_col]]); self.sql.append(t); return
        m = re.match(r'INSERT INTO "(\w+)" \(([^)]*)\) VALUES \((-?\d+)', t)
        if m:
            assert m.group(2).split(',')[0].strip() == '"id"', t
            self.log.append(['stmt', 'insert', int(m.group(3)) - 1]); self.sql.append(t); return
        m = re.match(r'UPDATE "(\w+)" SET .* WHERE "id" = (-?\d+)', t)
        if m:
            self.log.append(['stmt', 'update', int(m.group(2)) - 1]); self.sql.append(t); return
        m = re.match(r'DELETE FROM "(\w+)" WHERE "id" = (-?\d+)', t)
        if m:
            self.log.append(['stmt', 'delete', int(m.group(2)) - 1]); self.sql.append(t); return
        if t.split(' ', 1)[0] in ('INSERT', 'UPDATE', 'DELETE', 'REPLACE'):
            raise AssertionError('unparsed write statement: ' + t)

    # -- objects ---------------------------------------------------------------------------------------------------------
    def register(self, obj, cls, value, ref):
        self.oid[obj] = len(self.reg); self.reg.append(obj); self.cls.append(cls); self.expected.append(value)
        self.refs.append([] if ref is None else [ref])

    def create(self, cls, ref, tags=None):
        oid = len(self.reg)
        if cls == 'G':
            if tags is not None:
                if tags >= len(self.reg) or self.cls[tags] != 'T': raise HookScriptError('no such T %r' % (tags,))
                obj = self.G(id=oid + 1, a=0, tags=[self.reg[tags]]); self.links.add((oid, tags))
            else: obj = self.G(id=oid + 1, a=0)
        elif cls == 'T': obj = self.T(id=oid + 1, a=0)
        else:
            if ref is None or ref >= len(self.reg) or self.cls[ref] != 'G': raise HookScriptError('no such G %r' % (ref,))
            obj = self.I(id=oid + 1, g=self.reg[ref], a=0)
        self.register(obj, cls, 0, ref if cls == 'I' else None)
        return obj

    def modify(self, t):
        if t >= len(self.reg): raise HookScriptError('no such object %d' % t)
        obj = self.reg[t]
        obj.a = obj.a + 1
        self.expected[t] += 1

    def read(self, t):
        if t < len(self.reg): self.reg[t].a

    def link(self, g, t, add):
        if g >= len(self.reg) or t >= len(self.reg) or self.cls[g] != 'G' or self.cls[t] != 'T': raise HookScriptError('no such pair %r' % ((g, t),))
        if add: self.reg[g].tags.add(self.reg[t]); self.links.add((g, t))
        else: self.reg[g].tags.remove(self.reg[t]); self.links.discard((g, t))

    def setref(self, i, g):
        if i >= len(self.reg) or g >= len(self.reg) or self.cls[i] != 'I' or self.cls[g] != 'G': raise HookScriptError('no such I/G %r' % ((i, g),))
        if self.cur_hook is not None and self.cur_hook != i: self.cross_ref = True
        self.reg[i].g = self.reg[g]
        self.refs[i] = [g]

    def run_op(self, op):
        if op[0] == 'read': self.read(op[1])
        elif op[0] == 'modify': self.modify(op[1])
        elif op[0] == 'create': self.create(op[1], op[2], op[3] if len(op) > 3 else None)
        elif op[0] == 'link': self.link(op[1], op[2], True)
        elif op[0] == 'unlink': self.link(op[1], op[2], False)
        elif op[0] == 'createT_link': self.create('T', None); self.link(op[1], len(self.reg) - 1, True)
        elif op[0] == 'setref': self.setref(op[1], op[2])
        elif op[0] == 'createG_setref':       # a new G stored in the reference attribute of the I object op[1]
            if op[1] >= len(self.reg) or self.cls[op[1]] != 'I': raise HookScriptError('no such I %r' % (op[1],))
            self.create('G', None); self.setref(op[1], len(self.reg) - 1)
        elif op[0] == 'query': self.db.select('select count(*) from "G"')      # a read through the database: auto-flush unless flush is disabled (before_* hooks)

    # -- hooks -----------------------------------------------------------------------------------------------------------
    def hook(self, phase, kind, obj):
        oid = self.oid[obj]
        self.log.append([phase, kind, oid])
        key = (phase, kind, oid)
        n = self.calls.get(key, 0); self.calls[key] = n + 1
        e = self.script.get(key)
        if e is None: return
        ops = e['calls'][n] if n < len(e['calls']) else e['rest']
        prev = self.cur_hook; self.cur_hook = oid
        try:
            for op in ops: self.run_op(op)
        finally: self.cur_hook = prev

    def close(self):
        try: self.db.disconnect()
        except Exception: pass
        self.tr.cleanup(); self.raw.close()


# ---------------------------------------------------------------------------------------------------------------------
# case generation
# ---------------------------------------------------------------------------------------------------------------------

def gen_case(rng, shape=None):
    nG = rng.choice([1, 1, 2, 3]); nI = rng.choice([0, 1, 2, 3]); nT = rng.choice([0, 1, 2, 2])
    init = [['G', None] for _ in range(nG)] + [['I', rng.randrange(nG)] for _ in range(nI)] + [['T', None] for _ in range(nT)]
    links0 = [[g, nG + nI + t] for g in range(nG) for t in range(nT) if rng.random() < 0.4]
    n0 = len(init)
    pre = []; n = n0; cls = [c for c, _ in init]; deleted = set()
    def live(c): return [i for i in range(n) if cls[i] == c and i not in deleted]
    for _ in range(rng.choice([0, 1, 2, 3, 4, 5, 6])):
        r = rng.random()
        alive = [i for i in range(n) if i not in deleted]
        if r < 0.25 and alive:
            pre.append(['modify', rng.choice(alive)])
        elif r < 0.37:
            pre.append(['create', 'G', None]); cls.append('G'); n += 1
        elif r < 0.45:
            pre.append(['create', 'T', None]); cls.append('T'); n += 1
        elif r < 0.52 and live('T'):
            pre.append(['create', 'G', None, rng.choice(live('T'))]); cls.append('G'); n += 1
        elif r < 0.64 and live('G'):
            pre.append(['create', 'I', rng.choice(live('G'))]); cls.append('I'); n += 1
        elif r < 0.8 and live('G') and live('T'):
            pre.append([rng.choice(['link', 'link', 'unlink']), rng.choice(live('G')), rng.choice(live('T'))])
        elif r < 0.87 and live('I') and live('G'):
            pre.append(['setref', rng.choice(live('I')), rng.choice(live('G'))])
        elif alive:
            t = rng.choice(alive)
            pre.append(['delete', t]); deleted.add(t)
            if cls[t] == 'G':      # cascade (approximation for the generator's target choice only; the real cache decides)
                for i, e in enumerate(init):
                    if e[0] == 'I' and e[1] == t: deleted.add(i)
    horizon = n + 3
    never_deleted = [i for i in range(n) if i not in deleted and cls[i] != 'I']
    action = rng.choice(['flush', 'flush', 'commit', 'entity_flush'])
    with_queries = rng.random() < 0.25
    def body():
        ops = []
        for _ in range(rng.choice([0, 1, 1, 1, 2, 3])):
            r = rng.random()
            if r < 0.06 and with_queries: ops.append(['query'])
            elif r < 0.1:
                if never_deleted: ops.append(['read', rng.choice(never_deleted)])
            elif r < 0.4:
                t = rng.randrange(horizon) if rng.random() < 0.25 else rng.choice([i for i in range(n) if i not in deleted] or [0])
                ops.append(['modify', t])
            elif r < 0.5: ops.append(['create', 'G', None])
            elif r < 0.6:
                ops.append(['create', 'I', rng.choice(live('G'))] if live('G') else ['create', 'G', None])
            elif r < 0.78:
                if live('G') and live('T'): ops.append([rng.choice(['link', 'link', 'unlink']), rng.choice(live('G')), rng.choice(live('T'))])
            elif r < 0.86:
                if live('G'): ops.append(['createT_link', rng.choice(live('G'))])
            elif r < 0.93:
                if live('T'): ops.append(['create', 'G', None, rng.choice(live('T'))])
            elif r < 0.965:
                if live('I') and live('G'): ops.append(['setref', rng.choice(live('I')), rng.choice(live('G'))])
            else:
                if live('I'): ops.append(['createG_setref', rng.choice(live('I'))])
        return ops
    script = []
    p_hook = rng.choice([0.15, 0.3, 0.5])
    for oid in range(horizon):
        for phase in ('before', 'after'):
            for kind in ('insert', 'update', 'delete'):
                if rng.random() < p_hook:
                    calls = [body() for _ in range(rng.choice([1, 1, 2]))]
                    rest = []
                    if phase == 'after' and rng.random() < 0.06: rest = [['modify', oid]]          # never settles: the 50-round limit
                    if kind == 'delete':
                        # a deleted object cannot be read / assigned / own a link any more
                        calls = [[op for op in c if not (op[0] in ('modify', 'read', 'link', 'unlink', 'createT_link', 'setref', 'createG_setref') and oid in op[1:])
                                  and not (op[0] == 'create' and oid in op[2:])] for c in calls]; rest = []
                    script.append({'phase': phase, 'kind': kind, 'obj': oid, 'calls': calls, 'rest': rest})
    return {'init': init, 'links0': links0, 'pre': pre, 'script': script, 'action': action, 'pick': rng.randrange(1000)}


def model_ops(ops):
    out = []
    for op in ops:
        if op[0] in ('read', 'modify'): out.append([op[0], op[1]])
        elif op[0] == 'create':
            out.append(['create'])
            if op[1] == 'I' and op[2] is not None: out.append(['refNewTo', op[2]])
            if len(op) > 3 and op[3] is not None: out.append(['linkNewOwner', op[3]])
        elif op[0] == 'createG_setref': out.append(['create']); out.append(['refToNew', op[1]])
        elif op[0] in ('link', 'unlink'): out.append([op[0], op[1], op[2]])
        elif op[0] == 'createT_link': out.append(['create']); out.append(['linkNewItem', op[1]])
        elif op[0] == 'setref': out.append(['setRef', op[1], op[2]])
        elif op[0] == 'query': out.append(['query'])
    return out


SHAPES = [
    # hand-written shapes that every run replays (the ones the property text singles out)
    {'name': 'before_insert creates an object', 'init': [['G', None]], 'pre': [['create', 'G', None]],
     'script': [{'phase': 'before', 'kind': 'insert', 'obj': 1, 'calls': [[['create', 'I', 0]]], 'rest': []}], 'action': 'flush', 'pick': 0},
    {'name': 'before_update modifies another loaded object', 'init': [['G', None], ['G', None]], 'pre': [['modify', 0]],
     'script': [{'phase': 'before', 'kind': 'update', 'obj': 0, 'calls': [[['modify', 1], ['modify', 0]]], 'rest': []}], 'action': 'flush', 'pick': 0},
    {'name': 'after_insert modifies an object saved in the same round', 'init': [['G', None]], 'pre': [['modify', 0], ['create', 'G', None]],
     'script': [{'phase': 'after', 'kind': 'insert', 'obj': 1, 'calls': [[['modify', 0], ['modify', 1]]], 'rest': []}], 'action': 'commit', 'pick': 0},
    {'name': 'before hook modifies an object whose before hook has already run', 'init': [['G', None], ['G', None]], 'pre': [['modify', 0], ['modify', 1]],
     'script': [{'phase': 'before', 'kind': 'update', 'obj': 1, 'calls': [[['modify', 0]]], 'rest': []}], 'action': 'flush', 'pick': 0},
    {'name': 'after hook that never settles: 50 rounds', 'init': [['G', None]], 'pre': [['modify', 0]],
     'script': [{'phase': 'after', 'kind': 'update', 'obj': 0, 'calls': [], 'rest': [['modify', 0]]}], 'action': 'flush', 'pick': 0},
    {'name': 'obj.flush() of an object that refers to a new object', 'init': [], 'pre': [['create', 'G', None], ['create', 'I', 0]],
     'script': [{'phase': 'before', 'kind': 'insert', 'obj': 0, 'calls': [[['modify', 0]]], 'rest': []}], 'action': 'entity_flush', 'pick': 1},
    {'name': 'obj.flush(): before_insert creates the referenced chain', 'init': [['G', None]], 'pre': [['create', 'G', None], ['create', 'I', 1]],
     'script': [{'phase': 'before', 'kind': 'insert', 'obj': 2, 'calls': [[['create', 'G', None], ['modify', 1]]], 'rest': []},
                {'phase': 'after', 'kind': 'insert', 'obj': 1, 'calls': [[['modify', 0]]], 'rest': []}], 'action': 'entity_flush', 'pick': 2},
    {'name': 'before_update adds and removes many-to-many links', 'init': [['G', None], ['T', None], ['T', None]], 'links0': [[0, 1]], 'pre': [['modify', 0]],
     'script': [{'phase': 'before', 'kind': 'update', 'obj': 0, 'calls': [[['link', 0, 2], ['unlink', 0, 1]]], 'rest': []}], 'action': 'commit', 'pick': 0},
    {'name': 'before_insert links the new object to a tag it creates', 'init': [['G', None]], 'links0': [], 'pre': [['create', 'G', None]],
     'script': [{'phase': 'before', 'kind': 'insert', 'obj': 1, 'calls': [[['createT_link', 1], ['createT_link', 0]]], 'rest': []}], 'action': 'commit', 'pick': 0},
    {'name': 'before_delete creates an object with a collection', 'init': [['G', None], ['T', None], ['I', 0]], 'links0': [], 'pre': [['delete', 2]],
     'script': [{'phase': 'before', 'kind': 'delete', 'obj': 2, 'calls': [[['create', 'G', None, 1]]], 'rest': []}], 'action': 'commit', 'pick': 0},
    {'name': 'after_update changes links and a reference', 'init': [['G', None], ['G', None], ['I', 0], ['T', None]], 'links0': [[0, 3]], 'pre': [['modify', 2]],
     'script': [{'phase': 'after', 'kind': 'update', 'obj': 2, 'calls': [[['unlink', 0, 3], ['link', 1, 3], ['setref', 2, 1]]], 'rest': []}], 'action': 'commit', 'pick': 0},
    {'name': 'after_insert queries the database after modifying another object (nested flush)', 'init': [['G', None]], 'links0': [], 'pre': [['create', 'G', None], ['create', 'G', None]],
     'script': [{'phase': 'after', 'kind': 'insert', 'obj': 1, 'calls': [[['modify', 2], ['modify', 0], ['query']]], 'rest': []},
                {'phase': 'after', 'kind': 'update', 'obj': 2, 'calls': [[['modify', 1], ['query']]], 'rest': []}], 'action': 'commit', 'pick': 0},
    {'name': 'before_update queries the database (flush disabled)', 'init': [['G', None], ['G', None]], 'links0': [], 'pre': [['modify', 0]],
     'script': [{'phase': 'before', 'kind': 'update', 'obj': 0, 'calls': [[['modify', 1], ['query']]], 'rest': []}], 'action': 'flush', 'pick': 0},
    {'name': 'obj.flush() of a modified object whose before_update creates the object it then refers to', 'init': [['G', None], ['I', 0]], 'links0': [],
     'pre': [['modify', 1]], 'script': [{'phase': 'before', 'kind': 'update', 'obj': 1, 'calls': [[['createG_setref', 1]]], 'rest': []}], 'action': 'entity_flush', 'pick': 0},
    {'name': 'obj.flush() of a new object whose before_insert replaces its reference by a new object', 'init': [['G', None]], 'links0': [],
     'pre': [['create', 'I', 0]], 'script': [{'phase': 'before', 'kind': 'insert', 'obj': 1, 'calls': [[['createG_setref', 1], ['modify', 2]]], 'rest': []}], 'action': 'entity_flush', 'pick': 0},
    {'name': 'flush(): before_update creates the object it then refers to', 'init': [['G', None], ['I', 0]], 'links0': [],
     'pre': [['modify', 1]], 'script': [{'phase': 'before', 'kind': 'update', 'obj': 1, 'calls': [[['createG_setref', 1]]], 'rest': []}], 'action': 'commit', 'pick': 0},
    {'name': 'hook touches a deleted object', 'init': [['G', None], ['G', None]], 'pre': [['delete', 1], ['modify', 0]],
     'script': [{'phase': 'before', 'kind': 'update', 'obj': 0, 'calls': [[['modify', 1]]], 'rest': []}], 'action': 'flush', 'pick': 0},
]


# ---------------------------------------------------------------------------------------------------------------------
# running a case on the real code
# ---------------------------------------------------------------------------------------------------------------------

def link_state(W):
    """(view, pendAdd, pendRem) of the many-to-many relationship as the real cache holds it (G side), as oid pairs"""
    view, add, rem = set(), set(), set()
    attr = W.G.tags
    for o in W.reg:
        if not isinstance(o, W.G) or o._vals_ is None: continue
        sd = o._vals_.get(attr)
        if sd is None: continue
        g = W.oid[o]
        for t in sd: view.add((g, W.oid[t]))
        for t in (sd.added or ()): add.add((g, W.oid[t]))
        for t in (sd.removed or ()): rem.add((g, W.oid[t]))
    return sorted(map(list, view)), sorted(map(list, add)), sorted(map(list, rem))


def run_real(W, case):
    W.db.disconnect()
    raw = W.raw
    raw.execute('begin'); raw.execute('delete from "%s"' % W.link_table); raw.execute('delete from "I"'); raw.execute('delete from "G"'); raw.execute('delete from "T"')
    for i, e in enumerate(case['init']):
        c, ref = e[0], e[1]
        if c == 'G': raw.execute('insert into "G" (id, a) values (?, 0)', (i + 1,))
        elif c == 'T': raw.execute('insert into "T" (id, a) values (?, 0)', (i + 1,))
    for i, e in enumerate(case['init']):
        if e[0] == 'I': raw.execute('insert into "I" (id, g, a) values (?, ?, 0)', (i + 1, e[1] + 1))
    for g, t in case.get('links0', []):
        raw.execute('insert into "%s" ("%s", "%s") values (?, ?)' % (W.link_table, W.link_g_col, W.link_t_col), (g + 1, t + 1))
    raw.execute('commit')
    W.reset_case()
    W.links = set((g, t) for g, t in case.get('links0', []))
    W.script = {(e['phase'], e['kind'], e['obj']): e for e in case['script']}
    res = {'error': None, 'skipped': None}
    try:
        with db_session:
            cache = W.db._get_cache()
            for i, e in enumerate(case['init']):
                c, ref = e[0], e[1]
                obj = {'G': W.G, 'I': W.I, 'T': W.T}[c][i + 1]
                W.register(obj, c, 0, ref if c == 'I' else None)
            for o in W.reg:
                if isinstance(o, W.G): o.tags.load()
            dirty = [0] * len(W.reg)
            for op in case['pre']:
                try:
                    if op[0] == 'delete': W.reg[op[1]].delete()
                    else:
                        W.run_op(op)
                        while len(dirty) < len(W.reg): dirty.append(1)
                        if op[0] == 'modify': dirty[op[1]] += 1
                        elif op[0] == 'setref': dirty[op[1]] += 1
                except (core.OperationWithDeletedObjectError, HookScriptError, core.ConstraintError):
                    pass            # the generator does not know about cascades: an impossible pre-op is simply skipped
            while len(dirty) < len(W.reg): dirty.append(1)
            W.log = []; W.sql = []; W.calls = {}
            view, padd, prem = link_state(W)
            dbl = [[g - 1, t - 1] for g, t in raw.execute('select "%s", "%s" from "%s"' % (W.link_g_col, W.link_t_col, W.link_table))]
            init_state = {'objs': [[o._status_, dirty[i]] for i, o in enumerate(W.reg)],
                          'queue': [None if o is None else W.oid[o] for o in cache.objects_to_save],
                          'modified': bool(cache.modified),
                          'links': {'view': view, 'pendAdd': padd, 'pendRem': prem, 'db': sorted(dbl)},
                          'refs': [list(r) for r in W.refs]}
            res['init_state'] = init_state
            target = None
            if case['action'] == 'entity_flush':
                pend = [i for i, o in enumerate(W.reg) if o._status_ in KIND_OF_STATUS]
                if not pend: res['skipped'] = 'nothing pending'
                else: target = pend[case['pick'] % len(pend)]
            res['target'] = target
            m2 = W.tr.mark()
            try:
                if case['action'] == 'entity_flush':
                    if target is not None: W.reg[target].flush()
                else:
                    flush()
            except core.TransactionError as e:
                res['error'] = 'limit' if 'Recursion depth limit' in str(e) else type(e).__name__
            except (core.OperationWithDeletedObjectError, HookScriptError) as e:
                res['error'] = 'hookRaised'
            except Exception as e:
                res['error'] = 'unexpected:' + type(e).__name__
            res['log'] = [list(x) for x in W.log]
            res['cross_ref'] = bool(W.cross_ref)
            evs = W.tr.db_events(W.tr.since(m2))
            res['traced_writes'] = len([e for e in evs if e['call'] == 'execute' and e['kind'] in ('insert', 'update', 'delete')])
            res['traced_batches'] = len([e for e in evs if e['call'] == 'executemany'])
            v2, a2, r2 = link_state(W)
            res['final'] = {'objs': [o._status_ if o._status_ != 'cancelled' else 'deleted' for o in W.reg],
                            'queue': [W.oid[o] for o in cache.objects_to_save if o is not None], 'modified': bool(cache.modified),
                            'links': {'view': v2, 'pendAdd': a2, 'pendRem': r2}}
            res['refs'] = [list(r) for r in W.refs]
            res['cls'] = list(W.cls)
            res['pending_after'] = [i for i, o in enumerate(W.reg) if o._status_ in KIND_OF_STATUS]
            if res['error']:
                rollback()
            else:
                commit()
                res['commit_log'] = [list(x) for x in W.log]
                res['expected'] = list(W.expected)
                res['status_end'] = [o._status_ for o in W.reg]
                res['links_end'] = sorted(list(p) for p in W.links)
                res['refs_end'] = [list(r) for r in W.refs]
    except (core.OperationWithDeletedObjectError, HookScriptError) as e:
        res['commit_hook_error'] = True       # a scripted hook of the flush inside commit() touched a deleted / unknown object
    except core.TransactionError as e:
        if 'Recursion depth limit' in str(e): res['commit_hook_error'] = True
        else: res['commit_error'] = type(e).__name__ + ': ' + str(e)[:200]
    except Exception as e:            # any other error at commit after a successful flush
        res['commit_error'] = type(e).__name__ + ': ' + str(e)[:200]
        try: rollback()
        except Exception: pass
    res['db'] = {'G': dict(raw.execute('select id, a from "G"').fetchall()), 'I': dict(raw.execute('select id, a from "I"').fetchall()),
                 'T': dict(raw.execute('select id, a from "T"').fetchall()),
                 'Iref': dict(raw.execute('select id, g from "I"').fetchall()),
                 'links': sorted([g - 1, t - 1] for g, t in raw.execute('select "%s", "%s" from "%s"' % (W.link_g_col, W.link_t_col, W.link_table)))}
    return res


# ---------------------------------------------------------------------------------------------------------------------
# oracle
# ---------------------------------------------------------------------------------------------------------------------

def once_oracle(log, complete, nested=False):
    """O1/O2 on a hook/statement log; returns a list of (key, description, event index)"""
    bad = []
    armed = {}       # (kind, oid) -> index of the before entry waiting for its statement
    written = {}     # (kind, oid) -> indices of the statements waiting for their after entry (a stack: a query inside an after_* hook
                     #               flushes recursively, so an object can be written again before the after-hook of its first statement runs)
    for i, (ph, kind, oid) in enumerate(log):
        if ph in ('linkIns', 'linkDel'): continue
        k = (kind, oid)
        if ph == 'before':
            if k in armed: bad.append(('double-before', 'before_%s entered twice for one statement' % kind, i))
            armed[k] = i
        elif ph == 'stmt':
            if k not in armed: bad.append(('stmt-without-before', '%s statement without a preceding before_%s' % (kind.upper(), kind), i))
            else: del armed[k]
            if written.get(k) and not nested: bad.append(('stmt-without-after', 'second %s statement before the after_%s of the first' % (kind.upper(), kind), i))
            written.setdefault(k, []).append(i)
        else:
            if not written.get(k): bad.append(('after-without-stmt', 'after_%s without a statement' % kind, i))
            else: written[k].pop()
    if complete:
        for k, i in armed.items(): bad.append(('before-without-stmt', 'before_%s entered but the object was not written' % k[0], i))
        for k, l in written.items():
            for i in l: bad.append(('stmt-without-after', '%s statement without an after_%s' % (k[0].upper(), k[0]), i))
    return bad


def canon_log(log):
    """the rows of one executemany batch come from a set: sort every run of consecutive link events of the same kind"""
    out = []; i = 0
    while i < len(log):
        if log[i][0] in ('linkIns', 'linkDel'):
            j = i
            while j < len(log) and log[j][0] == log[i][0]: j += 1
            out.extend(sorted(log[i:j])); i = j
        else:
            out.append(log[i]); i += 1
    return out

def brief(case):
    return {'init': case['init'], 'links0': case.get('links0', []), 'pre': case['pre'], 'action': case['action'], 'pick': case.get('pick'),
            'script': [e for e in case['script'] if any(e['calls']) or e['rest']]}

def shrink_key(case, res, tag):
    if case['action'] == 'entity_flush' and res.get('cross_ref'):
        # obj.flush(): a hook body stored a reference into ANOTHER object (already scanned, or the flushed object itself from the hook of
        # one of the new objects it refers to): Entity.flush's single scan pass misses it.  One canonical key for this narrow class.
        return 'entity_flush:hook-rereferences-another-object'
    return '%s:%s' % (case['action'] if case['action'] == 'entity_flush' else 'flush', tag)


def check_case(ctx, W, case, pending):
    res = run_real(W, case)
    name = case.get('name')
    if res.get('skipped'):
        ctx.count('skipped:' + res['skipped']); return
    if 'init_state' not in res:
        raise RuntimeError('the session could not be set up: %r / %r' % (res.get('commit_error'), brief(case)))
    log = res.get('log', [])
    nrounds = 0; prev = None
    for ph, _, _ in log:
        if ph == 'before' and prev != 'before': nrounds += 1
        prev = ph
    ctx.case([case['init'], case.get('links0', []), case['pre'], case['action'], case.get('pick'), [[e['phase'], e['kind'], e['obj'], e['calls'], e['rest']] for e in case['script'] if any(e['calls']) or e['rest']]],
             kind='action:' + case['action'])
    ctx.count('rounds:%s' % (nrounds if nrounds < 4 else ('4-49' if nrounds < 50 else '50')))
    ctx.count('outcome:' + (res['error'] or 'ok'))
    ctx.count('hook-entries', len([1 for e in log if e[0] in ('before', 'after')])); ctx.count('statements', len([1 for e in log if e[0] == 'stmt']))
    ctx.count('link-rows-written', len([1 for e in log if e[0] in ('linkIns', 'linkDel')]))
    hook_ops = [op[0] for e in case['script'] for c in e['calls'] for op in c]
    if any(o in ('link', 'unlink', 'createT_link') or False for o in hook_ops) or any(op[0] == 'create' and len(op) > 3 for e in case['script'] for c in e['calls'] for op in c):
        ctx.count('script-with-m2m-ops-in-hooks')
    if 'setref' in hook_ops or 'createG_setref' in hook_ops: ctx.count('script-with-reference-change-in-hooks')
    if 'createG_setref' in hook_ops and case['action'] == 'entity_flush': ctx.count('entity_flush:hook-creates-and-references-an-object')
    if any(len(W_refs) for W_refs in res.get('refs', [])): ctx.count('with-references')
    n_init = len(res['init_state']['objs'])
    if len(res.get('cls', [])) > n_init: ctx.count('objects-created-inside-hooks', len(res['cls']) - n_init)
    befores = [e for e in log if e[0] == 'before']
    if any(e[2] >= n_init for e in befores): ctx.count('before-hook-of-object-created-by-a-hook')
    queued0 = set(q for q in res['init_state']['queue'] if q is not None)
    if any(e[2] < n_init and e[2] not in queued0 for e in befores): ctx.count('before-hook-of-object-queued-by-a-hook')
    if case['action'] == 'entity_flush' and len(befores) > 1: ctx.count('entity_flush:with-principal-objects')
    if case['action'] == 'entity_flush' and res.get('target') is not None and res['init_state']['objs'][res['target']][0] == 'marked_to_delete':
        ctx.count('entity_flush:of-a-deleted-object (= session flush)')
    inp = dict(brief(case), name=name)
    nested = any(op[0] == 'query' for e in case['script'] if e['phase'] == 'after' for c in (e['calls'] + [e['rest']]) for op in c)
    if res['error'] and res['error'].startswith('unexpected:'):
        ctx.violation('flush raised %s although the hooks only read, assign, create and link' % res['error'][11:], inp,
                      observed={'exception': res['error'][11:], 'log_tail': log[-8:]}, expected='no exception', key='flush:unexpected-exception:' + res['error'][11:])
        return
    # O1/O2
    complete = res['error'] is None
    if res['error'] in (None, 'limit'):
        for key, what, i in once_oracle(log, complete, nested):
            ctx.violation('lifecycle hooks and statements are not one-to-one: ' + what, inp,
                          observed={'log': log[max(0, i - 6): i + 4], 'at': log[i]}, expected='once-before / once-after per statement',
                          key=shrink_key(case, res, key))
    stmts = [e for e in log if e[0] == 'stmt']
    if len(stmts) != res.get('traced_writes'):
        ctx.divergence('SQLite statement trace and the recording connection disagree on the number of write statements', inp,
                       model=len(stmts), impl=res.get('traced_writes'))
    # O4
    if res['error'] == 'limit' and (nrounds != 50 if not nested else nrounds < 50):
        ctx.violation('the recursion-limit error was raised after %d rounds' % nrounds, inp, observed=nrounds, expected=50, key='limit-rounds')
    if res['error'] is None and case['action'] != 'entity_flush' and (res['pending_after'] or res['final']['modified']):
        ctx.violation('flush() returned with changes still pending', inp, observed=res['final'], expected='nothing pending', key='flush:pending-left')
    # O3
    if res['error'] is None:
        if res.get('commit_hook_error'):
            ctx.count('commit-ended-by-hook-error')
        elif res.get('commit_error') and case['action'] == 'entity_flush' and res['commit_error'].startswith(('OptimisticCheckError', 'TransactionIntegrityError')):
            # obj.flush() writes ONE object out of queue order (e.g. the DELETE of a G before the UPDATE that moves its former item away):
            # the database's own ON DELETE CASCADE then conflicts with the rest of the queue at commit.  Statement order and cascades are
            # the subject of C15/C16, not of the hook property: the case ends here (counted, reported in the evidence notes).
            ctx.count('entity_flush:commit-ended-by-database-conflict')
            if not any('out of queue order' in n for n in ctx.notes):
                ctx.note('obj.flush() out of queue order followed by commit() hit a database conflict (%s) for history %s' % (res['commit_error'][:80], json.dumps(brief(case))[:300]))
        elif res.get('commit_error'):
            ctx.violation('commit after the flush failed', inp, observed=res['commit_error'], expected='commit', key='commit-error')
        else:
            extra = once_oracle(res['commit_log'], True, nested)
            for key, what, i in extra:
                ctx.violation('lifecycle hooks and statements are not one-to-one (including the commit): ' + what, inp,
                              observed={'log': res['commit_log'][max(0, i - 6): i + 4]}, expected='once-before / once-after per statement',
                              key=shrink_key(case, res, 'commit:' + key))
            gone = set(i for i, st in enumerate(res['status_end']) if st in ('deleted', 'cancelled', 'marked_to_delete'))
            exp_links = sorted(p for p in res['links_end'] if p[0] not in gone and p[1] not in gone)
            if res['db']['links'] != exp_links:
                ctx.violation('the many-to-many link rows in the database after commit differ from the links made in the session (before the flush and inside hooks)',
                              inp, observed={'link_table': res['db']['links']}, expected=exp_links, key='db:links-differ')
            for oid, (cls, refs, st) in enumerate(zip(res['cls'], res['refs_end'], res['status_end'])):
                if cls == 'I' and oid not in gone and res['db']['Iref'].get(oid + 1) != refs[0] + 1:
                    ctx.violation('a reference assigned before the flush or inside a hook is missing in the database after commit', inp,
                                  observed={'obj': oid, 'db_g': res['db']['Iref'].get(oid + 1)}, expected=refs[0] + 1, key='db:reference-lost')
            for oid, (cls, exp, st) in enumerate(zip(res['cls'], res['expected'], res['status_end'])):
                row = res['db'][cls].get(oid + 1)
                if st in ('deleted', 'cancelled', 'marked_to_delete'):
                    if row is not None:
                        ctx.violation('a deleted object is still in the database after commit', inp, observed={'obj': oid, 'row': row}, expected=None, key='db:deleted-present')
                elif row != exp:
                    ctx.violation('an assignment or an object made before the flush or inside a hook is missing in the database after commit', inp,
                                  observed={'obj': oid, 'cls': cls, 'db': row}, expected=exp, key='db:edit-lost')
    # model
    rounds = []; prev = None
    for ph, kind, oid in log:
        if ph == 'before' and prev != 'before': rounds.append([])
        if ph == 'stmt':
            if not rounds: rounds.append([])
            rounds[-1].append(oid)
        prev = ph
    script = [{'before': e['phase'] == 'before', 'kind': e['kind'], 'obj': e['obj'],
               'calls': [model_ops(c) for c in e['calls']], 'rest': model_ops(e['rest'])} for e in case['script']]
    if nested: ctx.count('nested:query-inside-after-hook' + (':obj.flush()' if case['action'] == 'entity_flush' else ''))
    if any(op[0] == 'query' for e in case['script'] if e['phase'] == 'before' for c in (e['calls'] + [e['rest']]) for op in c): ctx.count('query-inside-before-hook')
    # the statement order of every round, keyed by the number of trace events when its save loop starts
    clog = canon_log(log); orders = []; i = 0
    while i < len(clog):
        if clog[i][0] == 'before':
            while i < len(clog) and clog[i][0] == 'before': i += 1
            j = i; obs = []
            while j < len(clog) and clog[j][0] in ('stmt', 'linkDel', 'linkIns'):
                if clog[j][0] == 'stmt': obs.append(clog[j][2])
                j += 1
            orders.append([i, obs])
        else: i += 1
    if case['action'] == 'entity_flush':
        req = {'op': 'entityFlush', 'state': res['init_state'], 'script': script, 'bfuel': 100000, 'obj': res['target'], 'orders': orders, 'depth': 40}
    else:
        req = {'op': 'flushN', 'state': res['init_state'], 'script': script, 'bfuel': 100000, 'orders': orders, 'depth': 40}
    pending.append((req, res, inp))


def check_model(ctx, pending):
    if not ctx.driver.ok:
        ctx.note('driver unavailable: correspondence skipped'); return
    outs = ctx.driver('C33', [p[0] for p in pending])
    for (req, res, inp), m in zip(pending, outs):
        if 'driver_error' in m:
            ctx.divergence('driver error', inp, model=m, impl=None); continue
        real_err = res['error']
        if 'ok' in m: st, merr = m['ok'], None
        elif m.get('error') == 'limit': st, merr = m['state'], 'limit'
        else: st, merr = None, m['error']
        ctx.count('model-outcome:' + (merr or 'ok'))
        if merr != real_err:
            ctx.divergence('flush outcome differs between model and real Pony', inp, model=merr, impl=real_err); continue
        if st is None: continue           # a hook raised: nothing more is compared
        mlog = canon_log(st['trace']); rlog = canon_log(res['log'])
        res = dict(res, log=rlog)
        if mlog != res['log']:
            i = next((i for i, (a, b) in enumerate(zip(mlog, res['log'])) if a != b), min(len(mlog), len(res['log'])))
            ctx.divergence('hook / statement trace differs between model and real Pony', inp,
                           model={'at': i, 'model': mlog[i:i + 5]}, impl={'real': res['log'][i:i + 5], 'lens': [len(mlog), len(res['log'])]})
            continue
        mfinal = {'objs': [o[0] for o in st['objs']], 'queue': [q for q in st['queue'] if q is not None], 'modified': st['modified'],
                  'links': {k: sorted(st['links'][k]) for k in ('view', 'pendAdd', 'pendRem')}}
        if mfinal != res['final']:
            ctx.divergence('cache state after the flush differs between model and real Pony', inp, model=mfinal, impl=res['final'])


def run(ctx):
    work = ponyutil.workdir('c33')
    W = World(os.path.join(work, 'c33.sqlite'))
    try:
        pending = []
        for shape in SHAPES:
            check_case(ctx, W, dict(shape), pending)
        for _ in range(ctx.scale(1500, 20000)):
            check_case(ctx, W, gen_case(ctx.rng), pending)
        check_model(ctx, pending)
        ctx.extra['violation_keys'] = sorted(v['key'] for v in ctx.violations)
    finally:
        W.close(); ponyutil.rmtree(work)


def replay(ctx, data):
    work = ponyutil.workdir('c33')
    W = World(os.path.join(work, 'c33.sqlite'))
    try:
        pending = []
        inp = data.get('input') or {}
        if 'init' in inp:
            check_case(ctx, W, {'init': inp['init'], 'links0': inp.get('links0', []), 'pre': inp['pre'], 'script': inp['script'], 'action': inp['action'], 'pick': inp.get('pick') or 0}, pending)
            check_model(ctx, pending)
        else:
            run(ctx)
    finally:
        W.close(); ponyutil.rmtree(work)
