"""C25 — string indexing and slicing translate to Python semantics on every dialect.

Tie (a)  translator: `Gen.stringSlice` (regenerated from SQLBuilder.STRING_SLICE on every run) and the typed mirror
         `stringSliceT` (what the theorems are about) are run by the Lean driver on the same arguments as the real
         STRING_SLICE called on a recording builder (`builder.dialect = …`, `builder(sql)` returns its argument):
         sign grid x {omitted, const, expr}^2 x {PostgreSQL, MySQL, Oracle} plus a malformed stream (error classes).
Tie (b)  hand model of StringMixin.__getitem__ vs the AST Pony really builds: `select(<recv>[…] for e in E)` on the real
         SQLite provider and on PostgreSQL / MySQL / Oracle providers instantiated offline (import stubs +
         testutils.TestDatabase): the translator node, the pinned parameter values and the AST the dialect's real builder
         method makes of it are compared, as JSON, with the model's.
Tie (c)  model primitives: `pySlice` / `pyIndex` vs Python, `sqliteSubstr` vs the real sqlite3 `substr`, the UDF model vs
         the real `py_string_slice`.
Oracle   SQLite: the real query is run and compared row by row with Python's `name[i:j]` / `name[i]`.
         Other dialects: the REAL emitted AST is evaluated by the Lean dialect evaluator and compared with Python's slice;
         a mismatch outside the proved guards is counted as "suspected, unconfirmable offline" (no server exists here), a
         mismatch inside them is a violation.
Known finding `slice-stop-const-minus-one` (`s[:-1]`, `s[0:-1]`, parameter stop -1): replayed on real SQLite on every run.
"""
import itertools, json, sqlite3, time
import ponyutil
ponyutil.add_stubs()
from pony.orm import Database, Required, Optional, PrimaryKey, db_session, select
from pony.orm.sqlbuilding import SQLBuilder
from pony.orm.dbproviders import sqlite as sqlite_provider

DIALECTS = ['PostgreSQL', 'MySQL', 'Oracle']
KNOWN_KEY = 'slice-stop-const-minus-one'

# ------------------------------------------------------------------------------------------------------------------
# helpers
# ------------------------------------------------------------------------------------------------------------------

class RecBuilder(object):
    """recording builder: `builder(sql)` returns the AST it is given.  Every other builder method or attribute a
    STRING_SLICE / SUBSTR implementation may use (builder.SUBSTR, builder.LENGTH, greatest_func_name, …) is the REAL one of the
    dialect's builder class, run with this object as `builder` (so nested ASTs stay ASTs and SQL text pieces stay visible)."""
    def __init__(self, dialect, cls=SQLBuilder):
        self.dialect = dialect; self._cls = cls; self.called = []
    def __call__(self, sql): return sql
    def __getattr__(self, name):
        if name.startswith('__'): raise AttributeError(name)
        attr = getattr(self._cls, name)          # AttributeError of the real class propagates to the caller (and becomes a verdict there)
        if callable(attr):
            self.called.append(name)
            return lambda *a, **kw: attr(self, *a, **kw)
        return attr

def text_pieces_to_node(r):
    """SQL text pieces produced around builder(<ast>) by a real builder method -> the node they spell, when it is one the model knows"""
    if isinstance(r, list):
        if len(r) == 7 and r[0] == 'py_string_slice(' and [r[2], r[4], r[6]] == [', ', ', ', ')']: return ['PY_STRING_SLICE', r[1], r[3], r[5]]
        if len(r) == 7 and r[0] == 'substr(' and [r[2], r[4], r[6]] == [', ', ', ', ')']: return ['SUBSTR', r[1], r[3], r[5]]
        if len(r) == 5 and r[0] == 'substr(' and [r[2], r[4]] == [', ', ')']: return ['SUBSTR', r[1], r[3], None]
    return ['UNEXPECTED', r]

def drive(ctx, reqs):
    """batch call of the Lean driver; the binary is shared with concurrently running checks that may relink it, so a
    failed call (missing / truncated executable) is retried a few times before giving up"""
    last = None
    for attempt in range(4):
        try:
            return ctx.driver('C25', reqs)
        except (OSError, RuntimeError, ValueError) as e:
            last = e
            time.sleep(3 + 4 * attempt)
    raise last

def norm(x):
    if isinstance(x, (tuple, list)): return [norm(i) for i in x]
    if isinstance(x, dict): return {k: norm(v) for k, v in x.items()}
    return x

def real_call(f, *args):
    try:
        return {'ok': norm(f(*args))}
    except Exception as e:
        return {'error': type(e).__name__}

def canon_ast(t):
    """the AST Pony emitted -> the two-element opaque form of COLUMN / PARAM the Lean decoder reads"""
    if isinstance(t, (list, tuple)):
        if t and t[0] == 'COLUMN': return list(t) if len(t) == 2 else ['COLUMN', '%s.%s' % (t[1], str(t[2]).lower())]
        if t and t[0] == 'PARAM':
            key = t[1]
            if len(t) == 2 and isinstance(key, str): return list(t)
            return ['PARAM', str(key[0][1]) if isinstance(key, (list, tuple)) and isinstance(key[0], (list, tuple)) else str(key)]
        return [canon_ast(i) for i in t]
    return t

def arg_json(a):
    """engine-side bound ('o',) | ('c', i) | ('e', ast)  ->  driver Arg JSON"""
    if a[0] == 'o': return None
    if a[0] == 'c': return {'const': a[1]}
    return {'expr': a[1]}

def arg_py(a):
    if a[0] == 'o': return None
    if a[0] == 'c': return ['VALUE', a[1]]
    return a[1]

def py_index(s, i):
    try: return s[i]
    except IndexError: return None

def sval_out(r):
    if 'ok' in r: return ('ok', r['ok'])
    return ('error', r.get('error'))

# ------------------------------------------------------------------------------------------------------------------
# tie (a): translator + typed mirror vs the real STRING_SLICE
# ------------------------------------------------------------------------------------------------------------------

def translator_tie(ctx):
    if not ctx.driver.ok:
        ctx.note('driver unavailable: translator tie skipped'); return
    ints = [-7, -3, -2, -1, 0, 1, 2, 3, 7] + ([-100, -12, -5, 5, 12, 100] if ctx.thorough else [])
    exprs = [['COLUMN', 'e.k'], ['PARAM', 'p'], ['ADD', ['COLUMN', 'e.k'], ['VALUE', 1]], ['LENGTH', ['COLUMN', 'e.name']]]
    bounds = [('o',)] + [('c', i) for i in ints] + [('e', x) for x in exprs]
    recvs = [['COLUMN', 'e.name'], ['VALUE', 'abcdef']]
    reqs, meta = [], []
    for d in DIALECTS:
        rb = RecBuilder(d)
        for recv in recvs:
            for a, b in itertools.product(bounds, bounds):
                real = real_call(SQLBuilder.STRING_SLICE, rb, recv, arg_py(a), arg_py(b))
                reqs.append({'op': 'gen', 'dialect': d, 'expr': recv, 'start': arg_py(a), 'stop': arg_py(b)})
                meta.append(('gen', d, recv, a, b, real))
                reqs.append({'op': 'mirror', 'dialect': d, 'expr': recv, 'start': arg_json(a), 'stop': arg_json(b)})
                meta.append(('mirror', d, recv, a, b, real))
    # the SQLite builder method (also regenerated from the source): SQL text pieces around builder(expr), builder(start), builder(stop)
    sq = sqlite_provider.SQLiteBuilder.STRING_SLICE
    rb = RecBuilder('SQLite', sqlite_provider.SQLiteBuilder)
    for recv in recvs:
        for a, b in itertools.product(bounds, bounds):
            real = real_call(sq, rb, recv, arg_py(a), arg_py(b))
            reqs.append({'op': 'gen_sqlite', 'expr': recv, 'start': arg_py(a), 'stop': arg_py(b)})
            meta.append(('gen-sqlite', 'SQLite', recv, a, b, real))
            reqs.append({'op': 'mirror', 'dialect': 'SQLite', 'expr': recv, 'start': arg_json(a), 'stop': arg_json(b)})
            r = real.get('ok')
            as_node = {'ok': ['PY_STRING_SLICE', r[1], r[3], r[5]]} if r and len(r) == 7 and [r[0], r[2], r[4], r[6]] == ['py_string_slice(', ', ', ', ', ')'] else real
            meta.append(('mirror', 'SQLite', recv, a, b, as_node))
    # malformed stream: only the generated definition (the typed mirror is total on well-typed bounds by construction)
    bad = [['VALUE', None], ['VALUE', 'x'], [], ['VALUE'], 5, ['VALUE', True], [['VALUE', 1]], [None]]   # (str bounds: `'VALUE'[0]` is outside the PyVal subset)
    for d in DIALECTS:
        rb = RecBuilder(d)
        for x in bad:
            for a, b in ((x, None), (None, x), (x, ['VALUE', 1]), (['VALUE', -1], x), (['COLUMN', 'e.k'], x), (x, ['COLUMN', 'e.k'])):
                real = real_call(SQLBuilder.STRING_SLICE, rb, ['COLUMN', 'e.name'], a, b)
                reqs.append({'op': 'gen', 'dialect': d, 'expr': ['COLUMN', 'e.name'], 'start': a, 'stop': b})
                meta.append(('gen-malformed', d, ['COLUMN', 'e.name'], a, b, real))
    outs = drive(ctx, reqs)
    for (kind, d, recv, a, b, real), out in zip(meta, outs):
        inp = [kind, d, recv, a, b]
        ctx.case(inp, nontrivial=True, kind='translator-tie:' + kind)
        if kind.startswith('gen'):
            if 'ok' in out:
                o = out['ok']
                if kind == 'gen-sqlite' and isinstance(o, list):
                    m = {'ok': [x['args'][0] if isinstance(x, dict) and x.get('call') == 'builder' and len(x.get('args', [])) == 1 else x for x in o]}
                else:
                    m = {'ok': o['args'][0]} if isinstance(o, dict) and o.get('call') == 'builder' and len(o.get('args', [])) == 1 else {'ok': o}
            else:
                m = {'error': out.get('error', out.get('driver_error'))}
            if kind == 'gen-malformed' and 'error' in m and 'error' in real:
                # Python raises TypeError / IndexError depending on which operation meets the bad value first; the model
                # reports the same class (both are "not a translation")
                ctx.count('malformed:' + real['error'])
            if m != real:
                ctx.divergence('generated Lean definition of STRING_SLICE and the real function disagree', inp, model=m, impl=real)
        else:
            m = {'ok': out['ok']} if 'ok' in out else {'error': out.get('driver_error', out)}
            if m != real:
                ctx.divergence('typed mirror stringSliceT and the real STRING_SLICE disagree', inp, model=m, impl=real)

# ------------------------------------------------------------------------------------------------------------------
# tie (c): model primitives vs Python / sqlite3 / the real UDF
# ------------------------------------------------------------------------------------------------------------------

STRINGS = ['', 'a', 'ab', 'Ann', 'abcdef', 'héllo', '中文\U0001f600x']

def primitives_tie(ctx):
    if not ctx.driver.ok: return
    rng = ctx.rng
    R = [None] + list(range(-9, 10)) + [-100, 100]
    reqs, exp, meta = [], [], []
    for s in STRINGS:
        for i, j in itertools.product(R, R):
            reqs.append({'op': 'pyslice', 's': s, 'i': i, 'j': j}); exp.append(s[i:j]); meta.append(('pyslice', s, i, j))
        for i in R[1:]:
            reqs.append({'op': 'pyindex', 's': s, 'i': i}); r = py_index(s, i)
            exp.append(r if r is not None else {'error': 'IndexError'}); meta.append(('pyindex', s, i))
    con = sqlite3.connect(':memory:')
    P = list(range(-8, 9)) + [-50, 50]
    for s in STRINGS:
        for p in P:
            reqs.append({'op': 'substr', 'dialect': 'SQLite', 's': s, 'pos': p, 'len': None})
            exp.append({'ok': con.execute('select substr(?, ?)', (s, p)).fetchone()[0]}); meta.append(('sqlite-substr2', s, p))
            for l in list(range(-4, 9)) + [50]:
                reqs.append({'op': 'substr', 'dialect': 'SQLite', 's': s, 'pos': p, 'len': l})
                exp.append({'ok': con.execute('select substr(?, ?, ?)', (s, p, l)).fetchone()[0]}); meta.append(('sqlite-substr3', s, p, l))
    con.close()
    udf = sqlite_provider.py_string_slice
    vals = [None, -7, -2, -1, 0, 1, 2, 7, '2', '-1', '0', '', 'x', '1x']
    for s in [None, '', 'Ann', 'abcdef']:
        for a, b in itertools.product(vals, vals):
            try: r = {'ok': udf(s, a, b)}
            except ValueError: r = {'error': 'badInt'}
            except TypeError: r = {'error': 'typeError'}
            reqs.append({'op': 'udf', 's': s, 'a': a, 'b': b}); exp.append(r); meta.append(('udf', s, a, b))
    outs = drive(ctx, reqs)
    for m, e, o in zip(meta, exp, outs):
        ctx.case(list(m), kind='primitive-tie:' + m[0])
        if isinstance(o, dict) and 'error' in o: o = {'error': o['error']}
        if o != e:
            ctx.divergence('model primitive %s disagrees with the real thing' % m[0], list(m), model=o, impl=e)

# ------------------------------------------------------------------------------------------------------------------
# databases: real SQLite, and PostgreSQL / MySQL / Oracle providers offline
# ------------------------------------------------------------------------------------------------------------------

def make_db(provider):
    if provider == 'sqlite':
        db = Database()
    else:
        from pony.orm.tests.testutils import TestDatabase
        db = TestDatabase()
    class E(db.Entity):
        id = PrimaryKey(int)
        name = Optional(str, autostrip=False)
        k = Optional(int)
        m = Optional(int)
    if provider == 'sqlite':
        db.bind('sqlite', ':memory:'); db.generate_mapping(create_tables=True)
    else:
        if provider == 'oracle': db.bind('oracle', 'user/pwd@host')
        else: db.bind(provider, ':memory:')
        db.generate_mapping(check_tables=False)
    return db, E

PROVIDERS = {'sqlite': 'SQLite', 'postgres': 'PostgreSQL', 'mysql': 'MySQL', 'oracle': 'Oracle'}

# bound shapes: (source text, classification for the hand model, python value as a function of the row)
#   classification: ('o',) omitted | ('c', i) ConstMonad | ('p', key, value) ParamMonad | ('e', ast) expression
def bound_shapes(rng, ints):
    out = [('', ('o',), lambda r: None), ('None', ('o',), lambda r: None), ('nv', ('o',), lambda r: None)]
    for i in ints:
        if i >= 0: out.append((str(i), ('c', i), (lambda i: lambda r: i)(i)))
        else: out.append((str(i), ('p', str(i), i), (lambda i: lambda r: i)(i)))          # a negative literal is an external expression
    return out

EXPR_BOUNDS = [
    ('e.k', ('e', ['COLUMN', 'e.k']), lambda r: r['k']),
    ('e.m', ('e', ['COLUMN', 'e.m']), lambda r: r['m']),
    ('e.k + 1', ('e', ['ADD', ['COLUMN', 'e.k'], ['VALUE', 1]]), lambda r: None if r['k'] is None else r['k'] + 1),
    ('len(e.name) - 1', ('e', ['SUB', ['LENGTH', ['COLUMN', 'e.name']], ['VALUE', 1]]), lambda r: len(r['name']) - 1),
]

def var_bound(name, value):
    return (name, ('p', name, value), lambda r: value)

RECVS = [
    ('e.name', {'expr': ['COLUMN', 'e.name']}, lambda r: r['name']),
    ("'abcdef'", {'const': 'abcdef'}, lambda r: 'abcdef'),
    ('sv', {'expr': ['PARAM', 'sv']}, lambda r: 'Python'),
]

def garg_json(c):
    if c[0] == 'o': return None
    if c[0] == 'c': return {'const': c[1]}
    if c[0] == 'p': return {'param': c[1], 'value': c[2]}
    return {'expr': c[1]}

def translate(E, src, env):
    g = dict(env); g['E'] = E
    q = select(src, g)
    t = q._translator
    return q, t

def expand(provider_name, db, node):
    """what the dialect's REAL builder method makes of a translator node (recording builder); an exception escaping from the
    real code is part of the answer (['RAISED', class, message]) — it becomes a divergence where the answer is compared"""
    cls = db.provider.sqlbuilder_cls
    rb = RecBuilder(db.provider.dialect, cls)
    if isinstance(node, list) and node and node[0] == 'STRING_SLICE':
        try:
            r = norm(cls.STRING_SLICE(rb, node[1], node[2], node[3]))
        except Exception as e:
            return ['RAISED', type(e).__name__, str(e)[:120]]
        if r and isinstance(r[0], str) and r[0].isupper(): return r      # an AST (generic path: `return builder(sql)`)
        return text_pieces_to_node(r)                                      # SQL text pieces (SQLite path)
    return node

class Suspects(object):
    """mismatches of the other dialects outside the proved guards: suspected defects, unconfirmable offline"""
    def __init__(self): self.examples = {}
    def add(self, ctx, cls, ex):
        ctx.count('suspected:' + cls)
        self.examples.setdefault(cls, ex)

def guard_class(dialect, s, a_cls, b_cls, i, j):
    """which proved guard (Props/C25.lean) the case falls outside of; None = inside all guards of the dialect"""
    n = len(s); i0 = 0 if i is None else i
    if dialect == 'PostgreSQL':
        if a_cls[0] in 'ocp' and b_cls[0] in 'cp' and j is not None and ((i0 >= 0 and j >= 0) or (i0 < 0 and j < 0)) and j < i0:
            return 'PostgreSQL:negative-substr-length(const bounds, same sign, stop<start)'
        return None
    if dialect in ('MySQL', 'Oracle'):
        if i0 < -n: return dialect + ':start<-len(s)'
        if i0 < 0 and j is not None and 0 <= j < n: return dialect + ':negative-start,non-negative-stop<len(s)'
        if dialect == 'MySQL' and len(s.encode('utf-8')) != n: return 'MySQL:LENGTH()-counts-bytes(non-ASCII string)'
    return None

def exact_ok(dialect, s, a_cls, b_cls, i, j):
    """engine-side copy of the exact guards (noNegConstLen for PostgreSQL, myExact for MySQL on single-byte strings and Oracle); None = no exact theorem"""
    n = len(s); i0 = 0 if i is None else i
    if dialect == 'PostgreSQL':
        return not (a_cls[0] in 'ocp' and b_cls[0] in 'cp' and j is not None and ((i0 >= 0 and j >= 0) or (i0 < 0 and j < 0)) and j < i0)
    if dialect == 'MySQL' and len(s.encode('utf-8')) != n: return None
    return (not (i0 < -n) or s[i:j] == '') and not (-n <= i0 < 0 and j is not None and 0 <= j < n)

def guard_class_index(dialect, name, src):
    """a bound expression that itself calls len(e.name): MySQL's LENGTH() counts bytes"""
    if dialect == 'MySQL' and 'len(e.name)' in src and len(name.encode('utf-8')) != len(name):
        return 'MySQL:LENGTH()-counts-bytes(non-ASCII string)'
    return None

ROWS = [
    dict(id=1, name='', k=0, m=-1), dict(id=2, name='a', k=1, m=-2), dict(id=3, name='Ann', k=-1, m=2), dict(id=4, name='abcdef', k=2, m=-3),
    dict(id=5, name='abcdef', k=-4, m=5), dict(id=6, name='héllo', k=3, m=-2), dict(id=7, name='xy', k=-7, m=9), dict(id=8, name='abcdefghij', k=4, m=-1),
    dict(id=9, name='Ann', k=None, m=None),
]

def run_provider(ctx, provider, suspects, failures):
    rng = ctx.rng
    dialect = PROVIDERS[provider]
    db, E = make_db(provider)
    rows = list(ROWS)
    for n in range(ctx.scale(4, 30)):
        s = ''.join(rng.choice('abcXYZé中 ') for _ in range(rng.choice([0, 1, 2, 3, 5, 8, 13])))
        rows.append(dict(id=100 + n, name=s, k=rng.choice([-14, -9, -3, -2, -1, 0, 1, 2, 3, 6, 9, 14]), m=rng.choice([-20, -5, -1, 0, 1, 4, 20])))
    if provider == 'sqlite':
        with db_session:
            for r in rows: E(**r)
    ints = [-9, -4, -2, -1, 0, 1, 2, 3, 5, 9]
    consts = bound_shapes(rng, ints)
    cases = []
    # slices
    def pick_bound(is_start):
        x = rng.random()
        if x < 0.5: return rng.choice(consts)
        if x < 0.75: return var_bound('x' if is_start else rng.choice(['y', 'x']), rng.choice(ints))
        return rng.choice(EXPR_BOUNDS)
    grid = []
    # boundary grid always present: every (const/param, const/param) pair of the sentinel neighbourhood, and every shape pair once
    for a in consts[:1] + [c for c in consts if c[0] in ('0', '1', '-1', '-2')]:
        for b in consts[:1] + [c for c in consts if c[0] in ('0', '1', '-1', '-2')]:
            grid.append((RECVS[0], a, b))
    # stop < start, equal bounds, bounds beyond the length — as constants, as parameters and mixed — executed end to end
    cby = {c[0]: c for c in consts}
    for x, y in [(3, 1), (2, 2), (0, 0), (5, 9), (9, 5), (9, 9), (3, 0), (1, 9), (2, 1), (5, 3), (-1, -4), (-2, -2), (-9, -4), (-4, -9), (3, -9), (-9, 2)]:
        grid.append((RECVS[0], cby[str(x)], cby[str(y)]))
        grid.append((RECVS[0], var_bound('x', x), var_bound('y', y)))
        grid.append((RECVS[0], cby[str(x)], var_bound('y', y)))
        grid.append((RECVS[0], var_bound('x', x), cby[str(y)]))
    grid.append((RECVS[0], var_bound('x', 0), var_bound('y', -1)))
    grid.append((RECVS[0], var_bound('x', 0), var_bound('x', 0)))
    grid.append((RECVS[0], var_bound('x', -1), var_bound('x', -1)))
    grid.append((RECVS[0], var_bound('x', 1), var_bound('y', -1)))
    for a in EXPR_BOUNDS:
        for b in EXPR_BOUNDS + [consts[0], consts[5], consts[8]]:
            grid.append((RECVS[0], a, b))
    for b in EXPR_BOUNDS: grid.append((RECVS[0], consts[0], b)); grid.append((RECVS[0], consts[6], b))
    for _ in range(ctx.scale(60, 1500)):
        grid.append((rng.choice(RECVS) if rng.random() < 0.3 else RECVS[0], pick_bound(True), pick_bound(False)))
    model_reqs, model_meta = [], []
    for recv, a, b in grid:
        src = '(e.id, %s[%s:%s]) for e in E' % (recv[0], a[0], b[0])
        env = {'nv': None, 'sv': 'Python'}
        for c in (a[1], b[1]):
            if c[0] == 'p' and c[1][0] not in '-0123456789': env[c[1]] = c[2]
        if a[1][0] == 'p' and b[1][0] == 'p' and a[1][1] == b[1][1] and a[1][2] != b[1][2]:
            continue   # one variable has one value
        if recv[0] != 'e.name' and a[1][0] != 'e' and b[1][0] != 'e':
            continue   # an expression without the loop variable is evaluated in Python and never reaches __getitem__
        cases.append(('slice', recv, a, b, src, env))
    for recv in RECVS[:1] + ([RECVS[2]] if True else []):
        for ix in [c for c in consts if c[1][0] != 'o'] + EXPR_BOUNDS + [var_bound('x', v) for v in (-3, 0, 2)]:
            if recv[0] != 'e.name' and ix[1][0] != 'e': continue
            src = '(e.id, %s[%s]) for e in E' % (recv[0], ix[0])
            env = {'nv': None, 'sv': 'Python'}
            if ix[1][0] == 'p' and ix[1][1][0] not in '-0123456789': env[ix[1][1]] = ix[1][2]
            cases.append(('index', recv, ix, None, src, env))
    eval_reqs, eval_meta = [], []
    for kind, recv, a, b, src, env in cases:
        try:
            q, t = translate(E, src, env)
        except Exception as e:
            ctx.divergence('translation raised for a well-typed string subscript', [provider, src], model='translates', impl=type(e).__name__ + ': ' + str(e)[:100])
            if provider == 'sqlite':
                ctx.violation("a well-typed string subscript is not translated (the query raises instead of computing Python's result)",
                              {'query': 'select(%s)' % src, 'vars': {k: v for k, v in env.items() if k != 'sv'}}, observed='%s: %s' % (type(e).__name__, str(e)[:160]),
                              expected='rows of (id, %s)' % src.split(',', 1)[1].split(')')[0].strip(), key='sqlite:translate-raises:%s:%s/%s' % (type(e).__name__, a[1][0], b[1][0] if b else 'index'))
            continue
        node = norm(t.expr_columns[1])
        real_node = canon_ast(node)
        real_sql = canon_ast(expand(provider, db, node))
        real_fixed = sorted(v for v in t.fixed_param_values.values())
        if kind == 'slice':
            model_reqs.append({'op': 'getitem_slice', 'dialect': dialect, 'recv': recv[1], 'start': garg_json(a[1]), 'stop': garg_json(b[1]), 'fixed': []})
        else:
            model_reqs.append({'op': 'getitem_index', 'dialect': dialect, 'recv': recv[1], 'index': garg_json(a[1]), 'fixed': []})
        model_meta.append((kind, recv, a, b, src, real_node, real_sql, real_fixed))
        # ---- oracle
        if provider == 'sqlite':
            try:
                with db_session:
                    got = dict(q[:])
            except Exception as e:
                ctx.violation("a well-typed string subscript query raises on real SQLite instead of computing Python's result",
                              {'query': 'select(%s)' % src, 'vars': {k: v for k, v in env.items() if k not in ('nv', 'sv')}}, observed='%s: %s' % (type(e).__name__, str(e)[:160]),
                              expected='rows of (id, Python value)', key='sqlite:execute-raises:%s:%s' % (type(e).__name__, src))
                continue
            for r in rows:
                s = recv[2](r)
                if kind == 'slice':
                    i, j = a[2](r), b[2](r)
                    exp = s[i:j]
                    ctx.case([provider, 'slice', a[1][0], b[1][0], s, i, j], kind='oracle:sqlite:slice')
                    if got.get(r['id']) != exp:
                        sentinel = a[1][0] in 'ocp' and (i or 0) == 0 and b[1][0] in 'cp' and j == -1
                        failures.append(dict(sentinel=sentinel, provider=provider, src=src, env={k: v for k, v in env.items() if k not in ('nv', 'sv')},
                                             s=s, i=i, j=j, observed=got.get(r['id']), expected=exp, shape=(a[1][0], b[1][0])))
                else:
                    i = a[2](r)
                    if i is None: continue
                    exp = py_index(s, i)
                    ctx.case([provider, 'index', a[1][0], s, i], kind='oracle:sqlite:index' + (':in-range' if exp is not None else ':out-of-range'))
                    if exp is None:
                        # Python raises IndexError; SQL has no such error and yields '' (documented deviation, not a violation)
                        if got.get(r['id']) != '':
                            ctx.divergence("out-of-range index: SQLite returned something else than ''", [src, s, i], model='', impl=got.get(r['id']))
                    elif got.get(r['id']) != exp:
                        failures.append(dict(sentinel=False, provider=provider, src=src, env={k: v for k, v in env.items() if k not in ('nv', 'sv')},
                                             s=s, i=i, j=None, observed=got.get(r['id']), expected=exp, shape=('index', a[1][0])))
        else:
            for r in rows:
                s = recv[2](r)
                if kind == 'slice':
                    i, j = a[2](r), b[2](r)
                    # NULL-valued bound expressions (Python: s[None:j]) are outside the property's quantifier; they are evaluated all the same and
                    # compared with what the theorems C25_null_start / C25_null_stop predict (tag 'N' = start NULL, 'M' = stop NULL)
                else:
                    i, j = a[2](r), None
                    if i is None: continue
                if dialect == 'Oracle' and r['name'] == '' and 'len(e.name)' in (a[0] + (b[0] if b else '')):
                    continue    # Oracle: '' IS NULL, so the bound expression itself is NULL (outside the quantifier)
                cols = {'e.name': (None if (dialect == 'Oracle' and r['name'] == '') else r['name']), 'e.k': r['k'], 'e.m': r['m']}
                eval_reqs.append({'op': 'eval', 'dialect': dialect, 'ast': real_sql, 'cols': cols, 'params': {'sv': 'Python'}})
                nulls = ('N' if (kind == 'slice' and a[1][0] == 'e' and i is None) else '') + ('M' if (kind == 'slice' and b[1][0] == 'e' and j is None) else '')
                eval_meta.append((kind, recv, a, b, src, s, i, j, r['name'], nulls))
                if nulls == 'M':
                    # C25_null_stop: the same AST evaluated with the stop expression bound to -1 must give the same result
                    cols2 = dict(cols); bsrc = b[0]
                    if bsrc == 'e.k': cols2['e.k'] = -1
                    elif bsrc == 'e.m': cols2['e.m'] = -1
                    elif bsrc == 'e.k + 1': cols2['e.k'] = -2
                    eval_reqs.append({'op': 'eval', 'dialect': dialect, 'ast': real_sql, 'cols': cols2, 'params': {'sv': 'Python'}})
                    eval_meta.append(('null-stop-twin', recv, a, b, src, s, i, -1, r['name'], ''))
    # ---- hand model vs the real translator / builder
    if ctx.driver.ok and model_reqs:
        outs = drive(ctx, model_reqs)
        for (kind, recv, a, b, src, real_node, real_sql, real_fixed), o in zip(model_meta, outs):
            ctx.case([provider, 'ast', src], kind='getitem-tie:' + provider + ':' + kind)
            if 'res' not in o:
                ctx.divergence('driver could not run the __getitem__ model', [provider, src], model=o, impl=real_sql); continue
            res = o['res']; ctx.count('model-branch:' + res['kind'])
            if res['kind'] == 'node':
                enc = lambda x: None if x is None else (['VALUE', x['const']] if 'const' in x else x['expr'])
                model_node = ['STRING_SLICE', canon_ast(json.loads(json.dumps(recv_ast(recv)))), enc(res['node']['start']), enc(res['node']['stop'])]
            elif res['kind'] == 'whole':
                model_node = recv_ast(recv)
            else:
                model_node = res['sql']
            if model_node != real_node:
                ctx.divergence('hand model of StringMixin.__getitem__ and the AST in query._translator disagree', [provider, src], model=model_node, impl=real_node)
            if res['sql'] != real_sql:
                ctx.divergence("model of the dialect's slice builder and the AST the real builder method produces disagree", [provider, src], model=res['sql'], impl=real_sql)
            if sorted(v for _, v in o['fixed']) != real_fixed:
                ctx.divergence('pinned parameter values (fixed_param_values) differ', [provider, src], model=o['fixed'], impl=real_fixed)
    # ---- oracle for the other dialects: the real AST under the Lean dialect evaluator
    if ctx.driver.ok and eval_reqs:
        outs = drive(ctx, eval_reqs)
        last_null_stop = None
        for (kind, recv, a, b, src, s, i, j, r_name, nulls), o in zip(eval_meta, outs):
            if 'driver_error' in o:
                ctx.divergence('the emitted AST is outside the node kinds of the evaluator', [provider, src], model=o['driver_error'], impl=None); continue
            if kind == 'null-stop-twin':
                ctx.case([provider, 'null-stop-twin', src, s, i], kind='getitem-tie:null-stop-reads-as-minus-one')
                if last_null_stop is not None and sval_out(o) != last_null_stop:
                    ctx.divergence('C25_null_stop: a NULL stop expression and the same expression valued -1 evaluate differently', [provider, src, s, i], model=list(sval_out(o)), impl=list(last_null_stop))
                last_null_stop = None
                continue
            if nulls:
                got = sval_out(o); py = s[i:j]
                exp = ('ok', None if (dialect == 'Oracle' and py == '') else py)
                ctx.case([provider, 'null-bound', nulls, src, s, i, j], kind='oracle:%s:null-bound' % provider)
                last_null_stop = got if nulls == 'M' else None
                if 'N' in nulls and got != ('ok', None):
                    ctx.divergence('C25_null_start: a NULL start expression did not make the result NULL', [provider, src, s, j], model=None, impl=list(got))
                if got != exp:
                    suspects.add(ctx, dialect + ':NULL-valued bound expression is not Python\'s None (' + ('start: result NULL' if 'N' in nulls else 'stop: read as -1') + ')',
                                 dict(query=src, s=s, start=i, stop=j, sql_result=got[1] if got[0] == 'ok' else 'ERROR ' + str(got[1]), python=py))
                else: ctx.count('null-bound-agrees:' + provider)
                continue
            if kind == 'slice':
                py = s[i:j]
                exp = ('ok', None if (dialect == 'Oracle' and py == '') else py)
                ctx.case([provider, 'slice', a[1][0], b[1][0], s, i, j], kind='oracle:%s:slice' % provider)
                got = sval_out(o)
                if got != exp:
                    cls = guard_class(dialect, s, a[1], b[1], i, j) or guard_class_index(dialect, r_name, a[0] + b[0])
                    sentinel = a[1][0] in 'ocp' and (i or 0) == 0 and b[1][0] in 'cp' and j == -1
                    if sentinel:
                        ctx.count('sentinel-reproduced-under-%s-semantics' % provider)
                    elif cls is not None:
                        suspects.add(ctx, cls, dict(query=src, s=s, start=i, stop=j, sql_result=got[1] if got[0] == 'ok' else 'ERROR ' + str(got[1]), python=py))
                    else:
                        failures.append(dict(sentinel=False, provider=provider, src=src, env={}, s=s, i=i, j=j, observed=list(got), expected=py, shape=(a[1][0], b[1][0])))
                else:
                    ctx.count('oracle-agree:' + provider)
            else:
                r = py_index(s, i)
                py = '' if r is None else r
                exp = ('ok', None if (dialect == 'Oracle' and py == '') else py)
                ctx.case([provider, 'index', a[1][0], s, i], kind='oracle:%s:index' % provider + (':in-range' if r is not None else ':out-of-range'))
                got = sval_out(o)
                cls = guard_class_index(dialect, r_name, a[0])
                if got != exp and cls is not None:
                    suspects.add(ctx, cls, dict(query=src, name=r_name, index=i, sql_result=got[1] if got[0] == 'ok' else 'ERROR ' + str(got[1]), python=py))
                elif got != exp:
                    if r is None:
                        ctx.divergence("out-of-range index: the evaluator returned something else than ''", [provider, src, s, i], model=list(got), impl='')
                    else:
                        failures.append(dict(sentinel=False, provider=provider, src=src, env={}, s=s, i=i, j=None, observed=list(got), expected=py, shape=('index', a[1][0])))
    try: db.disconnect()
    except Exception: pass

def ast_grid(ctx, suspects, failures):
    """exhaustive grid: the REAL STRING_SLICE output (recording builder) for every (kind, kind) x start x stop x string,
    evaluated by the Lean dialect evaluator and compared with Python.  Every mismatch must fall outside the proved guards."""
    if not ctx.driver.ok: return
    N = ctx.scale(4, 8); B = ctx.scale(5, 9)
    R = [None] + list(range(-B, B + 1))
    strings = ['abcdefghij'[:n] for n in range(N)] + ['é', 'aé中']
    reqs, meta = [], []
    for d in DIALECTS:
        rb = RecBuilder(d)
        for ka, kb in itertools.product('ce', 'ce'):
            for i, j in itertools.product(R, R):
                if (i is None and ka == 'e') or (j is None and kb == 'e'): continue
                st = None if i is None else (['VALUE', i] if ka == 'c' else ['COLUMN', 'e.k'])
                sp = None if j is None else (['VALUE', j] if kb == 'c' else ['COLUMN', 'e.m'])
                try:
                    sql = norm(SQLBuilder.STRING_SLICE(rb, ['COLUMN', 'e.name'], st, sp))
                except Exception as e:
                    ctx.divergence('the real STRING_SLICE raises on well-typed bounds', [d, ka, kb, i, j], model='an AST', impl=type(e).__name__ + ': ' + str(e)[:100]); continue
                for s in strings:
                    reqs.append({'op': 'eval', 'dialect': d, 'ast': sql, 'cols': {'e.name': None if (d == 'Oracle' and s == '') else s, 'e.k': i, 'e.m': j}})
                    meta.append((d, ka, kb, s, i, j))
    outs = drive(ctx, reqs)
    for (d, ka, kb, s, i, j), o in zip(meta, outs):
        if 'driver_error' in o:
            ctx.divergence('the AST the real STRING_SLICE builds is outside the node kinds of the evaluator', [d, ka, kb, i, j], model=o['driver_error'][:200], impl=None); continue
        py = s[i:j]
        exp = ('ok', None if (d == 'Oracle' and py == '') else py)
        got = sval_out(o)
        a_cls = ('o',) if i is None else ((ka,)); b_cls = ('o',) if j is None else ((kb,))
        cls = guard_class(d, s, a_cls, b_cls, i, j)
        ctx.case(['grid', d, ka, kb, s, i, j], kind='oracle:grid:' + d)
        ex = exact_ok(d, s, a_cls, b_cls, i, j)
        if ex is not None:
            # the *_exact theorems: agreement with Python holds if and only if the exact guard holds
            if ex != (got == exp):
                ctx.divergence('the exact guard of C25_slice_*_exact (engine-side copy) and the Lean evaluator disagree', [d, ka, kb, s, i, j], model=ex, impl=(got == exp))
            else: ctx.count('grid:exact-guard-confirmed:' + d)
        if got != exp:
            if cls is None:
                failures.append(dict(sentinel=False, provider={v: k for k, v in PROVIDERS.items()}[d], src='STRING_SLICE(%s, %r, %r)' % (d, i if ka == 'c' else 'expr=%r' % i, j if kb == 'c' else 'expr=%r' % j),
                                     env={}, s=s, i=i, j=j, observed=list(got), expected=py, shape=('grid-' + ka, kb)))
            else:
                suspects.add(ctx, cls, dict(query='STRING_SLICE on ' + d, s=s, start=i, stop=j, sql_result=got[1] if got[0] == 'ok' else 'ERROR ' + str(got[1]), python=py))
                ctx.count('grid:outside-guard:mismatch:' + d)
        elif cls is not None:
            ctx.count('grid:outside-guard:still-equal:' + d)     # the guards are sufficient, not necessary (e.g. both sides empty)
        else:
            ctx.count('grid:inside-guard:equal:' + d)

# ------------------------------------------------------------------------------------------------------------------
# repeated execution: the same query code run again with other parameter bounds (top level and nested generators)
# ------------------------------------------------------------------------------------------------------------------

def _sl(s, a, b, sentinel_whole=False):
    if sentinel_whole and (a is None or a == 0) and b == -1: return s
    return s[a:b]

def _ix(s, n):
    r = py_index(s, n)
    return '' if r is None else r      # SQL has no IndexError: '' (documented deviation)

def make_repeat_db(rng, ctx):
    from pony.orm import Set
    db = Database()
    class G(db.Entity):
        id = PrimaryKey(int)
        name = Required(str, autostrip=False)
        students = Set('S')
    class S(db.Entity):
        id = PrimaryKey(int)
        name = Required(str, autostrip=False)
        group = Required(G)
    db.bind('sqlite', ':memory:'); db.generate_mapping(create_tables=True)
    groups = {'alpha': ['alphabet', 'alpine', 'beta'], 'gamma': ['gamut', 'gammaray', 'delta'], 'omega': ['om', 'omen', 'zeta'], 'Ann': ['Anna', 'An', 'nn']}
    for n in range(ctx.scale(2, 8)):
        base = ''.join(rng.choice('abcé') for _ in range(rng.choice([1, 3, 5, 7])))
        groups[base + str(n)] = [base[:rng.randrange(0, len(base) + 1)] + rng.choice(['', 'x', 'yz', base]) or 'q' for _ in range(rng.choice([1, 2, 4]))]
    data = []
    with db_session:
        sid = 0
        for gid, (gname, ss) in enumerate(sorted(groups.items()), 1):
            g = G(id=gid, name=gname)
            for sname in ss:
                sid += 1; S(id=sid, name=sname, group=g)
            data.append((gid, gname, list(ss)))
    return db, G, S, data

def repeat_queries(G, S):
    """(label, arity, query function — ONE code object per query —, python expectation, source for the report)"""
    from pony.orm import exists, count
    def t_slice(a, b): return select((s.id, s.name[a:b]) for s in S)
    def t_stop(a, b): return select((s.id, s.name[:b]) for s in S)
    def t_index(n): return select((s.id, s.name[n]) for s in S)
    def n_exists_stop(n): return select(g.id for g in G if exists(s for s in g.students if s.name[:n] == g.name[:n]))
    def n_exists_start(n): return select(g.id for g in G if exists(s for s in g.students if s.name[n:] == g.name[n:]))
    def n_exists_both(a, b): return select(g.id for g in G if exists(s for s in S if s.group == g and s.name[a:b] == g.name[a:b]))
    def n_count(a, b): return select(g.id for g in G if count(s for s in g.students if s.name[a:b] == g.name[a:b]) > 0)
    def n_in(a, b): return select(g.id for g in G if g.name[a:b] in (s.name[a:b] for s in g.students))
    def n_index(n): return select(g.id for g in G if exists(s for s in g.students if s.name[n] == g.name[n]))
    def n_lit(a, b): return select(g.id for g in G if exists(s for s in g.students if s.name[a:b] == 'et'))
    allS = lambda data: [(i, nm) for i, nm in enumerate([x for _, _, ss in data for x in ss], 1)]
    return [
        ('top:s.name[a:b]', 2, t_slice, lambda d, a, b, w: sorted((i, _sl(nm, a, b, w)) for i, nm in allS(d)), 'select((s.id, s.name[a:b]) for s in S)'),
        ('top:s.name[:b]', 2, t_stop, lambda d, a, b, w: sorted((i, _sl(nm, None, b, w)) for i, nm in allS(d)), 'select((s.id, s.name[:b]) for s in S)'),
        ('top:s.name[n]', 1, t_index, lambda d, n, w: sorted((i, _ix(nm, n)) for i, nm in allS(d)), 'select((s.id, s.name[n]) for s in S)'),
        ('nested-exists:s.name[:n]==g.name[:n]', 1, n_exists_stop, lambda d, n, w: sorted(gid for gid, g, ss in d if any(_sl(x, None, n, w) == _sl(g, None, n, w) for x in ss)),
         'select(g.id for g in G if exists(s for s in g.students if s.name[:n] == g.name[:n]))'),
        ('nested-exists:s.name[n:]==g.name[n:]', 1, n_exists_start, lambda d, n, w: sorted(gid for gid, g, ss in d if any(x[n:] == g[n:] for x in ss)),
         'select(g.id for g in G if exists(s for s in g.students if s.name[n:] == g.name[n:]))'),
        ('nested-exists:s.name[a:b]==g.name[a:b]', 2, n_exists_both, lambda d, a, b, w: sorted(gid for gid, g, ss in d if any(_sl(x, a, b, w) == _sl(g, a, b, w) for x in ss)),
         'select(g.id for g in G if exists(s for s in S if s.group == g and s.name[a:b] == g.name[a:b]))'),
        ('nested-count:s.name[a:b]==g.name[a:b]', 2, n_count, lambda d, a, b, w: sorted(gid for gid, g, ss in d if any(_sl(x, a, b, w) == _sl(g, a, b, w) for x in ss)),
         'select(g.id for g in G if count(s for s in g.students if s.name[a:b] == g.name[a:b]) > 0)'),
        ('nested-in:g.name[a:b] in (s.name[a:b] ...)', 2, n_in, lambda d, a, b, w: sorted(gid for gid, g, ss in d if _sl(g, a, b, w) in [_sl(x, a, b, w) for x in ss]),
         'select(g.id for g in G if g.name[a:b] in (s.name[a:b] for s in g.students))'),
        ('nested-exists:s.name[n]==g.name[n]', 1, n_index, lambda d, n, w: sorted(gid for gid, g, ss in d if any(_ix(x, n) == _ix(g, n) for x in ss)),
         'select(g.id for g in G if exists(s for s in g.students if s.name[n] == g.name[n]))'),
        ("nested-exists:s.name[a:b]=='et'", 2, n_lit, lambda d, a, b, w: sorted(gid for gid, g, ss in d if any(_sl(x, a, b, w) == 'et' for x in ss)),
         "select(g.id for g in G if exists(s for s in g.students if s.name[a:b] == 'et'))"),
    ]

def walk_nodes(t, tags, out):
    if isinstance(t, (list, tuple)):
        if t and isinstance(t[0], str) and t[0] in tags: out.append(norm(t))
        for x in t: walk_nodes(x, tags, out)
    return out

# query-refinement paths that go through the translator cache; each is ONE code location, applied to the fresh query of every execution.
# (label, f(query) -> (refined query or None, rows), expectation from the full result sorted by its first column / value)
def _rid(x): return x[0] if isinstance(x, tuple) else x
_flt_s = lambda i, v: i > 1        # filter(): arguments are the result columns
_flt_g = lambda x: x > 1
_whr_s = lambda s: s.id != 2
_whr_g = lambda g: g.id != 2
def refinements(on_s):
    flt, whr = (_flt_s, _whr_s) if on_s else (_flt_g, _whr_g)
    def R(label, mk, rows, expect): return (label, mk, rows, expect)
    return [
        R('.order_by(1)', lambda q: q.order_by(1), lambda q: q[:][:], lambda e: e),
        R('.order_by(None)', lambda q: q.order_by(None), lambda q: sorted(q[:]), lambda e: e),
        R('.order_by(1).order_by(None)', lambda q: q.order_by(1).order_by(None), lambda q: sorted(q[:]), lambda e: e),
        R('.order_by(-1).order_by(None).order_by(1)', lambda q: q.order_by(-1).order_by(None).order_by(1), lambda q: q[:][:], lambda e: e),
        R('.filter(lambda id, …: id > 1)', lambda q: q.filter(flt), lambda q: sorted(q[:]), lambda e: [x for x in e if _rid(x) > 1]),
        R('.where(lambda x: x.id != 2)', lambda q: q.where(whr), lambda q: sorted(q[:]), lambda e: [x for x in e if _rid(x) != 2]),
        R('.filter(...).order_by(None)', lambda q: q.filter(flt).order_by(None), lambda q: sorted(q[:]), lambda e: [x for x in e if _rid(x) > 1]),
        R('.without_distinct()', lambda q: q.without_distinct(), lambda q: sorted(q[:]), lambda e: e),
        R('.order_by(1)[:2]', lambda q: q.order_by(1), lambda q: q[:2][:], lambda e: e[:2]),
        R('.order_by(1).limit(2, offset=1)', lambda q: q.order_by(1).limit(2, offset=1), lambda q: q[:][:], lambda e: e[1:3]),
        R('.order_by(1).first()', lambda q: q.order_by(1), lambda q: [q.first()], lambda e: [e[0] if e else None]),
        R('.order_by(None).count()-vs-len', lambda q: q.order_by(None), lambda q: [len(q[:])], lambda e: [len(e)]),
    ]

def repeat_oracle(ctx):
    rng = ctx.rng
    db, G, S, data = make_repeat_db(rng, ctx)
    pairs = [(0, 2), (1, 3), (1, 4), (2, 5), (-2, 10), (-3, 7), (-3, -1), (-4, -2), (2, -4), (1, -1), (None, 3), (None, 2), (2, None), (3, None), (6, 8), (0, 2),
             (0, -1), (None, -1), (1, -1), (None, None), (1, 3), (3, 1), (2, 2), (9, 5), (5, 9), (7, 12), (4, 1), (0, 0)]
    singles = [2, 5, 3, -3, -1, 4, 1, None, 0, -2, 2, 7, -7, 1]
    idx = [0, 1, 3, -1, -2, 2, 0, -3, 1]
    stale = []; model_reqs = []; model_meta = []
    with db_session:
        for label, arity, qf, pyf, src in repeat_queries(G, S):
            if arity == 2: seq = list(pairs) + [(rng.choice([None, -5, -2, 0, 1, 2, 4]), rng.choice([None, -4, -1, 0, 1, 3, 6])) for _ in range(ctx.scale(6, 60))]
            elif '[n]' in label: seq = list(idx) + [rng.choice([-4, -2, -1, 0, 1, 2, 3]) for _ in range(ctx.scale(4, 40))]
            else: seq = list(singles) + [rng.choice([None, -6, -3, -1, 0, 1, 2, 4, 9]) for _ in range(ctx.scale(4, 40))]
            history = []
            refs = refinements(on_s=label.startswith('top'))
            for vals in seq:
                vals = vals if isinstance(vals, tuple) else (vals,)
                if '[n]' in label and vals[0] is None: continue
                history.append(list(vals))
                try:
                    q = qf(*vals)
                    got = sorted(q[:])
                except Exception as e:
                    ctx.violation('a well-typed string slice/index query raises instead of computing Python\'s result (real SQLite)',
                                  {'1_query (one code object, called repeatedly)': src, '2_parameter_values_of_successive_executions': list(history), '3_failing_execution': list(vals)},
                                  observed='%s: %s' % (type(e).__name__, str(e)[:160]), expected=pyf(data, *(vals + (False,)))[:6],
                                  key='sqlite:repeat-raises:%s:%s' % (label, type(e).__name__))
                    continue
                exp = pyf(data, *(vals + (False,)))
                ctx.case(['repeat', label, list(vals), len(history)], kind='oracle:sqlite:repeat:' + ('nested' if label.startswith('nested') else 'top'))
                if got != exp:
                    if got == pyf(data, *(vals + (True,))):
                        ctx.count('repeat:sentinel')
                        ctx.violation("a slice with start 0/omitted and parameter stop -1 returns the whole string", {'query': src, 'values': list(vals)},
                                      observed=got[:6], expected=exp[:6], key=KNOWN_KEY)
                    else:
                        stale.append(dict(label=label, src=src, history=list(history), vals=list(vals), observed=got, expected=exp,
                                          first_run_alone=None))
                names = ('a', 'b') if arity == 2 else ('n',)
                used = [nm for nm in names if (nm + ':' in src or ':' + nm in src or '[' + nm + ']' in src)]
                want = {nm: v for nm, v in zip(names, vals) if nm in used and v is not None}
                # ---- the same execution through every refinement path that consults the translator cache
                if got == exp:
                    for rlabel, mk, rows, expect in refs:
                        q2 = None
                        try:
                            q2 = mk(qf(*vals))
                            rgot = rows(q2)
                        except Exception as e:
                            ctx.violation("a well-typed string slice/index query raises when refined, instead of computing Python's result (real SQLite)",
                                          {'1_query (one code object, called repeatedly)': src + rlabel, '2_parameter_values_of_successive_executions': list(history), '3_failing_execution': list(vals)},
                                          observed='%s: %s' % (type(e).__name__, str(e)[:160]), expected=expect(exp)[:6], key='sqlite:repeat-raises:%s%s:%s' % (label, rlabel, type(e).__name__))
                            continue
                        ctx.case(['repeat-refined', label, rlabel, list(vals), len(history)], kind='oracle:sqlite:repeat-refined:' + rlabel)
                        if rgot != expect(exp):
                            stale.append(dict(label=label + rlabel, src=src + rlabel, history=list(history), vals=list(vals), observed=rgot, expected=expect(exp)))
                        have2 = {}
                        tr2 = getattr(q2, '_translator', None) or getattr(getattr(q2, '_query', None), '_translator', None)
                        if tr2 is None: continue
                        for k, v in tr2.fixed_param_values.items():
                            nm = k[1] if isinstance(k, tuple) and len(k) > 1 else str(k)
                            if nm in names: have2[nm] = v
                        if have2 != want:
                            ctx.divergence("the translator a refined query uses does not record the CURRENT values of the pinned slice/index parameters "
                                           "(obligations C25_pinned_recorded / C25_cache_reuse_sound: a cached translation may be reused only after this comparison)",
                                           {'query': src + rlabel, 'values': list(vals), 'history': list(history)}, model=want, impl=have2)
                # ---- tie: the ROOT translator records every pinned parameter with its CURRENT value
                t = q._translator
                have = {}
                for k, v in t.fixed_param_values.items():
                    nm = k[1] if isinstance(k, tuple) and len(k) > 1 else str(k)
                    if nm in names: have[nm] = v
                if have != want:
                    ctx.divergence("a pinned slice/index parameter is not recorded (with its current value) in the ROOT translator's fixed_param_values "
                                   "(obligation C25_pinned_recorded: Query._get_translator re-translates only on what the root records)",
                                   {'query': src, 'values': list(vals), 'history': list(history)}, model=want, impl=have)
                # ---- tie: the constants in the emitted AST are the model's pinned constants for the CURRENT values
                nodes = walk_nodes([t.conditions, t.expr_columns], ('STRING_SLICE',) if arity == 2 or '[n]' not in label else ('SUBSTR',), [])
                if '[n]' in label:
                    model_reqs.append({'op': 'getitem_index', 'dialect': 'SQLite', 'recv': {'expr': ['COLUMN', 'x']}, 'index': {'param': 'n', 'value': vals[0]}, 'fixed': []})
                else:
                    a, b = (vals if arity == 2 else ((None, vals[0]) if '[:n]' in src else (vals[0], None)))
                    if '[:b]' in src: a = None
                    ga = None if a is None else {'param': 'a', 'value': a}; gb = None if b is None else {'param': 'b', 'value': b}
                    model_reqs.append({'op': 'getitem_slice', 'dialect': 'SQLite', 'recv': {'expr': ['COLUMN', 'x']}, 'start': ga, 'stop': gb, 'fixed': []})
                model_meta.append((src, list(vals), list(history), [[n[0]] + [canon_ast(x) for x in n[2:]] for n in nodes]))
    if ctx.driver.ok and model_reqs:
        for (src, vals, history, real_nodes), o in zip(model_meta, drive(ctx, model_reqs)):
            res = o.get('res', {})
            if res.get('kind') == 'node':
                enc = lambda x: None if x is None else (['VALUE', x['const']] if 'const' in x else x['expr'])
                want = ['STRING_SLICE', enc(res['node']['start']), enc(res['node']['stop'])]
            elif res.get('kind') == 'substr': want = ['SUBSTR'] + res['sql'][2:]
            elif res.get('kind') == 'whole': want = None
            else:
                ctx.divergence('driver could not run the __getitem__ model', [src, vals], model=o, impl=None); continue
            ctx.case(['repeat-ast', src, vals, len(history)], kind='getitem-tie:repeat-ast')
            bad = [n for n in real_nodes if n != want] if want is not None else real_nodes
            if bad or (want is not None and not real_nodes):
                ctx.divergence('the slice/index constants in the AST of the translator the query uses are not the pinned constants of the current parameter values',
                               {'query': src, 'values': vals, 'history': history}, model=want, impl=real_nodes[:3])
    # report: one violation per query shape, with the shortest value sequence that ends in a wrong answer
    seen = set()
    for f in stale:
        if f['label'] in seen: continue
        seen.add(f['label'])
        ctx.violation('a string slice/index with a parameter bound computes something else than Python for the CURRENT value of the parameter when the same query code '
                      'is executed again (real SQLite)',
                      {'1_query (one code object, called repeatedly)': f['src'], '2_parameter_values_of_successive_executions': f['history'],
                       '3_failing_execution': f['vals'], '4_groups(id,name,students)': data[:4]},
                      observed=f['observed'][:8], expected=f['expected'][:8], key='sqlite:repeat:%s:%r' % (f['label'], f['history'][-2:]))
    db.disconnect()

def recv_ast(recv):
    spec = recv[1]
    if 'const' in spec: return ['VALUE', spec['const']]
    return spec['expr']

# ------------------------------------------------------------------------------------------------------------------
# known finding: the -1 sentinel, replayed on real SQLite on every run
# ------------------------------------------------------------------------------------------------------------------

def replay_known(ctx):
    db, E = make_db('sqlite')
    with db_session:
        E(id=1, name='Ann')
    hits = []
    def run_q(label, mk):
        try:
            return mk()[:][:]
        except Exception as e:
            ctx.violation("a well-typed string slice query raises instead of computing Python's result (real SQLite)",
                          {'query': 'select(%s for e in E)' % label, 'name': 'Ann'}, observed='%s: %s' % (type(e).__name__, str(e)[:160]), expected='a list of strings',
                          key='sqlite:raises:%s:%s' % (label, type(e).__name__))
            return None
    with db_session:
        y = -1; x = 0
        for label, mk in [('e.name[:-1]', lambda: select(e.name[:-1] for e in E)), ('e.name[0:-1]', lambda: select(e.name[0:-1] for e in E)),
                          ('e.name[x:y] with x=0, y=-1', lambda: select(e.name[x:y] for e in E)), ('e.name[:y] with y=-1', lambda: select(e.name[:y] for e in E))]:
            got = run_q(label, mk)
            ctx.case(['known-finding-replay', label], kind='oracle:sqlite:known-finding-replay')
            if got is not None and got != ['An']: hits.append((label, got))
        # controls: the same bounds that do not hit the sentinel are right
        for label, mk, exp in [('e.name[1:-1]', lambda: select(e.name[1:-1] for e in E), ['n']), ('e.name[:-2]', lambda: select(e.name[:-2] for e in E), ['A']),
                               ('e.name[:]', lambda: select(e.name[:] for e in E), ['Ann']), ('e.name[0:]', lambda: select(e.name[0:] for e in E), ['Ann'])]:
            got = run_q(label, mk)
            ctx.case(['known-finding-control', label], kind='oracle:sqlite:known-finding-control')
            if got is not None and got != exp:
                ctx.violation('string slice differs from Python', {'query': 'select(%s for e in E)' % label, 'name': 'Ann'}, observed=got, expected=exp,
                              key='sqlite:control:' + label)
    db.disconnect()
    if hits:
        ctx.violation("select(e.name[:-1] for e in E) returns the whole string: a constant / parameter stop of -1 with start 0 or omitted is taken for 'stop omitted'",
                      {'queries': [h[0] for h in hits], 'name': 'Ann'}, observed=[h[1] for h in hits], expected=['An'], key=KNOWN_KEY)
    else:
        ctx.note('the recorded known finding %s is no longer reproduced on real SQLite' % KNOWN_KEY)
    return bool(hits)

def report_failures(ctx, failures):
    sentinel = [f for f in failures if f['sentinel']]
    other = [f for f in failures if not f['sentinel']]
    if sentinel:
        ctx.count('oracle:sentinel-failures', len(sentinel))
        f = min(sentinel, key=lambda f: (len(f['s']), f['src']))
        ctx.violation("a slice with start 0/omitted and constant or parameter stop -1 returns the whole string",
                      {'query': 'select(%s)' % f['src'], 'vars': f['env'], 'name': f['s'], 'start': f['i'], 'stop': f['j']},
                      observed=f['observed'], expected=f['expected'], key=KNOWN_KEY)
    groups = {}
    for f in other:
        groups.setdefault((f['provider'],) + tuple(f['shape']), []).append(f)
    for g, fs in sorted(groups.items(), key=lambda kv: (kv[0][0] != 'sqlite', kv[0])):     # failures on the real backend first
        f = min(fs, key=lambda f: (len(f['s']), abs(f['i'] or 0) + abs(f['j'] or 0), f['src']))
        what = ('real SQLite returns something else than Python for a string %s' if f['provider'] == 'sqlite'
                else 'the SQL emitted for a string %%s computes something else than Python under the documented %s substr semantics (Lean evaluator)' % PROVIDERS[f['provider']]) \
               % ('index' if g[1] == 'index' else 'slice')
        ctx.violation(what, {'provider': f['provider'], 'query': 'select(%s)' % f['src'], 'vars': f['env'], 'name': f['s'], 'start_or_index': f['i'], 'stop': f['j'],
                             'failing_cases_of_this_shape': len(fs)},
                      observed=f['observed'], expected=f['expected'],
                      key='%s:%s:%r[%r:%r]' % (f['provider'], '/'.join(g[1:]), f['s'], f['i'], f['j']))

def run(ctx):
    translator_tie(ctx)
    primitives_tie(ctx)
    replay_known(ctx)
    repeat_oracle(ctx)
    suspects = Suspects(); failures = []
    ast_grid(ctx, suspects, failures)
    for provider in ['sqlite', 'postgres', 'mysql', 'oracle']:
        run_provider(ctx, provider, suspects, failures)
    report_failures(ctx, failures)
    ctx.extra['suspected_unconfirmable_offline'] = {
        'note': 'mismatches between the REAL emitted AST evaluated under the documented dialect semantics and Python, outside the guards of the *_partial theorems; '
                'no PostgreSQL / MySQL / Oracle server exists in the sandbox, so these are not known findings',
        'classes': suspects.examples}

def replay(ctx, data):
    run(ctx)
