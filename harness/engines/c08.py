"""C08 — validation enforces declared attribute constraints.

Tie (correspondence): for every declaration of the option grid the hand model (Lean: Model/Validate.lean — IntConverter.init /
validate, RealConverter.validate, DecimalConverter.validate, StrConverter.init / validate, Attribute.validate,
Required.validate) is run by the Lean driver on the same candidate values and entry points as real Pony on in-memory SQLite:
mapping-time outcome (`init` error class), accept/reject with the exception class, and the normalised value the object holds.

Property oracle (independent of the model): `spec_*` below evaluates the *declared* constraints (size, signedness, min, max,
max length, nullability, required-ness, py_check) on the candidate; the real call must accept exactly the values that
satisfy them, hold the documented normalisation of the value, and do so identically for `Entity(...)`, `obj.attr = v`,
`obj.set(attr=v)`, `Entity.get/exists(attr=v)` and `select().filter(attr=v)`; a lookup by an accepted value must find exactly
the rows whose stored value equals the normalised value (also through `select(lambda)`).
"""
import itertools, math, sys
from datetime import date, time, datetime, timedelta
from decimal import Decimal, InvalidOperation
from fractions import Fraction
from pony.orm import Database, Required, Optional, PrimaryKey, LongStr, db_session, select, rollback, commit
from pony.orm import core
from pony.converting import str2date, str2time, str2datetime

TEMPORAL = ('date', 'time', 'datetime')

DEFAULT = object()          # engine-side marker for "keyword missing"
I64 = 2 ** 63

# ----------------------------------------------------------------------------------------------------------------
# encoding of values for the Lean driver
# ----------------------------------------------------------------------------------------------------------------

def num_of_float(x):
    if x != x: return 'nan'
    if x == math.inf: return 'inf'
    if x == -math.inf: return '-inf'
    n, d = x.as_integer_ratio()
    return {'n': n, 'd': d}

def num_of_dec(x):
    if x.is_nan(): return 'nan'
    if x.is_infinite(): return '-inf' if x < 0 else 'inf'
    f = Fraction(x)
    return {'n': f.numerator, 'd': f.denominator}

def enc(v):
    if v is None: return None
    if v is DEFAULT: return {'t': 'default'}
    if isinstance(v, bool): return {'t': 'bool', 'v': v}
    if isinstance(v, int): return {'t': 'int', 'v': v}
    if isinstance(v, str): return {'t': 'str', 'v': v}
    if isinstance(v, float): return {'t': 'flt', 'v': num_of_float(v)}
    if isinstance(v, Decimal): return {'t': 'dec', 'v': num_of_dec(v)}
    if isinstance(v, datetime) and v.tzinfo is None: return {'t': 'datetime', 'v': [v.year, v.month, v.day, v.hour, v.minute, v.second, v.microsecond]}   # before date: a datetime is a date
    if isinstance(v, date) and not isinstance(v, datetime): return {'t': 'date', 'v': [v.year, v.month, v.day]}
    if isinstance(v, time) and v.tzinfo is None: return {'t': 'time', 'v': [v.hour, v.minute, v.second, v.microsecond]}
    return {'t': 'other', 'v': type(v).__name__}

def enc_out(v):
    """the form the driver answers in: strings as code point lists (raw U+2028, U+0085 … would break its line protocol)"""
    if isinstance(v, str): return {'t': 'str', 'cp': [ord(c) for c in v]}
    return enc(v)

def show(v):
    if v is DEFAULT: return '<missing>'
    return repr(v)

# ----------------------------------------------------------------------------------------------------------------
# declarations
# ----------------------------------------------------------------------------------------------------------------

class Decl:
    """kind: int|float|dec|str ; topts: type options as written ; required ; aopts: attribute-level options"""
    def __init__(self, kind, topts, required, aopts=None, check=None, pk=False):
        self.kind = kind; self.topts = dict(topts); self.required = required or pk; self.aopts = dict(aopts or {}); self.check = check; self.pk = pk
    def py_type(self):
        return {'int': int, 'float': float, 'dec': Decimal, 'str': LongStr if self.topts.get('long') else str, 'date': date, 'time': time, 'datetime': datetime}[self.kind]
    def kwargs(self):
        kw = {k: v for k, v in self.topts.items() if k not in ('long', 'max_len_pos', 'precision_pos')}
        kw.update(self.aopts)
        if self.check is not None: kw['py_check'] = CHECKS[self.check]
        return kw
    def args(self):
        if 'precision_pos' in self.topts: return (self.topts['precision_pos'],)
        return (self.topts['max_len_pos'],) if 'max_len_pos' in self.topts else ()
    def text(self):
        a = [self.py_type().__name__] + [repr(x) for x in self.args()]
        a += ['%s=%r' % kv for kv in sorted(self.topts.items()) if kv[0] not in ('long', 'max_len_pos', 'precision_pos')]
        a += ['%s=%r' % kv for kv in sorted(self.aopts.items())]
        if self.check: a.append('py_check=' + self.check)
        return '%s(%s)' % ('PrimaryKey' if self.pk else 'Required' if self.required else 'Optional', ', '.join(a))
    # what the declaration means for the attribute layer (computed from the declaration, cross-checked against the real attr)
    def nullable(self):
        n = self.aopts.get('nullable')
        if n is not None: return bool(n)
        return (not self.required) and self.kind != 'str'
    def none_ok(self):
        return bool(self.aopts.get('auto') or self.aopts.get('volatile') or self.aopts.get('sql_default'))
    def default(self):
        if 'default' in self.aopts: return self.aopts['default']
        if self.kind == 'str' and not self.required and not self.nullable(): return ''
        return None
    def precision(self):
        return self.topts.get('precision_pos', self.topts.get('precision', 6))
    def model_type(self):
        t = self.topts
        if self.kind in TEMPORAL: return {'k': self.kind, 'precision': self.precision()}
        if self.kind == 'int':
            return {'k': 'int', 'size': t.get('size'), 'unsigned': t.get('unsigned', False), 'min': t.get('min'), 'max': t.get('max'), 'uint64': False}
        if self.kind == 'float':
            return {'k': 'float', 'min': None if t.get('min') is None else num_of_float(float(t['min'])),
                    'max': None if t.get('max') is None else num_of_float(float(t['max']))}
        if self.kind == 'dec':
            return {'k': 'dec', 'min': None if t.get('min') is None else num_of_dec(Decimal(t['min'])),
                    'max': None if t.get('max') is None else num_of_dec(Decimal(t['max']))}
        return {'k': 'str', 'long': bool(t.get('long')), 'max_len_pos': t.get('max_len_pos'), 'max_len': t.get('max_len'), 'dflt_len': None, 'autostrip': bool(t.get('autostrip', True))}
    def model_attr(self, dflt_norm):
        return {'required': self.required, 'nullable': self.nullable(), 'none_ok': self.none_ok(),
                'default': enc(dflt_norm), 'has_check': self.check is not None}

CHECKS = {
    'even': lambda v: v % 2 == 0,
    'nonneg': lambda v: v >= 0,
    'short': lambda v: len(v) < 3,
    'never': lambda v: False,
    'zero': lambda v: 0,          # falsy non-bool result
}

def py_dec(val):
    """`Decimal(val)` the way DecimalConverter.validate reaches it (a float goes through its shortest str)"""
    if isinstance(val, float):
        s = str(val)
        if float(s) != val: s = repr(val)
        val = Decimal(s)
    return Decimal(val)

# ----------------------------------------------------------------------------------------------------------------
# the declared constraints, evaluated independently of the model (the property oracle's expectation)
# ----------------------------------------------------------------------------------------------------------------

def spec_convert(d, v):
    """('ok', normalised) when v satisfies the declared type constraints of d, else ('reject', reason)"""
    t = d.topts
    if d.kind == 'int':
        if isinstance(v, int): i = v
        elif isinstance(v, str):
            try: i = int(v)
            except ValueError: return ('reject', 'not an int')
        else: return ('reject', 'not an int')
        size, uns = t.get('size'), t.get('unsigned', False)
        bits = size if size is not None else (32 if uns is not None else None)
        if bits is not None:
            lo, hi = (0, 2 ** bits - 1) if uns else (-2 ** (bits - 1), 2 ** (bits - 1) - 1)
            if not lo <= i <= hi: return ('reject', 'outside the %s%d-bit range' % ('unsigned ' if uns else '', bits))
        if t.get('min') is not None and not t['min'] <= i: return ('reject', 'below min')
        if t.get('max') is not None and not i <= t['max']: return ('reject', 'above max')
        return ('ok', v if isinstance(v, int) else i)
    if d.kind == 'float':
        try: x = float(v)
        except (ValueError, TypeError, OverflowError): return ('reject', 'not a float')
        if t.get('min') is not None and not float(t['min']) <= x: return ('reject', 'below min')
        if t.get('max') is not None and not x <= float(t['max']): return ('reject', 'above max')
        return ('ok', x)
    if d.kind == 'dec':
        try: x = py_dec(v)
        except (InvalidOperation, TypeError, ValueError): return ('reject', 'not a Decimal')
        for k, below in (('min', True), ('max', False)):
            if t.get(k) is None: continue
            b = Decimal(t[k])
            if x.is_nan() or b.is_nan(): return ('reject', 'NaN is not within a bound')
            if (below and not b <= x) or (not below and not x <= b): return ('reject', 'below min' if below else 'above max')
        return ('ok', x)
    if d.kind in TEMPORAL:
        p = d.precision()
        def rnd(us): return 0 if p == 0 else (us // 10 ** (6 - p)) * 10 ** (6 - p)
        if isinstance(v, str):
            try: v = {'date': str2date, 'time': str2time, 'datetime': str2datetime}[d.kind](v)
            except Exception: return ('reject', 'unparsable text')
        if d.kind == 'date':
            if isinstance(v, datetime): return ('ok', v.date())            # the documented normalisation: a datetime is cut to its date
            if isinstance(v, date): return ('ok', v)
            return ('reject', 'not a date')
        if d.kind == 'time':
            if isinstance(v, time): return ('ok', v.replace(microsecond=rnd(v.microsecond)))
            return ('reject', 'not a time')
        if isinstance(v, datetime): return ('ok', v.replace(microsecond=rnd(v.microsecond)))
        return ('reject', 'not a datetime')
    if d.kind == 'str':
        if not isinstance(v, str): return ('reject', 'not a str')
        s = v.strip() if t.get('autostrip', True) else v
        ml = t.get('max_len_pos', t.get('max_len'))
        if ml and len(s) > ml: return ('reject', 'longer than max_len')      # max_len 0 / None: no limit (column type TEXT)
        return ('ok', s)
    raise AssertionError(d.kind)

def spec(d, v, dflt_norm):
    """expected outcome of validating candidate v (or DEFAULT) for declaration d: ('ok', value) | ('reject', reason)"""
    if v is DEFAULT:
        if dflt_norm is None:
            v = None
        else: v = dflt_norm
    if v is None:
        if d.required: return ('ok', None) if d.none_ok() else ('reject', 'required')
        return ('ok', None) if d.nullable() else ('reject', 'not nullable')
    r = spec_convert(d, v)
    if r[0] != 'ok': return r
    if d.check is not None and not CHECKS[d.check](r[1]): return ('reject', 'py_check')
    if d.required and isinstance(r[1], str) and r[1] == '': return ('reject', 'required (empty string)')
    return r

def same_value(a, b):
    """accepted values compared exactly (type and value; NaN equals NaN; Decimals by sign/digits/exponent)"""
    if type(a) is not type(b): return False
    if isinstance(a, float): return (a != a and b != b) or (a == b and math.copysign(1, a) == math.copysign(1, b))
    if isinstance(a, Decimal): return a.as_tuple() == b.as_tuple()
    return a == b

# ----------------------------------------------------------------------------------------------------------------
# real code
# ----------------------------------------------------------------------------------------------------------------

def build(d):
    db = Database()
    ns = {'x': (PrimaryKey if d.pk else Required if d.required else Optional)(d.py_type(), *d.args(), **d.kwargs())}
    E = core.EntityMeta('E', (db.Entity,), ns)
    db.bind('sqlite', ':memory:')
    db.generate_mapping(create_tables=True)
    return db, E

ENTRIES = ('create', 'assign', 'set', 'get', 'exists', 'filter', 'getitem')

def real_entry(E, base_id, entry, v):
    """-> ('ok', value held / None for lookups, found) | ('error', class name)"""
    with db_session:
        try:
            if entry == 'create':
                o = E() if v is DEFAULT else E(x=v)
                return ('ok', o._vals_[E.x], None)
            if entry == 'assign':
                o = E[base_id]; o.x = v
                return ('ok', o._vals_[E.x], None)
            if entry == 'set':
                o = E[base_id]; o.set(x=v)
                return ('ok', o._vals_[E.x], None)
            if entry == 'get':
                o = E.get(x=v)
                return ('ok', None, o is not None)
            if entry == 'exists':
                return ('ok', None, bool(E.exists(x=v)))
            if entry == 'filter':
                return ('ok', None, len(E.select().filter(x=v)[:]) > 0)
            if entry == 'getitem':          # E[v]: primary-key lookup (only for PrimaryKey declarations)
                try: E[v]; return ('ok', None, True)
                except core.ObjectNotFound: return ('ok', None, False)
            if entry == 'lambda':
                return ('ok', None, len(select(e for e in E if e.x == v)[:]) > 0)
            raise AssertionError(entry)
        except Exception as e:
            return ('error', type(e).__name__)
        finally:
            rollback()

# ----------------------------------------------------------------------------------------------------------------
# grids
# ----------------------------------------------------------------------------------------------------------------

def int_range(size, uns):
    bits = size if size is not None else (32 if uns is not None else None)
    if bits is None: return None, None
    return (0, 2 ** bits - 1) if uns else (-2 ** (bits - 1), 2 ** (bits - 1) - 1)

def int_decls(ctx):
    out = []
    for size, uns in itertools.product([None, 8, 16, 24, 32, 64], [False, True, None]):
        lo, hi = int_range(size, uns)
        if lo is None: lo, hi = -2 ** 31, 2 ** 31 - 1
        mins = [None, 0, 1, -1, lo, lo - 1, lo + 1, hi]
        maxs = [None, 0, 1, -1, hi, hi + 1, hi - 1, lo]
        for mn, mx in itertools.product(mins, maxs):
            t = {}
            if size is not None: t['size'] = size
            if uns is not False: t['unsigned'] = uns
            if mn is not None: t['min'] = mn
            if mx is not None: t['max'] = mx
            core_case = mn in (None, 0) and mx in (None, 0)
            out.append((core_case, Decl('int', t, True)))
    extra = [
        Decl('int', {'size': 7}, True), Decl('int', {'size': 0}, True), Decl('int', {'size': 128}, True),
        Decl('int', {'min': 0}, False), Decl('int', {'max': 0}, False), Decl('int', {'min': 0, 'max': 0}, False),
        Decl('int', {'min': 0}, True, {'nullable': True}), Decl('int', {'min': 0}, True, {'sql_default': '5'}),
        Decl('int', {'max': 0}, True, {'volatile': True}),
        Decl('int', {'min': -3, 'max': 9}, True, check='even'), Decl('int', {'size': 8}, False, check='nonneg'),
        Decl('int', {'min': 0}, True, check='never'), Decl('int', {}, False, check='zero'),
        Decl('int', {'min': 0}, False, {'default': 5}), Decl('int', {'min': 0}, True, {'default': 0}),
        Decl('int', {'min': 0}, True, {'default': -5}), Decl('int', {'max': 0, 'size': 8}, False, {'default': 1}),
        Decl('int', {'size': 8, 'unsigned': True}, True, {'default': '200'}),
        Decl('int', {'min': 5, 'max': 3}, True), Decl('int', {'min': 0, 'max': 0}, True),
        Decl('int', {'min': 0}, True, pk=True), Decl('int', {'size': 8}, True, pk=True), Decl('int', {'size': 16, 'unsigned': True, 'max': 0}, True, pk=True),
        Decl('int', {}, True, {'auto': True}, pk=True), Decl('int', {'min': -3, 'max': 9}, True, check='even', pk=True),
    ]
    return out, extra

def int_candidates(d):
    t = d.topts
    lo, hi = int_range(t.get('size'), t.get('unsigned', False))
    pts = {0, 1, -1, -5, 2, I64 - 1, I64, -I64, -I64 - 1, 2 ** 64 - 1, 2 ** 64, 2 ** 31 - 1, 2 ** 31, -2 ** 31, -2 ** 31 - 1}
    for b in (lo, hi, t.get('min'), t.get('max')):
        if b is not None: pts |= {b - 1, b, b + 1}
    vals = sorted(pts, key=lambda i: (abs(i), i))     # small magnitudes first: the first failing input reported is a minimal one
    other = [True, False, '7', ' 12 ', '-3', '+0', 'x', '', '  ', '1_0', '1.0', '0x10', 1.0, 1.5, Decimal(1), None, b'1', [1], DEFAULT]
    if t.get('min') is not None: other.append(str(t['min'] - 1))
    if t.get('max') is not None: other.append(str(t['max'] + 1))
    return vals + other

FLOAT_BOUNDS = [None, 0, 0.0, -0.0, 1, -1.5, 2.5, 1e308, -1e308, math.inf, -math.inf, 5e-324]

def float_decls(ctx):
    out = []
    for mn, mx in itertools.product(FLOAT_BOUNDS, FLOAT_BOUNDS):
        t = {}
        if mn is not None: t['min'] = mn
        if mx is not None: t['max'] = mx
        core_case = (mn is None or mn == 0) and (mx is None or mx == 0)
        out.append((core_case, Decl('float', t, True)))
    extra = [Decl('float', {'min': 0}, False), Decl('float', {'max': 0.0}, False), Decl('float', {'min': 0}, True, check='nonneg'),
             Decl('float', {'min': '0.5'}, True), Decl('float', {'min': 0, 'max': 10}, False, {'default': 3}),
             Decl('float', {'min': 0}, True, {'default': -1.0}), Decl('float', {'min': math.nan}, True), Decl('float', {'max': math.nan}, False)]
    return out, extra

def float_candidates(d):
    t = d.topts
    pts = [0.0, -0.0, 1.0, -1.0, 0.5, 5e-324, -5e-324, 1.7976931348623157e308, -1.7976931348623157e308, math.inf, -math.inf, math.nan]
    for k in ('min', 'max'):
        if t.get(k) is None: continue
        try: b = float(t[k])
        except ValueError: continue
        if b == b: pts += [b, math.nextafter(b, math.inf), math.nextafter(b, -math.inf)]
    other = [0, 1, -1, 3, 2 ** 53 + 1, 10 ** 400, True, '1.5', ' 2 ', 'nan', '-inf', 'x', '', Decimal('0.1'), Decimal('-7'), None, [1.0], b'1', DEFAULT]
    return pts + other

DEC_BOUNDS = [None, 0, Decimal('0'), Decimal('-0'), 1, '1.50', Decimal('-2.5'), Decimal('1E+3'), Decimal('Infinity'), 0.5]

def dec_decls(ctx):
    out = []
    for mn, mx in itertools.product(DEC_BOUNDS, DEC_BOUNDS):
        t = {}
        if mn is not None: t['min'] = mn
        if mx is not None: t['max'] = mx
        core_case = (mn is None or mn == 0) and (mx is None or mx == 0)
        out.append((core_case, Decl('dec', t, True)))
    extra = [Decl('dec', {'min': 0}, False), Decl('dec', {'max': 0, 'precision': 8, 'scale': 3}, False),
             Decl('dec', {'min': 0}, True, check='nonneg'), Decl('dec', {'min': 0}, False, {'default': Decimal('1.5')}),
             Decl('dec', {'min': 0}, True, {'default': -1}), Decl('dec', {'min': 0, 'max': 10}, True, pk=True)]
    return out, extra

def dec_candidates(d):
    t = d.topts
    eps = Decimal('1E-20')
    pts = [Decimal(0), Decimal('-0'), Decimal('0.00'), Decimal(1), Decimal('-1'), Decimal('1.005'), Decimal('1E+30'), Decimal('-1E-30'),
           Decimal('Infinity'), Decimal('-Infinity'), Decimal('NaN'), Decimal('sNaN')]
    for k in ('min', 'max'):
        if t.get(k) is None: continue
        b = py_dec(t[k])
        if b.is_finite(): pts += [b, b + eps, b - eps]
    other = [0, 1, -1, 7, True, 0.1, -0.5, 1e-7, 0.0, math.inf, math.nan, '1.5', ' 2 ', '-0.000', 'NaN', 'x', '', None, [1], b'1', (0, (1, 5), -1), DEFAULT]
    return pts + other

US6 = [0, 1, 9, 99, 100, 999, 1000, 99999, 100000, 123456, 500000, 999000, 999999]

def temporal_decls(ctx):
    out = [(True, Decl('date', {}, True)), (True, Decl('date', {}, False))]
    for p in range(7):
        core_case = p in (0, 3, 6)
        out.append((core_case, Decl('time', {'precision_pos': p}, False)))
        out.append((core_case, Decl('datetime', {'precision_pos': p}, p % 2 == 0)))
    extra = [Decl('time', {'precision': 2}, True), Decl('datetime', {'precision': 4}, False), Decl('time', {'precision_pos': 7}, False), Decl('datetime', {'precision': -1}, False),
             Decl('time', {}, False), Decl('datetime', {}, True)]
    return out, extra

def temporal_candidates(d, rng):
    vals = [date(2020, 1, 2), date(1, 1, 1), date(9999, 12, 31),
            datetime(2020, 1, 2, 10, 30, 15), datetime(2020, 1, 2), datetime(2020, 1, 2, 10, 30, 15, 123456), datetime(1, 1, 1, 0, 0, 0, 1), datetime(9999, 12, 31, 23, 59, 59, 999999),
            time(10, 30, 15), time(0, 0), time(23, 59, 59, 999999), timedelta(hours=1), timedelta(0)]
    vals += [time(10, 30, 15, u) for u in US6] + [datetime(2020, 1, 2, 10, 30, 15, u) for u in US6]
    vals += [time(rng.randrange(24), rng.randrange(60), rng.randrange(60), rng.randrange(10 ** 6)) for _ in range(4)]
    vals += [datetime(rng.randint(1, 9999), rng.randint(1, 12), rng.randint(1, 28), rng.randrange(24), rng.randrange(60), rng.randrange(60), rng.randrange(10 ** 6)) for _ in range(4)]
    strs = ['2020-01-02', '01/02/2020', '2.1.2020', '2 jan 2020', '10:30:15', '10:30', '10:30:15.5', '10:30:15.123456', '10:30 pm', '2020-01-02 10:30:15', '2020-01-02 10:30:15.123456',
            '2020-01-02T10:30:15', ' 2020-01-02 ', 'x', '', '2020-13-01', '25:00:00']
    other = [0, 5, 1.5, True, Decimal(1), b'x', [1], (2020, 1, 2), None, DEFAULT]
    return vals + strs + other

WS = ['', ' ', '  ', '\t', '\n', '\x0b', '\x0c', '\r', '\x1c', '\x1f', '\x85', '\xa0', '\u1680', '\u2000', '\u2003', '\u200a', '\u2028', '\u2029',
      '\u202f', '\u205f', '\u3000',
      '\u200b', '\ufeff', '\x00', '\x1b']       # the last four are NOT whitespace for str.strip()

def str_decls(ctx):
    out = []
    for ml, strip, req in itertools.product([None, 0, 1, 2, 3, 5, -1, 255], [True, False, None], [True, False]):
        t = {}
        if ml is not None: t['max_len'] = ml
        if strip is not None: t['autostrip'] = strip
        out.append((ml in (None, 0, 1, 3), Decl('str', t, req)))
    for ml in (0, 1, 4):
        out.append((True, Decl('str', {'max_len_pos': ml}, True)))
        out.append((False, Decl('str', {'max_len_pos': ml}, False, {'nullable': True})))
    extra = [Decl('str', {'long': True}, True), Decl('str', {'long': True}, False), Decl('str', {'long': True, 'max_len': 5}, True),
             Decl('str', {'max_len_pos': 3, 'max_len': 3}, True),
             Decl('str', {'max_len': 5}, False, {'nullable': True}), Decl('str', {'max_len': 5}, True, {'nullable': True}),
             Decl('str', {'max_len': 5}, True, {'sql_default': "'q'"}), Decl('str', {'max_len': 5}, False, {'volatile': True}),
             Decl('str', {'max_len': 5}, True, check='short'), Decl('str', {}, False, check='short'), Decl('str', {'autostrip': False}, True, check='never'),
             Decl('str', {'max_len': 2}, False, {'default': ' ab '}), Decl('str', {'max_len': 2}, True, {'default': 'abc'}),
             Decl('str', {'max_len': 2, 'autostrip': False}, False, {'default': ' a'}),
             Decl('str', {'max_len_pos': 5}, True, pk=True), Decl('str', {'max_len': 3, 'autostrip': False}, True, pk=True)]
    return out, extra

def str_candidates(d, rng):
    t = d.topts
    ml = t.get('max_len_pos', t.get('max_len')) or 0
    lens = sorted({0, 1, 2, 3, ml - 1, ml, ml + 1} - {-1, -2})
    vals = []
    for n in lens:
        body = 'a' * n
        vals.append(body)
        for _ in range(3):
            pre = ''.join(rng.choice(WS) for _ in range(rng.choice([0, 1, 2])))
            post = ''.join(rng.choice(WS) for _ in range(rng.choice([0, 1, 2])))
            vals.append(pre + body + post)
        if n >= 2: vals.append('a' + ' ' * (n - 2) + 'b'); vals.append('é' * (n - 1) + '\U0001f600')
    vals += WS + [' a ', 'a b', ' 　x  ', 'x' * 300]
    other = [0, 1, True, 1.5, Decimal(1), b'ab', None, ['a'], DEFAULT]
    seen = set(); out = []
    for v in vals:
        if v not in seen: seen.add(v); out.append(v)
    return out + other

# ----------------------------------------------------------------------------------------------------------------
# one declaration: real run, model requests, oracle
# ----------------------------------------------------------------------------------------------------------------

def aux_for(d, w):
    """results of the Python built-ins the model treats as given, for the value w that reaches the converter"""
    a = {}
    if d.kind in TEMPORAL and isinstance(w, str):
        try: a['parse'] = {'ok': enc({'date': str2date, 'time': str2time, 'datetime': str2datetime}[d.kind](w))}
        except Exception as e: a['parse'] = {'error': type(e).__name__}
    if d.kind == 'int' and isinstance(w, str):
        try: a['parse'] = int(w)
        except ValueError: a['parse'] = None
    if d.kind == 'float':
        try: a['conv'] = {'ok': num_of_float(float(w))}
        except Exception as e: a['conv'] = {'error': type(e).__name__}
    if d.kind == 'dec':
        try: a['conv'] = {'ok': num_of_dec(py_dec(w))}
        except Exception as e: a['conv'] = {'error': type(e).__name__}
    return a

def check_result(d, w):
    """truthiness of py_check on the converted value (whatever the bounds say); True when there is no check or no converted value"""
    if d.check is None or w is None or w is DEFAULT: return True
    try:
        if d.kind == 'int': n = w if isinstance(w, int) else int(w) if isinstance(w, str) else None
        elif d.kind == 'float': n = float(w)
        elif d.kind == 'dec': n = py_dec(w)
        else: n = (w.strip() if d.topts.get('autostrip', True) else w) if isinstance(w, str) else None
        if n is None: return True
        return bool(CHECKS[d.check](n))
    except Exception:
        return True

def storable(d, r):
    """can the accepted value be bound as an SQLite parameter at all (lookups by value need that; C07's subject otherwise)"""
    if isinstance(r, bool) or r is None: return True
    if isinstance(r, int): return -I64 <= r < I64
    if isinstance(r, float): return r == r
    if isinstance(r, Decimal):
        if not r.is_finite(): return False
        try: r.quantize(Decimal(10) ** -d.topts.get('scale', 2)); return True      # SQLiteDecimalConverter.py2sql
        except InvalidOperation: return False
    return True

class Work:
    def __init__(self): self.reqs = []; self.meta = []

def run_decl(ctx, d, cands, work):
    text = d.text()
    kind = d.kind
    # --- mapping time
    try:
        db, E = build(d)
        map_out = ('ok',)
    except Exception as e:
        map_out = ('error', type(e).__name__)
    # normalised default, as the declaration means it (needed by spec and model)
    dflt = d.default()
    dflt_norm = None
    dflt_bad = None
    if dflt is not None:
        r = spec_convert(d, dflt)
        if r[0] == 'ok' and not (d.check is not None and not CHECKS[d.check](r[1])) and not (d.required and r[1] == ''):
            dflt_norm = r[1]
        else: dflt_bad = r
    mt = d.model_type()
    # model: mapping outcome = init of the converter, then validation of a static default
    probe = dict(op='tinit', precision=d.precision()) if kind in TEMPORAL else dict(op='validate', type=mt, attr=d.model_attr(None), value=enc(dflt) if dflt is not None else None, entry='assign', check=True, **aux_for(d, dflt))
    if kind not in TEMPORAL: probe['check'] = check_result(d, dflt)
    work.reqs.append(probe); work.meta.append(('mapping', d, text, map_out, dflt))
    ctx.case(['mapping', text], kind='mapping:' + kind)
    ctx.count('mapping-outcome:%s:%s' % (kind, map_out[-1] if map_out[0] == 'error' else 'ok'))
    if kind == 'int' and d.topts.get('size') in (None, 8, 16, 24, 32, 64) and not (d.topts.get('size') == 64 and d.topts.get('unsigned')):
        # the regenerated tail of IntConverter.init (Gen/IntBounds.lean) on the same options: converter fields or "raises"
        t = d.topts
        work.reqs.append({'op': 'gen_int_init', 'size': t.get('size'), 'unsigned': t.get('unsigned', False), 'min': t.get('min'), 'max': t.get('max')})
        if map_out[0] == 'ok' and not dflt_bad:
            c0 = E.x.converters[0]
            real = {'ok': [c0.min_val, c0.max_val, c0.size, c0.unsigned]}
        elif map_out[0] == 'error' and not dflt_bad: real = {'error': True}
        else: real = None
        work.meta.append(('gen-init', d, text, real, None))
    if map_out[0] == 'error':
        return
    # cross-check the attribute facts the model is given against the real attribute
    attr = E.x
    facts = (bool(attr.nullable), bool(attr.auto or attr.is_volatile or attr.sql_default), attr.is_required)
    if facts != (d.nullable(), d.none_ok(), d.required):
        ctx.divergence('attribute facts (nullable, none_ok, required) differ from what the declaration means', text, model=[d.nullable(), d.none_ok(), d.required], impl=list(facts))
    if not (attr.default is None and dflt_norm is None) and not (dflt_norm is not None and same_value(attr.default, dflt_norm)):
        ctx.divergence('attr.default after mapping differs from the normalised declared default', text, model=show(dflt_norm), impl=repr(attr.default))
    # --- a stored base row (for assignment / set() / lookups)
    base_val = None; base_id = None
    for w in cands:
        if w is DEFAULT or w is None: continue
        s = spec(d, w, dflt_norm)
        if s[0] == 'ok' and storable(d, s[1]) and not isinstance(s[1], bool):
            try:
                with db_session:
                    o = E(x=w); commit(); base_id = o._pkval_; base_val = s[1]
                break
            except Exception:
                with db_session: rollback()
    if base_id is None:
        ctx.count('no-valid-base-value:' + kind)
    for v in cands:
        exp = spec(d, v, dflt_norm)
        w = dflt_norm if v is DEFAULT else v
        aux = aux_for(d, w)
        chk = check_result(d, w)
        outcomes = {}
        if kind == 'int' and isinstance(v, int):
            # the regenerated tail of IntConverter.validate against the real converter method on the same value and converter fields
            c0 = E.x.converters[0]
            try: realv = {'ok': c0.validate(v)}
            except Exception as e: realv = {'error': type(e).__name__}
            work.reqs.append({'op': 'gen_int_validate', 'val': v, 'min_val': c0.min_val, 'max_val': c0.max_val})
            work.meta.append(('gen-validate', d, text, realv, v))
        for entry in ENTRIES:
            if entry != 'create' and (v is DEFAULT or base_id is None): continue
            if entry == 'getitem' and (not d.pk or v is None or isinstance(v, tuple)): continue
            if entry in ('get', 'exists', 'filter', 'getitem') and exp[0] == 'ok' and not storable(d, exp[1]):
                ctx.count('lookup-skipped-unstorable:' + kind); continue
            got = real_entry(E, base_id, entry, v)
            outcomes[entry] = got
            ctx.case([text, show(v), entry], kind='entry:%s:%s' % (kind, entry))
            ctx.count('outcome:%s:%s' % (kind, 'accepted' if got[0] == 'ok' else got[1]))
            if exp[0] == 'reject': ctx.count('reject-reason:%s:%s' % (kind, exp[1].split(' (')[0]))
            # ---- property oracle
            key = None
            pk_change = d.pk and entry in ('assign', 'set') and exp[0] == 'ok' and not (exp[1] == base_val)
            if pk_change:
                # a valid but different key is refused because a primary key cannot change (TypeError) — not a declared constraint, so
                # not the property's subject: only counted here; the model (assignPk) is compared with the real outcome below
                ctx.count('pk-change:%s' % ('refused-TypeError' if got == ('error', 'TypeError') else 'other:%s' % (got[1] if got[0] == 'error' else 'accepted')))
            elif got[0] == 'ok' and exp[0] == 'reject':
                what = 'a value that violates the declared constraints (%s) is accepted' % exp[1]
                nanb = kind == 'float' and exp[1] in ('below min', 'above max') and isinstance(_as_float(w), float) and _as_float(w) != _as_float(w)
                key = 'float-nan-passes-bounds' if nanb else 'accepted-invalid:%s:%s:%s' % (text, show(v), entry)
            elif got[0] == 'error' and exp[0] == 'ok':
                what = 'a value that satisfies every declared constraint is rejected (%s)' % got[1]
                key = 'rejected-valid:%s:%s:%s' % (text, show(v), entry)
            elif got[0] == 'ok' and d.pk and entry in ('assign', 'set'):
                if not (type(got[1]) is type(base_val) and got[1] == base_val):        # an equal key: `return` — the object keeps the key it has
                    what = 'assigning its own key to a primary key changed the value the object holds'
                    key = 'pk-same-key:%s:%s:%s' % (text, show(v), entry)
            elif got[0] == 'ok' and entry in ('create', 'assign', 'set') and not same_value(got[1], exp[1]):
                what = 'the accepted value is not the documented normalisation of the candidate'
                key = 'wrong-normalisation:%s:%s:%s' % (text, show(v), entry)
            elif got[0] == 'ok' and entry in ('get', 'exists', 'filter', 'getitem') and kind in ('int', 'str') + TEMPORAL and exp[1] is not None:
                found_exp = (exp[1] == base_val)
                if got[2] != found_exp:
                    what = 'lookup by an accepted value does not find exactly the rows holding the normalised value'
                    key = 'lookup-mismatch:%s:%s:%s' % (text, show(v), entry)
            if key is not None:
                ctx.violation(what, {'declaration': text, 'value': show(v), 'entry_point': entry, 'stored_base_value': show(base_val)},
                              observed=list(map(show, got)), expected=[exp[0], show(exp[1])], key=key)
            # ---- model request
            mentry = {'create': 'create', 'assign': 'assign', 'set': 'set'}.get(entry, 'lookup')
            req = dict(op='validate', type=mt, attr=d.model_attr(dflt_norm), value=enc(v), check=chk, entry=mentry, **aux)
            if d.pk and entry in ('assign', 'set'): req['entry'] = 'assign_pk'; req['old'] = enc(base_val)
            if kind in TEMPORAL:
                if v is None or v is DEFAULT: ctx.count('temporal:none-or-default-not-sent-to-the-model'); continue
                req = dict(op='tvalidate', kind=kind, precision=d.precision(), value=enc(v), **aux)
            work.reqs.append(req)
            work.meta.append(('value', d, text, (v, entry), got))
        # the four entry points agree with each other (the property's last sentence), independent of spec and model
        acc = {e: o[0] for e, o in outcomes.items() if not (d.pk and e in ('assign', 'set') and exp[0] == 'ok' and not (exp[1] == base_val))}
        if len(set(acc.values())) > 1:
            ctx.violation('entry points disagree on whether the value is accepted', {'declaration': text, 'value': show(v), 'outcomes': {e: list(map(show, o)) for e, o in outcomes.items()}},
                          observed=acc, expected='the same outcome everywhere', key='entry-points-disagree:%s:%s' % (text, show(v)))
        # lookup by lambda finds what lookup by keyword finds (accepted, storable int/str values)
        if base_id is not None and v is not DEFAULT and kind in ('int', 'str') + TEMPORAL and exp[0] == 'ok' and exp[1] is not None and storable(d, exp[1]) and 'exists' in outcomes and outcomes['exists'][0] == 'ok':
            got = real_entry(E, base_id, 'lambda', exp[1])
            ctx.case([text, show(v), 'lambda'], kind='entry:%s:lambda' % kind)
            if got[0] != 'ok' or got[2] != outcomes['exists'][2]:
                ctx.violation('select(lambda) with the normalised value and the keyword lookup find different rows', {'declaration': text, 'value': show(v)},
                              observed=list(map(show, got)), expected=list(map(show, outcomes['exists'])), key='lambda-lookup:%s:%s' % (text, show(v)))
    if kind in ('int', 'str') and not d.pk: from_db_tie(ctx, d, db, E, work, mt, dflt_norm)
    db.disconnect()

def from_db_tie(ctx, d, db, E, work, mt, dflt_norm):
    """rows written behind Pony's back that VIOLATE the declaration: loading is not validation (model: validateDb) — what the real
    attribute returns is compared with the model; nothing is claimed by the property about such rows"""
    t = d.topts
    table = E._table_
    if d.kind == 'int':
        lo, hi = int_range(t.get('size'), t.get('unsigned', False))
        raws = [0, -5, 7] + [b for b in ((lo - 1) if lo is not None else None, (hi + 1) if hi is not None else None,
                                          (t['min'] - 1) if t.get('min') is not None else None, (t['max'] + 1) if t.get('max') is not None else None) if b is not None and -I64 <= b < I64]
    else:
        ml = t.get('max_len_pos', t.get('max_len')) or 3
        raws = ['ok', '', '  padded  ', 'x' * (abs(ml) + 5), 'a\x00b']
    raws = raws + [None]
    for raw in raws:
        try:
            with db_session:
                db.execute('INSERT INTO "%s" ("x") VALUES ($raw)' % table)
                pk = db.get('SELECT max("id") FROM "%s"' % table)
                commit()
        except Exception as e:
            with db_session: rollback()
            ctx.count('from-db:raw-insert-refused:%s' % type(e).__name__); continue
        import warnings
        with warnings.catch_warnings():
            warnings.simplefilter('ignore')
            with db_session:
                try: got = ('ok', E[pk].x, None)
                except Exception as e: got = ('error', type(e).__name__)
        ctx.case([d.text(), 'load', show(raw)], kind='entry:%s:load' % d.kind)
        ctx.count('from-db:%s' % ('loaded' if got[0] == 'ok' else got[1]))
        if got[0] == 'ok' and raw is not None and spec_convert(d, raw)[0] != 'ok': ctx.count('from-db:loaded-a-value-the-declaration-forbids')
        aux = aux_for(d, raw)
        work.reqs.append(dict(op='validate', type=mt, attr=d.model_attr(dflt_norm), value=enc(raw), check=True, entry='load', **aux))
        work.meta.append(('value', d, d.text(), (raw, 'create'), got))

def _as_float(w):
    try: return float(w)
    except Exception: return None

def dec_of_model(j):
    return j

def compare_with_model(ctx, work):
    if not ctx.driver.ok:
        ctx.note('driver unavailable: model correspondence skipped'); return
    outs = []
    CH = 20000
    for i in range(0, len(work.reqs), CH):
        outs += ctx.driver('C08', work.reqs[i:i + CH])
    for req, meta, out in zip(work.reqs, work.meta, outs):
        tag, d, text = meta[0], meta[1], meta[2]
        if 'driver_error' in out:
            ctx.divergence('driver error', [text, req.get('value')], model=out, impl=None); continue
        if tag in ('gen-init', 'gen-validate'):
            real = meta[3]
            ctx.case([tag, text, show(meta[4])], kind='translator-tie:' + tag)
            if real is None: continue
            m = {'error': True} if 'error' in out else {'ok': out.get('ok')}
            r = {'error': True} if 'error' in real else {'ok': real['ok']}
            ctx.count('gen:%s:%s' % (tag, 'raises' if 'error' in m else 'ok'))
            if m != r:
                ctx.divergence('the code regenerated from IntConverter.%s and the real method disagree' % ('init' if tag == 'gen-init' else 'validate'), [text, show(meta[4])], model=out, impl=real)
            continue
        if tag == 'raw-key':
            (v, hname), got = meta[3], meta[4]
            ctx.case(['raw-key-model', text, hname, show(v)], kind='model-tie:raw-key')
            m_ok = 'ok' in out
            if 'init_error' in out or m_ok != (got[0] == 'ok'):
                ctx.divergence('raw key through %s: real outcome differs from the root attribute validation of the model (rawKeyValidate)' % hname, [text, show(v)], model=out, impl=list(map(show, got)))
            elif m_ok and got[1] is not None and out['ok'] != enc_out(got[1][0]):
                ctx.divergence('raw key through %s: normalised key differs from the model' % hname, [text, show(v)], model=out, impl=show(got[1]))
            continue
        if tag == 'mapping':
            map_out, dflt = meta[3], meta[4]
            if 'init_error' in out: m = ('error', out['init_error'])
            elif dflt is not None and 'error' in out: m = ('error', out['error'])
            else: m = ('ok',)
            ctx.count('model-mapping:%s' % m[0])
            if m != map_out:
                ctx.divergence('mapping-time outcome differs (converter init / validation of the default)', text, model=list(m), impl=list(map_out))
            continue
        (v, entry), got = meta[3], meta[4]
        if 'init_error' in out:
            ctx.divergence('model rejects the declaration that real Pony mapped', text, model=out, impl='mapped'); continue
        if got[0] == 'error':
            impl = {'error': got[1]}
        elif entry in ('create', 'assign', 'set'):
            impl = {'ok': enc_out(got[1])}
        else:
            impl = {'ok': '<lookup>'}
        m = dict(out)
        if 'ok' in m and entry not in ('create', 'assign', 'set'): m = {'ok': '<lookup>'}
        ctx.count('model-branch:%s:%s' % (d.kind, m.get('error', 'ok')))
        if m != impl:
            ctx.divergence('model and real validation disagree', {'declaration': text, 'value': show(v), 'entry_point': entry}, model=m, impl=impl)

# ----------------------------------------------------------------------------------------------------------------

def nan_witness(ctx):
    """NaN against a declared bound (C08_float_nan_rejected; regression witness of fix 626bc5b) on the real code on every run"""
    d = Decl('float', {'min': 0}, True)
    db, E = build(d)
    with db_session: base_id = E(x=1.0).id; commit()
    for entry in ENTRIES:
        got = real_entry(E, base_id, entry, math.nan)
        ctx.case(['nan-witness', entry], kind='witness:float-nan')
        if got[0] == 'ok':
            ctx.violation("Required(float, min=0) accepts float('nan') although 0 <= nan is false",
                          {'declaration': d.text(), 'value': 'nan', 'entry_point': entry}, observed=list(map(show, got)), expected=['reject', 'below min'],
                          key='float-nan-passes-bounds')
    db.disconnect()

def strip_tie(ctx):
    """the model's `strip` against str.strip() on every single code point position of interest"""
    if not ctx.driver.ok: return
    rng = ctx.rng
    pts = [chr(c) for c in list(range(0, 0x100)) + [0x1680, 0x180e, 0x2000, 0x2005, 0x200a, 0x200b, 0x2028, 0x2029, 0x202f, 0x205f, 0x2060, 0x3000, 0xfeff, 0x1f600]]
    strs = [c for c in pts] + [c + 'a' for c in pts] + ['a' + c for c in pts] + ['a' + c + 'b' for c in pts]
    for _ in range(ctx.scale(300, 5000)):
        strs.append(''.join(rng.choice(WS + ['a', 'b', 'é']) for _ in range(rng.choice([0, 1, 2, 3, 5, 8]))))
    outs = ctx.driver('C08', [{'op': 'strip', 's': s} for s in strs])
    for s, o in zip(strs, outs):
        ctx.case(['strip', s], kind='strip-tie')
        if o.get('ok') != [ord(c) for c in s.strip()]:
            ctx.divergence('model strip differs from str.strip()', repr(s), model=o, impl=repr(s.strip()))

# ----------------------------------------------------------------------------------------------------------------
# raw key values given for relationship attributes (one, two, three levels of indirection; composite keys)
# ----------------------------------------------------------------------------------------------------------------

CHAIN_SRC = """
from pony.orm import *
def build(db, pk_attr):
    class R(db.Entity):
        k = pk_attr
        l0s = Set('L0'); l1 = Optional('L1'); cs = Set('C')
    class L0(db.Entity):
        r = Optional(R)
    class L1(db.Entity):
        r = PrimaryKey(R)
        l2s = Set('L2'); m = Optional('M')
    class L2(db.Entity):
        l1 = Optional(L1)
    class M(db.Entity):
        l1 = PrimaryKey(L1)
        l3s = Set('L3')
    class L3(db.Entity):
        m = Optional(M)
    class P(db.Entity):
        code = PrimaryKey(str, 3)
        cs = Set('C')
    class C(db.Entity):
        r = Required(R)
        p = Required(P)
        PrimaryKey(r, p)
        crs = Set('CR')
    class CR(db.Entity):
        c = Optional(C)
    return {'L0': (L0, 'r', 1, False), 'L2': (L2, 'l1', 2, False), 'L3': (L3, 'm', 3, False), 'CR': (CR, 'c', 2, True)}
"""

def chain_entry(H, attr, base_id, entry, v):
    """-> ('ok', raw key tuple the attribute holds / None) | ('error', class)"""
    with db_session:
        try:
            if entry == 'create':
                o = H(**{attr: v}); return ('ok', o._vals_[getattr(H, attr)]._get_raw_pkval_())
            if entry == 'assign':
                o = H[base_id]; setattr(o, attr, v); return ('ok', o._vals_[getattr(H, attr)]._get_raw_pkval_())
            if entry == 'set':
                o = H[base_id]; o.set(**{attr: v}); return ('ok', o._vals_[getattr(H, attr)]._get_raw_pkval_())
            if entry == 'get':
                H.get(**{attr: v}); return ('ok', None)
            if entry == 'exists':
                H.exists(**{attr: v}); return ('ok', None)
            if entry == 'filter':
                H.select().filter(**{attr: v})[:]; return ('ok', None)
            raise AssertionError(entry)
        except Exception as e:
            return ('error', type(e).__name__)
        finally:
            try: rollback()
            except Exception: pass

def raw_key_chains(ctx, work):
    rng = ctx.rng
    roots = [Decl('int', {'min': 1, 'max': 1000}, True, pk=True), Decl('int', {'size': 8, 'unsigned': True}, True, pk=True), Decl('int', {}, True, pk=True),
             Decl('int', {'min': 0}, True, check='even', pk=True), Decl('int', {'size': 16, 'max': 0}, True, pk=True),
             Decl('str', {'max_len_pos': 5}, True, pk=True), Decl('str', {'max_len': 3, 'autostrip': False}, True, pk=True), Decl('str', {}, True, pk=True),
             Decl('str', {'max_len': 4}, True, check='short', pk=True), Decl('dec', {'min': 0, 'max': 10}, True, pk=True)]
    grid, _ = int_decls(ctx)
    for _, d in rng.sample([x for x in grid], ctx.scale(3, 25)):
        roots.append(Decl('int', d.topts, True, pk=True))
    code_decl = Decl('str', {'max_len_pos': 3}, True, pk=True)
    for d in roots:
        text = d.text()
        ns = {}
        try:
            exec(CHAIN_SRC, ns)
            db = Database()
            holders = ns['build'](db, PrimaryKey(d.py_type(), *d.args(), **d.kwargs()))
            db.bind('sqlite', ':memory:'); db.generate_mapping(create_tables=True)
        except Exception as e:
            ctx.count('raw-key:root-declaration-rejected-at-mapping:%s' % type(e).__name__); continue
        cands = {'int': int_candidates, 'dec': dec_candidates}.get(d.kind, lambda dd: str_candidates(dd, rng))(d)
        cands = [v for v in cands if v is not None and v is not DEFAULT and not isinstance(v, (tuple, list, bytes))]
        if d.kind == 'int': cands = [v for v in cands if not isinstance(v, int) or abs(v) <= 2 ** 65]
        if len(cands) > 40: cands = cands[:30] + rng.sample(cands[30:], 10)
        mt = d.model_type()
        for hname, (H, attr, levels, composite) in holders.items():
            try:
                with db_session:
                    o = H(); commit(); base_id = o.id
            except Exception as e:
                ctx.divergence('creating the holder object raised %s' % type(e).__name__, [text, hname]); continue
            if composite:
                codes = ['ab', ' ab ', 'abcd', '', 5]
                vals = [(v, 'ab') for v in cands[:14]] + [(w, c) for w in [x for x in cands if spec_convert(d, x)[0] == 'ok'][:2] for c in codes] + [(cands[0],), (cands[0], 'ab', 'x')]
            else: vals = cands
            for v in vals:
                # expectation from the declared constraints of the root key attribute(s) alone
                if composite:
                    if len(v) != 2: exp = ('reject', 'wrong number of key columns')
                    else:
                        e1 = spec(d, v[0], None); e2 = spec(code_decl, v[1], None)
                        exp = ('ok', (e1[1], e2[1])) if e1[0] == 'ok' and e2[0] == 'ok' else ('reject', e1[1] if e1[0] != 'ok' else e2[1])
                else:
                    e1 = spec(d, v, None)
                    exp = ('ok', (e1[1],)) if e1[0] == 'ok' else e1
                for entry in ('create', 'assign', 'set', 'get', 'exists', 'filter'):
                    if entry in ('get', 'exists', 'filter') and exp[0] == 'ok' and not all(storable(d, x) for x in exp[1]): continue
                    got = chain_entry(H, attr, base_id, entry, v)
                    ctx.case(['raw-key', text, hname, show(v), entry], kind='entry:raw-key:%d-level%s:%s' % (levels, '-composite' if composite else '', entry))
                    ctx.count('raw-key:%s' % ('accepted' if got[0] == 'ok' else got[1]))
                    inp = {'root_key': 'R.k = ' + text, 'path': '%s.%s -> %s' % (hname, attr, {'L0': 'R', 'L2': 'L1 -> R', 'L3': 'M -> L1 -> R', 'CR': 'C -> (R, P)'}[hname]), 'raw_value': show(v), 'entry_point': entry}
                    key = None
                    if got[0] == 'ok' and exp[0] == 'reject':
                        what = 'a raw key value that violates the declared constraints of the key attribute it denotes (%s) is accepted for a relationship attribute' % exp[1]
                        key = 'raw-key-accepted-invalid:%s:%s:%s:%s' % (text, hname, show(v), entry)
                    elif got[0] == 'error' and exp[0] == 'ok':
                        what = 'a raw key value that satisfies the declared constraints of the key attribute is rejected for a relationship attribute (%s)' % got[1]
                        key = 'raw-key-rejected-valid:%s:%s:%s:%s' % (text, hname, show(v), entry)
                    elif got[0] == 'ok' and got[1] is not None and not (len(got[1]) == len(exp[1]) and all(same_value(a, b) or (isinstance(a, Decimal) and isinstance(b, Decimal) and a == b) for a, b in zip(got[1], exp[1]))):
                        what = 'the key the relationship attribute refers to is not the documented normalisation of the raw value'
                        key = 'raw-key-wrong-normalisation:%s:%s:%s:%s' % (text, hname, show(v), entry)
                    if key is not None:
                        ctx.violation(what, inp, observed=list(map(show, got)), expected=[exp[0], show(exp[1])], key=key)
                    # the model: rawKeyValidate n f v = f v — the root attribute's validation, whatever the number of levels
                    if not composite and entry == 'create':
                        w = v
                        work.reqs.append(dict(op='validate', type=mt, attr=d.model_attr(None), value=enc(v), check=check_result(d, w), entry='lookup', **aux_for(d, w)))
                        work.meta.append(('raw-key', d, text, (v, hname), got))
        db.disconnect()

def run(ctx):
    rng = ctx.rng
    work = Work()
    plans = []
    for name, mk, cand in (('temporal', temporal_decls, lambda d: temporal_candidates(d, rng)), ('int', int_decls, lambda d: int_candidates(d)), ('float', float_decls, lambda d: float_candidates(d)),
                           ('dec', dec_decls, lambda d: dec_candidates(d)), ('str', str_decls, lambda d: str_candidates(d, rng))):
        grid, extra = mk(ctx)
        core_ds = [d for c, d in grid if c]
        rest = [d for c, d in grid if not c]
        if not ctx.thorough:
            n = {'int': 70, 'float': 25, 'dec': 20, 'str': 12, 'temporal': 0}[name]
            rest = rng.sample(rest, min(n, len(rest)))
        # Optional variants of a sample of the Required grid declarations
        opt = [Decl(d.kind, d.topts, False, d.aopts, d.check) for d in rng.sample(core_ds + rest, min(len(core_ds + rest), ctx.scale(8, 60))) if d.required]
        for d in core_ds + rest + opt + extra:
            plans.append((d, cand))
        ctx.count('declarations:' + name, len(core_ds + rest + opt + extra))
    nan_witness(ctx)
    for d, cand in plans:
        run_decl(ctx, d, cand(d), work)
    raw_key_chains(ctx, work)
    compare_with_model(ctx, work)
    strip_tie(ctx)
    ctx.note('float and Decimal conversions float(v)/Decimal(v) are Python built-ins: the model receives their results; the bound tests are on exact rationals')

def replay(ctx, data):
    run(ctx)
