"""C03 — decompiling a generator or lambda preserves its meaning (translation validation with a proved-sound checker).

For every program (generator condition / yielded expression / lambda body; exhaustively up to a size bound + random larger ones):
  * compile with the running CPython, serialise the bytecode (`to_model`) and the AST returned by the REAL
    `pony.orm.decompiling.decompile` (`ast_to_model`), ask the Lean driver for `check` (sound: Props/C03.lean `C03_check_sound`);
  * validate the bytecode model: the driver's decision tree of the bytecode is walked under every answer to the questions it or
    the real interpreter asks, and compared with the REAL execution of the code object (divergence if they differ);
  * property oracle: the original code object and the re-compiled decompiled AST are EXECUTED under every such assignment
    (atoms are objects with scripted `__bool__`, operators return tagged symbolic results); a concrete environment where they
    differ is a VIOLATION.  A pair rejected by `check` without a concrete disagreement is counted as "checker incomplete".
  * decompiler errors are accepted outcomes.
"""
import ast, dis, itertools, json, os, sys, types, random, multiprocessing

BINSYM = {ast.Add: '+', ast.Sub: '-', ast.Mult: '*', ast.Div: '/', ast.FloorDiv: '//', ast.Mod: '%', ast.Pow: '**', ast.LShift: '<<',
          ast.RShift: '>>', ast.BitOr: '|', ast.BitAnd: '&', ast.BitXor: '^', ast.MatMult: '@'}
CMPSYM = {ast.Eq: '==', ast.NotEq: '!=', ast.Lt: '<', ast.LtE: '<=', ast.Gt: '>', ast.GtE: '>='}
FIRST_ITER = 'T'


class Unsupported(Exception):
    pass


# ------------------------------------------------------------------------------------------------ atoms
class Atoms:
    """names / opaque constants / nested code objects -> atom numbers (shared by the bytecode and the AST of one program)"""
    def __init__(self):
        self.ids = {}; self.names = []
    def __call__(self, name):
        if name not in self.ids:
            self.ids[name] = len(self.names); self.names.append(name)
        return self.ids[name]


import re as _re
_ADDR = _re.compile(r'<(?:generator object|function) [^<>]*(?:<[^<>]*>[^<>]*)* at 0x[0-9a-fA-F]+>|0x[0-9a-fA-F]+')


def const_atom(c):
    # never compare memory addresses: the default repr of a generator / function object that an f-string formatted is canonicalised,
    # wherever the string sits (directly, or inside a constant tuple)
    return 'const:%s:%s' % (type(c).__name__, _ADDR.sub('0x?', repr(c)))


def code_consts(code):
    return [c for c in code.co_consts if isinstance(c, types.CodeType)]


# ------------------------------------------------------------------------------------------------ bytecode -> model instructions
STRIP = {'RESUME', 'CACHE', 'NOP', 'RETURN_GENERATOR', 'COPY_FREE_VARS', 'MAKE_CELL', 'PUSH_NULL', 'KW_NAMES', 'PRECALL', 'EXTENDED_ARG'}


def to_model(code, atoms):
    """-> list of model instructions (JSON); instructions outside the fragment become ['unsupported', name] (the model gets stuck
    there, so `check` can never answer true on a path through them)"""
    ins = [i for i in dis.get_instructions(code) if i.opname != 'CACHE']
    out = []; first = {}          # first[offset] = index of the first model instruction emitted at or after that offset
    pending = []
    inner = code_consts(code)
    kw = None; prev_real = None
    # STORE / UNPACK_SEQUENCE are modelled only as (parts of) the target of a FOR_ITER; anywhere else (an assignment expression) the
    # model has no meaning for them
    target_offsets = set()
    def mark(p):
        j = ins[p]
        if j.opname in ('STORE_FAST', 'STORE_DEREF'): target_offsets.add(j.offset); return p + 1
        if j.opname == 'UNPACK_SEQUENCE':
            target_offsets.add(j.offset); p += 1
            for _ in range(j.arg):
                p = mark(p)
                if p is None: return None
            return p
        return None
    for k0, j0 in enumerate(ins):
        if j0.opname == 'FOR_ITER' and k0 + 1 < len(ins): mark(k0 + 1)
    def emit(i, *items):
        for p in pending: first[p] = len(out)
        pending.clear()
        out.extend([list(x) for x in items])
    for idx, i in enumerate(ins):
        pending.append(i.offset)
        n = i.opname
        if n in STRIP:
            if n == 'KW_NAMES': kw = i.argval
            continue
        if n == 'POP_TOP' and idx > 0 and ins[idx - 1].opname == 'RETURN_GENERATOR':
            continue
        if n in ('LOAD_FAST', 'LOAD_GLOBAL', 'LOAD_DEREF', 'LOAD_NAME', 'LOAD_CLOSURE', 'LOAD_FAST_CHECK'):
            emit(i, ('load', atoms(i.argval)))
        elif n == 'LOAD_CONST':
            c = i.argval
            if c is True or c is False: emit(i, ('loadBool', c))
            elif c is None: emit(i, ('loadNone',))
            elif isinstance(c, types.CodeType): emit(i, ('load', atoms(('<lambda:%d>' if c.co_name == '<lambda>' else '<genexpr:%d>') % inner.index(c))))
            else: emit(i, ('loadLit', atoms(const_atom(c)), bool(c)))      # a constant: its truth value is known (CPython folds tests on it)
        elif n == 'RETURN_CONST':
            c = i.argval
            if c is True or c is False: emit(i, ('loadBool', c), ('return',))
            elif c is None: emit(i, ('loadNone',), ('return',))
            else: emit(i, ('loadLit', atoms(const_atom(c)), bool(c)), ('return',))
        elif n == 'LOAD_ATTR': emit(i, ('op', 'attr:' + i.argval, 1))
        elif n == 'BINARY_OP':
            if i.argrepr.endswith('=') and i.argrepr not in ('==',): emit(i, ('unsupported', n + i.argrepr))
            else: emit(i, ('op', 'bin:' + i.argrepr, 2))
        elif n == 'UNARY_NEGATIVE': emit(i, ('op', 'un:-', 1))
        elif n == 'UNARY_INVERT': emit(i, ('op', 'un:~', 1))
        elif n == 'CALL_INTRINSIC_1' and i.arg == 5: emit(i, ('op', 'un:+', 1))
        elif n == 'UNARY_NOT': emit(i, ('unaryNot',))
        elif n == 'COMPARE_OP': emit(i, ('cmp', 'named', i.argval))
        elif n == 'IS_OP': emit(i, ('cmp', 'is', bool(i.arg)))
        elif n == 'CONTAINS_OP': emit(i, ('cmp', 'isin', bool(i.arg)))
        elif n == 'BINARY_SUBSCR': emit(i, ('op', 'subscr', 2))
        elif n == 'BINARY_SLICE': emit(i, ('op', 'slice', 2), ('op', 'subscr', 2))
        elif n == 'BUILD_SLICE': emit(i, ('op', 'slice', i.arg))
        elif n == 'BUILD_TUPLE': emit(i, ('op', 'tuple', i.arg))
        elif n == 'BUILD_LIST': emit(i, ('op', 'list', i.arg))
        elif n == 'BUILD_SET': emit(i, ('op', 'set', i.arg))
        elif n == 'BUILD_MAP': emit(i, ('op', 'map', 2 * i.arg))
        elif n == 'BUILD_STRING': emit(i, ('op', 'joinedstr', i.arg))
        elif n == 'FORMAT_VALUE':
            conv = {0: -1, 1: 115, 2: 114, 3: 97}[i.arg & 3]
            emit(i, ('op', 'format:%d' % conv, 2 if i.arg & 4 else 1))
        elif n == 'CALL':
            if prev_real == 'GET_ITER' and i.arg == 0:
                emit(i, ('op', 'call', 2))          # <genexpr function>(iter(x)): the callable sits in the NULL slot
            else:
                emit(i, ('op', 'call' + ('|kw=' + ','.join(kw) if kw else ''), i.arg + 1))
            kw = None
        elif n == 'MAKE_FUNCTION':
            if i.arg == 0: pass
            elif i.arg == 8: emit(i, ('swap', 2), ('popTop',))      # drop the tuple of closure cells: free names stay atoms
            else: emit(i, ('unsupported', 'MAKE_FUNCTION %d' % i.arg))
        elif n in ('POP_JUMP_IF_TRUE', 'POP_JUMP_IF_FALSE'): emit(i, ('jumpIf', n.endswith('TRUE'), ('@', i.argval)))
        elif n in ('POP_JUMP_IF_NONE', 'POP_JUMP_IF_NOT_NONE'): emit(i, ('jumpIfNone', n.endswith('IF_NONE'), ('@', i.argval)))
        elif n == 'JUMP_FORWARD': emit(i, ('jump', ('@', i.argval)))
        elif n == 'JUMP_BACKWARD':
            tgt = [j for j in ins if j.offset >= i.argval and j.opname != 'EXTENDED_ARG'][:1]      # a target with EXTENDED_ARG prefixes starts at the first prefix
            if tgt and tgt[0].opname == 'FOR_ITER': emit(i, ('jumpBack', ('@', i.argval)))
            else: emit(i, ('unsupported', 'JUMP_BACKWARD to ' + (tgt[0].opname if tgt else '?')))
        elif n == 'GET_ITER': emit(i, ('nop',))
        elif n == 'FOR_ITER': emit(i, ('forIter',))
        elif n in ('STORE_FAST', 'STORE_DEREF', 'UNPACK_SEQUENCE') and i.offset not in target_offsets: emit(i, ('unsupported', n + ' outside a loop target'))
        elif n in ('STORE_FAST', 'STORE_DEREF'): emit(i, ('store', atoms(i.argval)))
        elif n == 'UNPACK_SEQUENCE': emit(i, ('unpack', i.arg))
        elif n == 'YIELD_VALUE': emit(i, ('yield',))
        elif n == 'RETURN_VALUE': emit(i, ('return',))
        elif n == 'COPY': emit(i, ('copy', i.arg))
        elif n == 'SWAP': emit(i, ('swap', i.arg))
        elif n == 'POP_TOP': emit(i, ('popTop',))
        else: emit(i, ('unsupported', n))
        prev_real = n
    for p in pending: first[p] = len(out)
    for x in out:
        for k, v in enumerate(x):
            if isinstance(v, tuple) and v[0] == '@':
                x[k] = first.get(v[1], len(out))
    return out


def loop_structs(code):
    """per FOR_ITER in order: the structure of its target as the STORE / UNPACK_SEQUENCE instructions after it give it:
    a name (str) or a list of sub-structures; None where the target is something else (attribute, subscript, starred)"""
    ins = [i for i in dis.get_instructions(code) if i.opname != 'CACHE']
    def parse(p):
        i = ins[p]
        if i.opname in ('STORE_FAST', 'STORE_DEREF'): return i.argval, p + 1
        if i.opname == 'UNPACK_SEQUENCE':
            parts = []; p += 1
            for _ in range(i.arg):
                r = parse(p)
                if r is None: return None
                parts.append(r[0]); p = r[1]
            return parts, p
        return None
    out = []
    for k, i in enumerate(ins):
        if i.opname == 'FOR_ITER':
            r = parse(k + 1)
            out.append(r[0] if r else None)
    return out


def loop_arities(code):
    """kept for callers that only need to know whether the item is unpacked: the structure of every loop target"""
    return loop_structs(code)


def make_item(struct, path, mk):
    """the item a scripted iterator delivers for a target of this structure: one scripted object per name, nested tuples around them"""
    if isinstance(struct, list): return tuple(make_item(s, path + (j,), mk) for j, s in enumerate(struct))
    return mk(('item',) + path)


def loop_item_names(code):
    """{target name: tag of the item component the real iterator of that loop delivers}; None if a name is bound twice or a target is not made of names"""
    sub = {}
    def walk(struct, path):
        if isinstance(struct, list): return all(walk(s, path + (j,)) for j, s in enumerate(struct))
        if struct is None or struct in sub: return False
        sub[struct] = ('item',) + path
        return True
    for k, st in enumerate(loop_structs(code)):
        if not walk(st, (k,)): return None
    return sub


# ------------------------------------------------------------------------------------------------ AST -> model expression
def flat_targets(t, atoms):
    """a loop target in the prefix notation of the model: 2 * atom = stored to that name, 2 * n + 1 = unpacked into n components"""
    if isinstance(t, ast.Name): return [2 * atoms(t.id)]
    if isinstance(t, (ast.Tuple, ast.List)) and not any(isinstance(e, ast.Starred) for e in t.elts):
        return [2 * len(t.elts) + 1] + [x for e in t.elts for x in flat_targets(e, atoms)]
    raise Unsupported('target ' + type(t).__name__)


class AstModel:
    """serialises an expression AST; nested generator expressions are paired, in evaluation order, with the code objects among
    the constants of the enclosing code object and replaced by a call of the opaque atom `<genexpr:k>` on their first iterable"""
    def __init__(self, atoms, code=None):
        self.atoms = atoms; self.nested = []      # nested GeneratorExp / Lambda nodes in evaluation order
        # for the AST of the SOURCE text: the nested code objects of `code` with the source span their instructions cover, so that a
        # nested generator / lambda is numbered like the code object CPython made for it (by position, not by order: CPython drops the
        # code of an operand it folds away, `d or 's' or (y for y in x)`, and compiles the yielded expression after the clauses)
        self.spans = None
        if code is not None:
            # the LOAD_CONST that loads a nested code object carries exactly the source span of the Lambda / GeneratorExp node
            inner = code_consts(code); self.spans = {}
            for i in dis.get_instructions(code):
                if i.opname == 'LOAD_CONST' and isinstance(i.argval, types.CodeType) and i.positions is not None:
                    ps = i.positions
                    self.spans.setdefault((ps.lineno, ps.col_offset, ps.end_lineno, ps.end_col_offset), inner.index(i.argval))
    def number(self, n):
        """the number k of `<genexpr:k>` / `<lambda:k>` for a nested generator / lambda node"""
        k = len(self.nested); self.nested.append(n)
        if self.spans is None or getattr(n, 'col_offset', None) is None: return str(k)          # decompiled AST: no positions, evaluation order
        key = (n.lineno, n.col_offset, n.end_lineno, n.end_col_offset)
        if key in self.spans: return str(self.spans[key])
        return 'dead@%d:%d' % (n.lineno, n.col_offset)        # CPython made no code object for it (dead operand)
    def expr(self, n):
        E = self.expr
        if n is None: return ['none']
        if isinstance(n, ast.Name): return ['atom', self.atoms(n.id)]
        if isinstance(n, ast.Constant):
            c = n.value
            if c is True or c is False: return ['bool', c]
            if c is None: return ['none']
            if isinstance(c, types.CodeType): raise Unsupported('code constant')
            return ['lit', self.atoms(const_atom(c)), bool(c)]
        if isinstance(n, ast.UnaryOp):
            if isinstance(n.op, ast.Not): return ['not', E(n.operand)]
            return ['app', 'un:' + {ast.USub: '-', ast.UAdd: '+', ast.Invert: '~'}[type(n.op)], [E(n.operand)]]
        if isinstance(n, ast.BoolOp):
            if not n.values: raise Unsupported('empty BoolOp')
            return ['boolop', isinstance(n.op, ast.Or), [E(v) for v in n.values]]
        if isinstance(n, ast.IfExp): return ['ife', E(n.test), E(n.body), E(n.orelse)]
        if isinstance(n, ast.Compare):
            first = E(n.left); rest = []
            for op, c in zip(n.ops, n.comparators):
                t = type(op)
                if t in CMPSYM: k = ['named', CMPSYM[t]]
                elif t in (ast.Is, ast.IsNot): k = ['is', t is ast.IsNot]
                elif t in (ast.In, ast.NotIn): k = ['isin', t is ast.NotIn]
                else: raise Unsupported('cmp ' + t.__name__)
                rest.append(k + [E(c)])
            return ['cmp', first, rest]
        if isinstance(n, ast.BinOp): return ['app', 'bin:' + BINSYM[type(n.op)], [E(n.left), E(n.right)]]
        if isinstance(n, ast.Call):
            if any(isinstance(a, ast.Starred) for a in n.args) or any(k.arg is None for k in (n.keywords or [])): raise Unsupported('star args')
            kws = list(n.keywords or [])
            f = E(n.func)
            return ['app', 'call' + ('|kw=' + ','.join(k.arg for k in kws) if kws else ''), [f] + [E(a) for a in n.args] + [E(k.value) for k in kws]]
        if isinstance(n, ast.Attribute): return ['app', 'attr:' + n.attr, [E(n.value)]]
        if isinstance(n, ast.Subscript):
            v = E(n.value); s = n.slice
            if isinstance(s, ast.Slice):
                parts = [E(s.lower), E(s.upper)] + ([E(s.step)] if s.step is not None else [])
                return ['app', 'subscr', [v, ['app', 'slice', parts]]]
            return ['app', 'subscr', [v, E(s)]]
        if isinstance(n, ast.Slice):
            return ['app', 'slice', [E(n.lower), E(n.upper)] + ([E(n.step)] if n.step is not None else [])]
        if isinstance(n, ast.Tuple): return ['app', 'tuple', [E(e) for e in n.elts]]
        if isinstance(n, ast.List): return ['app', 'list', [E(e) for e in n.elts]]
        if isinstance(n, ast.Set): return ['app', 'set', [E(e) for e in n.elts]]
        if isinstance(n, ast.Dict):
            if any(k is None for k in n.keys): raise Unsupported('dict unpacking')
            return ['app', 'map', [x for k, v in zip(n.keys, n.values) for x in (E(k), E(v))]]
        if isinstance(n, ast.FormattedValue):
            return ['app', 'format:%d' % n.conversion, [E(n.value)] + ([E(n.format_spec)] if n.format_spec is not None else [])]
        if isinstance(n, ast.JoinedStr):
            vals = [v for v in n.values]
            if len(vals) == 1 and isinstance(vals[0], ast.FormattedValue): return E(vals[0])
            if len(vals) == 1 and isinstance(vals[0], ast.Constant): return E(vals[0])
            return ['app', 'joinedstr', [E(v) for v in vals]]
        if isinstance(n, ast.Lambda):
            a = n.args
            if a.defaults or a.kw_defaults or a.vararg or a.kwarg or a.kwonlyargs or getattr(a, 'posonlyargs', None): raise Unsupported('lambda with defaults / star parameters')
            k = self.number(n)             # the function object is an opaque value; its (code, body) pair is checked separately
            return ['atom', self.atoms('<lambda:%s>' % k)]
        if isinstance(n, ast.GeneratorExp):
            k = self.number(n)             # the function object is loaded before its first iterable is evaluated
            it = E(n.generators[0].iter)
            return ['app', 'call', [['atom', self.atoms('<genexpr:%s>' % k)], it]]
        raise Unsupported('node ' + type(n).__name__)
    def top(self, n, kind):
        if kind == 'lam':
            return ['lam', self.expr(n)]
        if not isinstance(n, ast.GeneratorExp): raise Unsupported('not a generator expression: ' + type(n).__name__)
        clauses = []
        for gi, g in enumerate(n.generators):
            if getattr(g, 'is_async', 0): raise Unsupported('async')
            it = ['atom', self.atoms('.0')] if gi == 0 else self.expr(g.iter)
            clauses.append(None)       # keep evaluation order: iterable, then conditions
            clauses[-1] = [flat_targets(g.target, self.atoms), it, [self.expr(c) for c in g.ifs]]
        # the yielded expression is evaluated last
        elt = self.expr(n.elt)
        return ['gen', elt, clauses]


# ------------------------------------------------------------------------------------------------ symbolic objects for REAL execution
class Env:
    """answers every question asked during one real execution from `assign` (default False) and records the questions in order"""
    def __init__(self, assign, none_candidates=()):
        self.assign = assign; self.asked = []; self.none_candidates = none_candidates
        self.loops = []; self.events = []; self.code_names = {}
    def ask(self, q):
        if q not in self.asked: self.asked.append(q)
        return self.assign.get(q, False)
    def truth(self, tag):
        return self.ask(('truth', tag))
    def make(self, tag):
        if tag in self.none_candidates and self.ask(('none', tag)): return None
        return Sym(tag, self)


import re as _re
_ADDR = _re.compile(r'<(?:generator object|function) [^<>]*(?:<[^<>]*>[^<>]*)* at 0x[0-9a-fA-F]+>|0x[0-9a-fA-F]+')


def tag_of(v, env):
    if isinstance(v, Sym): return v._tag
    if v is None or v is True or v is False: return v
    if isinstance(v, types.GeneratorType):
        it = v.gi_frame.f_locals.get('.0')
        return ('app', 'call', (('atom', env.code_names.get(v.gi_code, '<genexpr:?>')), tag_of(it, env)))
    if isinstance(v, types.FunctionType) and v.__code__ in env.code_names: return ('atom', env.code_names[v.__code__])
    if isinstance(v, Iter): return v.tag
    if isinstance(v, tuple):
        if v and all(type(x) in (int, str, float, bytes, bool, type(None)) for x in v): return ('atom', const_atom(v))
        return ('app', 'tuple', tuple(tag_of(x, env) for x in v))
    if isinstance(v, list): return ('app', 'list', tuple(tag_of(x, env) for x in v))
    if isinstance(v, set): return ('app', 'set', tuple(sorted({tag_of(x, env) for x in v}, key=repr)))
    if isinstance(v, dict): return ('app', 'map', tuple(t for k, x in v.items() for t in (tag_of(k, env), tag_of(x, env))))
    if isinstance(v, slice):
        return ('app', 'slice', tuple(tag_of(x, env) for x in ((v.start, v.stop) if v.step is None else (v.start, v.stop, v.step))))
    if type(v) is str: return ('atom', const_atom(_ADDR.sub('0x?', v)))
    if type(v) in (int, float, bytes, complex, type(Ellipsis)): return ('atom', const_atom(v))
    return ('atom', 'native:' + type(v).__name__)


def _bin(sym):
    def f(self, other): return self._env.make(('app', 'bin:' + sym, (self._tag, tag_of(other, self._env))))
    def r(self, other): return self._env.make(('app', 'bin:' + sym, (tag_of(other, self._env), self._tag)))
    return f, r


def _cmp(sym):
    def f(self, other): return self._env.make(('app', sym, (self._tag, tag_of(other, self._env))))
    return f


class Sym:
    def __init__(self, tag, env):
        object.__setattr__(self, '_tag', tag); object.__setattr__(self, '_env', env)
    def __bool__(self): return self._env.truth(self._tag)
    def __hash__(self): return hash(repr(self._tag))
    __eq__ = _cmp('=='); __ne__ = _cmp('!='); __lt__ = _cmp('<'); __le__ = _cmp('<='); __gt__ = _cmp('>'); __ge__ = _cmp('>=')
    def __contains__(self, item): return self._env.truth(('app', 'in', (tag_of(item, self._env), self._tag)))
    def __call__(self, *args, **kw):
        name = 'call' + ('|kw=' + ','.join(kw) if kw else '')
        return self._env.make(('app', name, (self._tag,) + tuple(tag_of(a, self._env) for a in args) + tuple(tag_of(v, self._env) for v in kw.values())))
    def __getattr__(self, name):
        if name.startswith('__') and name.endswith('__'): raise AttributeError(name)
        return self._env.make(('app', 'attr:' + name, (self._tag,)))
    def __getitem__(self, k): return self._env.make(('app', 'subscr', (self._tag, tag_of(k, self._env))))
    def __neg__(self): return self._env.make(('app', 'un:-', (self._tag,)))
    def __pos__(self): return self._env.make(('app', 'un:+', (self._tag,)))
    def __invert__(self): return self._env.make(('app', 'un:~', (self._tag,)))
    def __iter__(self): return Iter(self._tag, self._env)
    def __format__(self, spec): return '\x01F<%r|%s>' % (self._tag, spec)
    def __str__(self): return '\x01S<%r>' % (self._tag,)
    def __repr__(self): return '\x01R<%r>\u00e9' % (self._tag,)       # a non-ASCII character: `!a` (ascii) differs from `!r`


for _s, _n in [('+', 'add'), ('-', 'sub'), ('*', 'mul'), ('/', 'truediv'), ('//', 'floordiv'), ('%', 'mod'), ('**', 'pow'), ('<<', 'lshift'),
               ('>>', 'rshift'), ('|', 'or'), ('&', 'and'), ('^', 'xor'), ('@', 'matmul')]:
    _f, _r = _bin(_s)
    setattr(Sym, '__%s__' % _n, _f); setattr(Sym, '__r%s__' % _n, _r)


class Iter:
    """an iterator that delivers exactly one item; a loop is entered at the first `next`, every `next` from the code under test is logged
    (a nested generator consumed by `in` runs in its own frame: its iterators deliver items silently and the run is marked `foreign`)"""
    def __init__(self, tag, env):
        self.tag = tag; self.env = env; self.index = None; self.calls = 0
    def __iter__(self): return self
    def __next__(self):
        env = self.env
        self.calls += 1
        if sys._getframe(1).f_code is not env.main_code:
            env.foreign = True
            if self.calls > 1: raise StopIteration
            return Sym(('foreign-item', self.tag), env)
        if self.index is None:
            self.index = len(env.loops); env.loops.append(self.tag)
        env.events.append((self.index, self.calls))
        if self.calls > 1: raise StopIteration
        st = env.arities[self.index] if self.index < len(env.arities) else None
        return make_item(st, (self.index,), env.make)


def real_run(code, kind, assign, none_candidates=()):
    """execute the code object for real -> (outcome, questions asked).  outcome: ('ret', tag) | ('pass', loops, [tag]|[], depth) | ('exc', name)"""
    env = Env(assign, none_candidates)
    env.arities = loop_arities(code); env.main_code = code; env.foreign = False
    for k, c in enumerate(code_consts(code)): env.code_names[c] = ('<lambda:%d>' if c.co_name == '<lambda>' else '<genexpr:%d>') % k
    g = {'__builtins__': {}}
    for n in code.co_names: g[n] = env.make(('atom', n))
    closure = tuple(types.CellType(env.make(('atom', n))) for n in code.co_freevars) or None
    try:
        f = types.FunctionType(code, g, 'f', None, closure)
        if kind == 'lam':
            args = [env.make(('arg', i)) for i in range(code.co_argcount)]      # parameters are positions, whatever they are called
            out = ('ret', tag_of(f(*args), env))
        else:
            gen = f(Iter(('atom', '.0'), env))
            y = []
            try:
                y = [tag_of(next(gen), env)]
                mark = len(env.events)
                try: next(gen)
                except StopIteration: pass
            except StopIteration:
                mark = 0
            depth = next((i + 1 for i, c in env.events[mark:] if c == 2), 0)
            nloops = max([i + 1 for i, c in env.events[:mark or len(env.events)] if c == 1] or [0]) if y else None
            loops = list(env.loops if not y else env.loops[:nloops])
            out = ('pass', loops, y, depth)
    except Exception as e:
        out = ('exc', type(e).__name__)
    if env.foreign or 'native:' in repr(env.asked): out = out + ('foreign',)
    return out, env.asked


# ------------------------------------------------------------------------------------------------ walking the model's tree
def term_tag(t, names):
    if t is None or t is True or t is False: return t
    if t[0] in ('atom', 'lit'): return ('atom', names[t[1]])
    return ('app', t[1], tuple(term_tag(a, names) for a in t[2]))


def subst_items(tag, sub, assign=None, top=True, nonec=None):
    """model term -> the tag the REAL run produces for the same value: loop targets become the delivered items, f-strings are rendered,
    terms the assignment makes None become None; operators CPython computes itself (constant receiver) cannot be compared"""
    if isinstance(tag, tuple):
        if tag[0] == 'atom':
            tag = sub.get(tag[1], tag)
        elif tag[0] == 'app':
            args = tuple(subst_items(a, sub, assign, True, nonec) for a in tag[2]); f = tag[1]
            native = [is_native(a) for a in args]
            if f.startswith('call') and args and isinstance(args[0], tuple) and args[0][0] == 'atom' and args[0][1].startswith('<lambda:'):
                raise SkipValidation('a nested lambda called in place is run by CPython itself')
            if f == 'call' and len(args) == 2 and isinstance(args[0], tuple) and args[0][0] == 'atom' and args[0][1].startswith('<genexpr:') and (is_native(args[1]) or args[1] is None):
                raise SkipValidation('a nested generator over a CPython object gets CPython\'s own iterator')
            if f == 'bin:%' and const_of(args[0])[0] and isinstance(const_of(args[0])[1], (str, bytes)):
                raise SkipValidation('str % x is formatted by CPython itself (str.__mod__ is tried before the reflected operator)')
            if (f.startswith('un:') and native[0]) or (f.startswith('bin:') and all(native)) or (f in CMPSYM.values() and native[0]) \
                    or (f.startswith('attr:') and native[0]) or (f == 'subscr' and native[0]) or (f.startswith('call') and native[0]) or (f == 'in' and native[1]):
                raise SkipValidation('operator applied to a constant operand is computed by CPython itself')
            if f == 'set':
                if sum(1 for a in args if const_of(a)[0]) > 1: raise SkipValidation('a set of constants is built by CPython itself (1 == True)')
                args = tuple(sorted(set(args), key=repr))           # a real set has no order (and no duplicates)
            if f == 'tuple' and args and all(const_of(a)[0] for a in args):
                tag = ('atom', const_atom(tuple(const_of(a)[1] for a in args)))      # CPython folds a tuple of constants into one constant
                return tag
            if f == 'slice' and len(args) == 3 and args[2] is None: args = args[:2]      # slice(a, b, None) is slice(a, b)
            tag = fold_fstring(('app', f, args))
        if top and assign and assign.get(('none', tag)) and (nonec is None or tag in nonec) and not is_native(tag): return None
    return tag


def is_native(tag):
    """values that are real CPython objects in the real run (constants, displays, generator objects): their operators, truth and
    identity are decided by CPython, not by the scripted objects"""
    if const_of(tag)[0]: return True
    if isinstance(tag, tuple) and tag[0] == 'app':
        if tag[1] in ('tuple', 'list', 'set', 'map', 'slice'): return True
        if tag[1] == 'call' and tag[2] and isinstance(tag[2][0], tuple) and tag[2][0][0] == 'atom' and tag[2][0][1].startswith('<genexpr:'): return True
    return False


def const_of(tag):
    """the Python constant an atom `const:type:repr` stands for"""
    if tag is None or tag is True or tag is False: return True, tag
    if isinstance(tag, tuple) and tag[0] == 'atom' and tag[1].startswith('const:'):
        try: return True, ast.literal_eval(tag[1].split(':', 2)[2])
        except Exception: return False, None
    return False, None


def fold_fstring(tag):
    """model term format:*(v[, spec]) / joinedstr(parts) -> the string the scripted objects produce in the real run"""
    f, args = tag[1], tag[2]
    if f.startswith('format:'):
        conv = int(f.split(':')[1]); isc, c = const_of(args[0])
        if not isc and is_native(args[0]): raise SkipValidation('a CPython object is formatted by CPython itself')
        spec = ''
        if len(args) == 2:
            ok, spec = const_of(args[1])
            if not ok or not isinstance(spec, str): return tag
        if isc:
            try:
                v = {115: str, 114: repr, 97: ascii}.get(conv, lambda x: x)(c)
                return ('atom', const_atom(format(v, spec)))
            except Exception: return tag
        try:
            if conv == 115: r = format('\x01S<%r>' % (args[0],), spec)
            elif conv == 114: r = format('\x01R<%r>\u00e9' % (args[0],), spec)
            elif conv == 97: r = format(('\x01R<%r>\u00e9' % (args[0],)).encode('ascii', 'backslashreplace').decode('ascii'), spec)
            else: r = '\x01F<%r|%s>' % (args[0], spec)
        except ValueError:
            raise SkipValidation('str.__format__ rejects the format spec (the real run raises ValueError)')
        return ('atom', const_atom(r))
    if f == 'joinedstr':
        parts = []
        for a in args:
            ok, c = const_of(a)
            if not ok or not isinstance(c, str): return tag
            parts.append(c)
        return ('atom', const_atom(''.join(parts)))
    return tag


class SkipValidation(Exception):
    pass


def tree_queries(tree, names, acc):
    if 'o' in tree: return acc
    q = tree['q']
    if q[0] == 'is' and q[2] is None: acc.add(term_tag(q[1], names))
    tree_queries(tree['y'], names, acc); tree_queries(tree['n'], names, acc)
    return acc


def walk_tree(tree, names, assign, asked, sub, nonec=()):
    """the model's outcome under the assignment"""
    if sub is None: raise SkipValidation('loop targets are not plain distinct names')
    def answer(q):
        if q not in asked: asked.append(q)
        return assign.get(q, False)
    def val(t):
        return subst_items(term_tag(t, names), sub, assign, True, nonec)
    def pre(t):
        return subst_items(term_tag(t, names), sub, assign, False, nonec)
    while 'o' not in tree:
        q = tree['q']
        if q[0] == 'truth':
            t = val(q[1])
            isc, c = const_of(t)
            if isc: b = bool(c)                                     # constants: CPython knows
            elif isinstance(t, tuple) and t[0] == 'app' and t[1] in ('tuple', 'list', 'set', 'map'): b = len(t[2]) > 0
            elif isinstance(t, tuple) and t[0] == 'app' and t[1] == 'call' and t[2] and isinstance(t[2][0], tuple) and t[2][0][0] == 'atom' and t[2][0][1].startswith('<genexpr:'): b = True
            else: b = answer(('truth', t))
        else:
            t = pre(q[1]); u = val(q[2])
            if u is None:
                if t is None: b = True
                elif t in (True, False) or is_native(t): b = False
                else: b = answer(('none', t)) if t in nonec else False
            elif isinstance(t, tuple) and t[0] in ('atom', 'item') and isinstance(u, tuple) and u[0] in ('atom', 'item'): b = (t == u)
            else: raise SkipValidation('general identity test')
        tree = tree['y'] if b else tree['n']
    o = tree['o']
    if o[0] == 'stuck': return ('stuck',)
    if o[0] == 'ret': return ('ret', val(o[1]))
    for k, (it, targets) in enumerate(o[1]):
        for t in targets:
            if t % 2 == 0 and (sub.get(names[t // 2]) or ())[:2] != ('item', k): raise SkipValidation('targets recorded by the model differ from the STORE instructions')
    lo = [val(it) for it, _ in o[1]]
    if any(is_native(x) or x is None for x in lo[1:]): raise SkipValidation('a loop over a CPython object is run by CPython itself')
    y = [val(t) for t in o[2]]
    return ('pass', lo, y, o[3])


def nonify(tag, assign):
    """terms whose value the assignment makes None"""
    if isinstance(tag, tuple) and tag[0] in ('atom', 'app', 'item'):
        if tag[0] == 'app': tag = ('app', tag[1], tuple(nonify(a, assign) for a in tag[2]))
        if assign.get(('none', tag)): return None
    return tag


def canon_assign_for_model(assign):
    return assign


# ------------------------------------------------------------------------------------------------ exploring every assignment
def explore(runners, limit=256):
    """runners: callables(assign) -> (outcome, asked).  Explores every assignment to the questions any runner asks (depth-first on the
    first unanswered question).  -> list of (assign, [outcomes]); truncated=True if more than `limit` leaves."""
    results = []; stack = [{}]; truncated = False
    while stack:
        assign = stack.pop()
        outs = []; new = None
        for r in runners:
            o, asked = r(assign)
            outs.append(o)
            if new is None:
                for q in asked:
                    if q not in assign: new = q; break
        if new is None:
            results.append((assign, outs))
            if len(results) >= limit: truncated = bool(stack); break
        else:
            a1 = dict(assign); a1[new] = True; a0 = dict(assign); a0[new] = False
            stack.append(a1); stack.append(a0)
    return results, truncated


# ------------------------------------------------------------------------------------------------ programs
def wrap(kind, e, loopvar='x'):
    if kind == 'cond': return '(%s for %s in %s if (%s))' % (loopvar, loopvar, FIRST_ITER, e)
    if kind == 'elt': return '((%s) for %s in %s)' % (e, loopvar, FIRST_ITER)
    return 'lambda: (%s)' % e


def compile_program(src):
    """-> (code object of the generator / lambda, kind)"""
    top = compile(src, '<c03>', 'eval')
    inner = code_consts(top)
    if len(inner) != 1: raise ValueError('expected one code object in %r' % src)
    tree = ast.parse(src, mode='eval').body
    return inner[0], ('lam' if isinstance(tree, ast.Lambda) else 'gen')


CACHE_STATS = {'same': 0, 'different': 0}


DECODE_STATS = {'agree': 0, 'skipped': 0, 'mismatch': []}


def decoding_tie(code):
    """Decompiler.get_instructions (Pony's own decoding of co_code: opcode, EXTENDED_ARG prefixes, argument, jump target) against
    dis.get_instructions of the running CPython, on the same code object"""
    Probe = DECODE_STATS.get('probe')
    if Probe is None:
        from pony.orm import decompiling
        class Probe(decompiling.Decompiler):
            def analyze_jumps(self): pass
            def decompile(self): self.stack.append(None)
        DECODE_STATS['probe'] = Probe
    try:
        d = Probe(code)
    except Exception:
        DECODE_STATS['skipped'] += 1; return
    ins = [i for i in dis.get_instructions(code) if i.opname != 'CACHE']
    by_off = {}; k = 0
    while k < len(ins):                      # an instruction starts at its first EXTENDED_ARG prefix
        start = ins[k].offset
        while ins[k].opname == 'EXTENDED_ARG': k += 1
        by_off[start] = (ins[k], ins[k + 1] if k + 1 < len(ins) else None); k += 1
    nxt = lambda i: [by_off[i.offset][1]] if False else [j for j in ins if j.offset > i.offset and j.opname != 'EXTENDED_ARG'][:1]
    for pos, next_pos, opname, arg in d.instructions:
        if pos not in by_off: DECODE_STATS['mismatch'].append((code.co_name, pos, opname, 'no instruction starts here')); return
        i, _ = by_off[pos]
        real = i.opname.replace('+', '_')
        if opname != real:
            # the decompiler's own merge of POP_JUMP_IF_x + JUMP_BACKWARD into POP_JUMP_BACKWARD_IF_y: the argument is the backward target
            follow = nxt(i)
            if opname.startswith('POP_JUMP_BACKWARD_IF_') and real.startswith('POP_JUMP_IF_') and follow and follow[0].opname == 'JUMP_BACKWARD':
                want = follow[0].argval
                # ... which may itself start at EXTENDED_ARG prefixes
                if arg and arg[0] != want and not any(j.offset == arg[0] and j.opname == 'EXTENDED_ARG' for j in ins) :
                    DECODE_STATS['mismatch'].append((code.co_name, pos, opname, arg, want)); return
                continue
            DECODE_STATS['mismatch'].append((code.co_name, pos, opname, real)); return
        if not arg: continue
        if 'JUMP' in real or real == 'FOR_ITER': want = i.argval
        elif real in ('LOAD_CONST', 'RETURN_CONST', 'KW_NAMES'): want = i.argval
        elif real in ('LOAD_GLOBAL', 'LOAD_ATTR', 'LOAD_NAME', 'LOAD_FAST', 'STORE_FAST', 'LOAD_DEREF', 'STORE_DEREF', 'LOAD_CLOSURE', 'LOAD_FAST_CHECK', 'STORE_ATTR', 'STORE_GLOBAL', 'LOAD_METHOD', 'LOAD_FAST_AND_CLEAR', 'MAKE_CELL'): want = i.argval
        elif real in ('COMPARE_OP',): want = i.argval
        elif real in ('IS_OP', 'CONTAINS_OP', 'BINARY_OP', 'CALL', 'BUILD_TUPLE', 'BUILD_LIST', 'BUILD_SET', 'BUILD_MAP', 'BUILD_STRING', 'BUILD_SLICE', 'BUILD_CONST_KEY_MAP',
                      'FORMAT_VALUE', 'COPY', 'SWAP', 'UNPACK_SEQUENCE', 'MAKE_FUNCTION', 'LIST_APPEND', 'LIST_EXTEND', 'CALL_FUNCTION_EX', 'YIELD_VALUE', 'RESUME', 'CALL_INTRINSIC_1'): want = i.arg
        else: continue
        got = arg[0]
        if isinstance(want, types.CodeType) or isinstance(got, types.CodeType): ok = got is want
        else: ok = (got == want) and (type(got) is type(want) or not isinstance(want, (bool, int, float)))
        if not ok: DECODE_STATS['mismatch'].append((code.co_name, pos, opname, repr(got)[:60], repr(want)[:60])); return
    DECODE_STATS['agree'] += 1


def decompile_real(code):
    """the real entry point, through its cache (utils.get_codeobject_id pins the code object, so the key cannot be reused)"""
    from pony.orm import decompiling
    decoding_tie(code)
    try:
        a, names, cells = decompiling.decompile(code)
        a2 = decompiling.decompile(code)[0]
        CACHE_STATS['same' if a2 is a else 'different'] += 1
        return a, None
    except Exception as e:
        return None, type(e).__name__


class RenameFirstIter(ast.NodeTransformer):
    """`.0` -> T; a FormattedValue outside a JoinedStr (what FORMAT_VALUE alone decompiles to) means f'{v}': wrap it so that
    ast.unparse prints it with that meaning; a format_spec must be a JoinedStr for ast.unparse"""
    def visit_Name(self, n):
        if n.id == '.0': return ast.copy_location(ast.Name(FIRST_ITER, ast.Load()), n)
        return n
    def visit_Constant(self, n):
        # ast.unparse prints Constant(-1) ** a as `-1 ** a`, i.e. with another meaning: give it the shape the parser would produce
        if type(n.value) in (int, float) and (n.value < 0 or (n.value == 0 and str(n.value).startswith('-'))):
            return ast.UnaryOp(ast.USub(), ast.Constant(-n.value))
        return n
    def fv(self, n):
        n.value = self.visit(n.value)
        if n.format_spec is not None:
            sp = n.format_spec
            if isinstance(sp, ast.JoinedStr): sp = self.visit_JoinedStr(sp)
            elif isinstance(sp, ast.FormattedValue): sp = ast.JoinedStr([self.fv(sp)])
            else: sp = ast.JoinedStr([self.visit(sp)])
            n.format_spec = sp
        return n
    def visit_JoinedStr(self, n):
        n.values = [self.fv(v) if isinstance(v, ast.FormattedValue) else self.visit(v) for v in n.values]
        return n
    def visit_FormattedValue(self, n):
        return ast.JoinedStr([self.fv(n)])


def recompile(node, kind, params=None):
    """the decompiled AST -> code object again (through ast.unparse, i.e. with exactly the meaning the AST has)"""
    import copy
    node = RenameFirstIter().visit(copy.deepcopy(node))
    src = ast.unparse(node)
    if kind == 'lam': src = 'lambda %s: (%s)' % (', '.join(params or ()), src)
    top = compile(src, '<c03-decompiled>', 'eval')
    inner = code_consts(top)
    if len(inner) != 1: raise ValueError('recompiled text has %d code objects: %s' % (len(inner), src))
    return inner[0], src


def prepare(src):
    """compile + decompile + serialise one program -> dict (everything picklable except code objects, which are recompiled on demand)"""
    code, kind = compile_program(src)
    return prepare_code(code, kind, src)


def prepare_code(code, kind, src, node=None, depth=0, params=None):
    """`node` given: the sub-tree the decompiler produced for a nested generator (first iterable already replaced by `.0`)"""
    atoms = Atoms()
    atoms('.0')
    p = {'src': src, 'kind': kind, 'code': code, 'subs': []}
    # parameters of a lambda: a top-level decompile() returns only the body (Pony takes the names from the code object); for a nested
    # lambda they are the ones of the Lambda node the decompiler built
    p['params'] = (list(code.co_varnames[:code.co_argcount]) if params is None else params) if kind == 'lam' else None
    p['model_code'] = to_model(code, atoms)
    err = None
    if node is None: node, err = decompile_real(code)
    p['decompile_error'] = err; p['node'] = node
    p['model_ast'] = None; p['ast_unsupported'] = None
    if node is not None:
        try:
            am = AstModel(atoms)
            p['model_ast'] = am.top(node, kind)
            inner = code_consts(code)
            if len(am.nested) != len(inner): raise Unsupported('nested generators: %d in the AST, %d code objects' % (len(am.nested), len(inner)))
            if depth < 6:
                import copy
                for k, (ic, inode) in enumerate(zip(inner, am.nested)):
                    if isinstance(inode, ast.Lambda):
                        if ic.co_name != '<lambda>': raise Unsupported('nested lambda does not pair with the code object')
                        dparams = [x.arg for x in inode.args.args]
                        sp = prepare_code(ic, 'lam', '%s  [nested lambda %d]' % (src, k), inode.body, depth + 1, dparams)
                        if dparams != list(ic.co_varnames[:ic.co_argcount]):
                            # never "proved": the model names parameters, it does not order them; the execution oracle calls both positionally
                            sp['model_ast'] = None; sp['ast_unsupported'] = 'lambda parameters differ from the code object'; sp['subs'] = []
                        p['subs'].append(sp)
                        continue
                    if ic.co_name != '<genexpr>': raise Unsupported('nested generator does not pair with the code object')
                    inode = copy.copy(inode); inode.generators = list(inode.generators)
                    g0 = copy.copy(inode.generators[0]); g0.iter = ast.Name('.0', ast.Load()); inode.generators[0] = g0
                    p['subs'].append(prepare_code(ic, 'gen', '%s  [nested generator %d]' % (src, k), inode, depth + 1))
        except Unsupported as e:
            p['ast_unsupported'] = str(e); p['model_ast'] = None; p['subs'] = []
        except Exception as e:      # an AST python itself cannot make sense of (wrong node classes, missing fields)
            p['ast_unsupported'] = 'malformed AST: %s' % type(e).__name__; p['model_ast'] = None; p['subs'] = []
    p['model_src_ast'] = None
    if depth == 0 and '[nested' not in src:
        # the AST of the SOURCE text against the same bytecode: a self-check of the two models (bytecode machine, AST evaluator)
        # on CPython's own compilation, independent of the decompiler
        try:
            tree = ast.parse(src, mode='eval').body
            p['model_src_ast'] = AstModel(atoms, code).top(tree.body if isinstance(tree, ast.Lambda) else tree, kind)
        except Exception:
            p['model_src_ast'] = None
    p['names'] = atoms.names
    return p


def flatten(p):
    out = [p]
    for s in p['subs']: out += flatten(s)
    return out


def judge_tree(p, replies, limit=256):
    """judge a program and, separately, every nested generator the decompiler rebuilt inside it (the enclosing expression treats a
    nested generator as an opaque function of its first iterable); `replies`: iterator of driver replies in `flatten` order"""
    j = judge(p, next(replies), limit)
    for s in p['subs']:
        js = judge_tree(s, replies, limit)
        j['paths'] += js['paths']
        if js['violation'] and not j['violation']:
            j['violation'] = js['violation']; j['status'] = 'MEANING-CHANGED'
            j['decompiled'] = '%s  [nested: %s]' % (j['decompiled'], js['decompiled'])
        if js['divergence'] and not j['divergence']: j['divergence'] = js['divergence']
        if j['status'] == 'proved-equal' and js['status'] != 'proved-equal':
            j['status'] = js['status'] if js['status'] != 'MEANING-CHANGED' else j['status']; j['check'] = js['check']
        if js.get('validation_skipped') and not j.get('validation_skipped'): j['validation_skipped'] = js['validation_skipped']
        j['model_unsupported'] = j['model_unsupported'] or js['model_unsupported']
    return j


def request_of(p):
    if p.get('nodriver'): return {'op': 'check', 'code': [['unsupported', 'decision tree too large: execution oracle only']], 'ast': None}
    return {'op': 'check', 'code': p['model_code'], 'ast': p['model_ast'], 'src_ast': p.get('model_src_ast')}


def values_of(e, names, cap=24):
    """tags of the values a model expression (JSON of AstModel) may evaluate to (operands of and/or/if-else are alternatives)"""
    k = e[0]
    if k in ('atom', 'lit'): return [('atom', names[e[1]])]
    if k == 'bool': return [e[1]]
    if k == 'none': return [None]
    if k == 'not': return [True, False]
    if k == 'boolop': return [v for x in e[2] for v in values_of(x, names, cap)][:cap]
    if k == 'ife': return (values_of(e[2], names, cap) + values_of(e[3], names, cap))[:cap]
    if k == 'cmp':
        out = []; left = values_of(e[1], names, cap)
        for op, arg, r in e[2]:
            right = values_of(r, names, cap)
            if op == 'named': out += [('app', arg, (l, x)) for l in left for x in right]
            else: out += [True, False]
            left = right
        return out[:cap]
    if k == 'app':
        combos = [()]
        for a in e[2]:
            combos = [c + (v,) for c in combos for v in values_of(a, names, cap)][:cap]
        return [('app', e[1], c) for c in combos]
    return []


def none_operands(e, names, acc):
    """tags of the operands of `is None` / `is not None` anywhere in a model expression / top (JSON of AstModel)"""
    if not isinstance(e, list): return acc
    if e and e[0] == 'cmp' and len(e) == 3:
        left = e[1]
        for link in e[2]:
            op, arg, r = link
            if op == 'is' and r == ['none']: acc.update(t for t in values_of(left, names) if isinstance(t, tuple))
            left = r
    for c in e:
        none_operands(c, names, acc)
    return acc


def source_model(src, kind):
    """the model expression of the ORIGINAL source text (used only to find the operands of `is None`)"""
    atoms = Atoms(); atoms('.0')
    try:
        tree = ast.parse(src.split('  [nested')[0], mode='eval').body
        if isinstance(tree, ast.Lambda): tree = tree.body; kind = 'lam'
        m = AstModel(atoms).top(tree, kind)
        return m, atoms.names
    except Exception:
        return None, atoms.names


def judge(p, reply, limit=256):
    """model validation + property oracle for one program -> dict(status=..., divergence=..., violation=...)"""
    res = {'src': p['src'], 'check': reply.get('check'), 'status': None, 'divergence': None, 'violation': None, 'incomplete': False,
           'decompiled': None, 'paths': 0}
    code, kind, names = p['code'], p['kind'], p['names']
    tree = reply.get('code_tree')
    sub = loop_item_names(code)
    if sub is not None and kind == 'lam': sub.update({n: ('arg', i) for i, n in enumerate(code.co_varnames[:code.co_argcount])})
    nonec = set()
    cands = set(tree_queries(tree, names, set())) if tree else set()
    if p['model_ast'] is not None: none_operands(p['model_ast'], names, cands)
    sm, snames = source_model(p['src'], kind)
    if sm is not None: none_operands(sm, snames, cands)
    for t in cands:
        try: nonec.add(subst_items(t, sub or {}))
        except SkipValidation: pass
    validate = tree is not None and not reply.get('code_stuck')
    res['model_unsupported'] = bool(reply.get('code_stuck')) or tree is None
    runners = [lambda a: real_run(code, kind, a, nonec)]
    skip = []
    def model_runner(a):
        asked = []
        try:
            return walk_tree(tree, names, a, asked, sub, nonec), asked
        except SkipValidation as e:
            skip.append(str(e)); return ('skip',), asked
    if validate: runners.append(model_runner)
    res['check_source'] = reply.get('check_source')
    src_tree = reply.get('src_tree') if validate else None
    def src_runner(a):
        asked = []
        try:
            return walk_tree(src_tree, names, a, asked, sub, nonec), asked
        except SkipValidation as e:
            return ('skip',), asked
    if src_tree is not None: runners.append(src_runner)
    code2 = None
    if p['node'] is not None:
        try:
            code2, src2 = recompile(p['node'], kind, p.get('params'))
            res['decompiled'] = src2
        except Exception as e:
            res['recompile_error'] = '%s: %s' % (type(e).__name__, e)
    if code2 is not None:
        # questions about None-ness of the terms the decompiled text tests as well
        try:
            for n in ast.walk(ast.parse(res['decompiled'], mode='eval')):
                pass
        except SyntaxError:
            pass
        runners.append(lambda a: real_run(code2, kind, a, nonec))
    results, truncated = explore(runners, limit)
    res['paths'] = len(results); res['truncated'] = truncated
    for assign, outs in results:
        real = outs[0]
        k = 1
        if validate:
            m = outs[k]; k += 1
            if m != ('skip',) and real[-1] != 'foreign' and 'native:' not in repr(real) and canon_out(m) != canon_out(real) and res['divergence'] is None and real[0] != 'exc':
                res['divergence'] = {'assign': show_assign(assign), 'model': repr(canon_out(m)), 'real': repr(canon_out(real))}
        if src_tree is not None:
            m = outs[k]; k += 1
            if m != ('skip',) and real[-1] != 'foreign' and 'native:' not in repr(real) and canon_out(m) != canon_out(real) and res['divergence'] is None and real[0] != 'exc':
                res['divergence'] = {'assign': show_assign(assign), 'model': 'AST evaluator (eval of the source AST): ' + repr(canon_out(m)), 'real': repr(canon_out(real))}
        if code2 is not None:
            d = outs[k]
            if canon_out(d) != canon_out(real) and res['violation'] is None:
                res['violation'] = {'assign': show_assign(assign), 'original': repr(canon_out(real)), 'decompiled': repr(canon_out(d))}
    if skip: res['validation_skipped'] = skip[0]
    if p['decompile_error']: res['status'] = 'decompiler-error:' + p['decompile_error']
    elif code2 is None: res['status'] = 'decompiled-ast-not-compilable'
    elif res['violation']: res['status'] = 'MEANING-CHANGED'
    elif res['check'] is True: res['status'] = 'proved-equal'
    elif p['ast_unsupported'] or res['model_unsupported']: res['status'] = 'unsupported-by-checker:agree-on-all-paths'
    else: res['status'] = 'checker-incomplete:agree-on-all-paths'
    return res


def canon_out(o):
    if o[0] == 'pass': return ('pass', tuple(o[1]), tuple(o[2]), o[3])
    return tuple(o)


def show_assign(a):
    return sorted('%s %s = %s' % (k[0], show_tag(k[1]), v) for k, v in a.items())


def show_tag(t):
    if isinstance(t, tuple):
        if t[0] == 'atom': return t[1]
        if t[0] == 'item': return 'item' + '.'.join(str(x) for x in t[1:])
        if t[0] == 'arg': return 'arg%d' % t[1]
        if t[0] == 'app': return '%s(%s)' % (t[1], ', '.join(show_tag(a) for a in t[2]))
    return repr(t)


# ------------------------------------------------------------------------------------------------ the grammar that is enumerated
UNARY = {'not': 'not %s', 'neg': '-%s', 'attr': '%s.p', 'call1': 'f(%s)', 'isnone': '%s is None', 'isnotnone': '%s is not None'}
BINARY = {'and': '%s and %s', 'or': '%s or %s', 'eq': '%s == %s', 'lt': '%s < %s', 'add': '%s + %s', 'in': '%s in %s', 'sub': '%s[%s]',
          'callkw': 'f(%s, k=%s)'}
TERNARY = {'ife': '%s if %s else %s', 'chain': '%s < %s <= %s', 'slice': '%s[%s:%s]'}
ATOMS = 'abcdeghjklmn'


def render(e):
    k = e[0]
    if k == 'a': return e[1]
    if k == 'lit': return e[1]
    parts = tuple(render(c) if c[0] == 'a' else '(%s)' % render(c) for c in e[1:])
    if k in UNARY: return UNARY[k] % parts
    if k in BINARY: return BINARY[k] % parts
    if k in TERNARY:
        if k == 'ife': return TERNARY[k] % (parts[1], parts[0], parts[2])     # ('ife', test, body, orelse)
        return TERNARY[k] % parts
    raise ValueError(k)


def shapes(n, memo={}):
    """all expression trees with n nodes, leaves are placeholders"""
    if n in memo: return memo[n]
    out = []
    if n == 1: out.append(('a', None))
    else:
        for u in UNARY:
            out += [(u, c) for c in shapes(n - 1)]
        for i in range(1, n - 1):
            for b in BINARY:
                out += [(b, l, r) for l in shapes(i) for r in shapes(n - 1 - i)]
        for i in range(1, n - 2):
            for j in range(1, n - 1 - i):
                k = n - 1 - i - j
                if k < 1: continue
                for t in TERNARY:
                    out += [(t, x, y, z) for x in shapes(i) for y in shapes(j) for z in shapes(k)]
    memo[n] = out
    return out


def count_leaves(e):
    return 1 if e[0] == 'a' else sum(count_leaves(c) for c in e[1:])


def label(e, names):
    """fill the placeholders from the iterator `names`"""
    if e[0] == 'a': return ('a', next(names))
    if e[0] == 'lit': return e
    return (e[0],) + tuple(label(c, names) for c in e[1:])


def growth_strings(m, maxatoms):
    """restricted growth strings: atoms are introduced in the order a, b, c, ... (every expression up to renaming of atoms, once)"""
    def rec(prefix, used):
        if len(prefix) == m: yield prefix; return
        for k in range(min(used + 1, maxatoms)):
            yield from rec(prefix + [k], max(used, k + 1))
    return rec([], 0)


def enumerate_exprs(n, maxatoms):
    for sh in shapes(n):
        for g in growth_strings(count_leaves(sh), maxatoms):
            yield label(sh, iter(ATOMS[k] for k in g))


LITERALS = ('1', '0', 'True', 'None')


def enumerate_exprs_lit(n, maxatoms, lits=LITERALS):
    """like enumerate_exprs, with at least one leaf a constant (CPython folds constant operands of and/or/not/if-else away)"""
    for sh in shapes(n):
        m = count_leaves(sh)
        if n == 1: continue
        for mask in itertools.product((False, True), repeat=m):
            if not any(mask): continue
            nat = m - sum(mask)
            for lv in itertools.product(lits, repeat=sum(mask)):
                for g in (growth_strings(nat, maxatoms) if nat else [[]]):
                    li = iter(lv); ai = iter(ATOMS[k] for k in g); mi = iter(mask)
                    def fill(e):
                        if e[0] == 'a': return ('lit', next(li)) if next(mi) else ('a', next(ai))
                        return (e[0],) + tuple(fill(c) for c in e[1:])
                    yield fill(sh)


def canon_rename(e):
    m = {}
    def rec(e):
        if e[0] == 'a':
            if e[1] not in m: m[e[1]] = ATOMS[len(m)]
            return ('a', m[e[1]])
        if e[0] == 'lit': return e
        return (e[0],) + tuple(rec(c) for c in e[1:])
    return rec(e)


def pretty(e):
    return ast.unparse(ast.parse(render(e), mode='eval'))


def subtrees_replacements(e):
    """candidate smaller expressions: a subtree replaced by one of its children or by a fresh atom"""
    out = []
    SMALLER = {'and3': 'and', 'or3': 'or', 'kw2': 'callkw', 'slice3': 'slice', 'call2': 'call1', 'fstr2': 'fstr', 'attr2': 'attr', 'genq': 'attr',
               'chain': 'lt', 'slice': 'sub', 'callkw': 'call1', 'meth': 'call1', 'sliceto': 'sub', 'gen': None, 'fstr': 'call1'}
    def rec(e, rebuild):
        if e[0] in ('a', 'lit'):
            if e[0] == 'lit': out.append(rebuild(('a', 'z')))
            return
        for c in e[1:]:
            out.append(rebuild(c))
        out.append(rebuild(('a', 'z')))
        if has_lit[0]: out.append(rebuild(('lit', '1'))); out.append(rebuild(('lit', '0')))
        sm = SMALLER.get(e[0])
        if sm:                                   # the same operator with one operand less
            kids = e[1:]
            for drop in range(len(kids)):
                rest = kids[:drop] + kids[drop + 1:]
                want = 1 if sm in UNARY or sm in ('attr',) else 2 if sm in BINARY or sm in ('sub', 'lt') else 3
                if len(rest) == want: out.append(rebuild((sm,) + rest))
        for i, c in enumerate(e[1:], 1):
            rec(c, lambda x, i=i, e=e, rebuild=rebuild: rebuild(e[:i] + (x,) + e[i + 1:]))
    has_lit = ['lit' in repr(e)]
    rec(e, lambda x: x)
    return sorted(set(out), key=lambda x: (tree_size(x), repr(x)))


def tree_size(e):
    return 1 if e[0] in ('a', 'lit') else 1 + sum(tree_size(c) for c in e[1:])


def violates(kind, e):
    """property oracle alone (no driver): does the real decompiler change the meaning of this expression in this position?"""
    try:
        p = prepare(wrap(kind, render(e)))
    except Exception:
        return None
    if p['node'] is None: return None
    j = judge_tree(p, itertools.repeat({}), limit=512)
    return j if j['violation'] else None


def shrink(kind, e):
    cur = e; curj = violates(kind, e)
    if curj is None: return e, None
    changed = True
    while changed:
        changed = False
        for cand in subtrees_replacements(cur):
            if tree_size(cand) >= tree_size(cur): continue
            j = violates(kind, cand)
            if j is not None:
                cur, curj, changed = cand, j, True
                break
    # generalise: the same shape with pairwise distinct atoms, if that fails too, is the canonical representative
    names = iter(ATOMS)
    distinct = label(strip_labels(cur), names)
    if distinct != canon_rename(cur):
        j = violates(kind, distinct)
        if j is not None: return distinct, j
    return canon_rename(cur), curj


def strip_labels(e):
    if e[0] == 'a': return ('a', None)
    if e[0] == 'lit': return e
    return (e[0],) + tuple(strip_labels(c) for c in e[1:])


def violation_key(kind, e):
    return '%s:%s' % (kind, pretty(canon_rename(e)))


# ------------------------------------------------------------------------------------------------ canonical operators for keys
TRANSPARENT_UNARY = ('neg', 'attr', 'isnone', 'isnotnone', 'attr2', 'bnot', 'pos', 'clist', 'ctuple', 'starcall', 'walrus', 'listcomp', 'setcomp', 'dictcomp')
TRANSPARENT_BINARY = ('lt', 'add', 'in', 'sub', 'callkw', 'ne', 'le', 'mul', 'notin', 'call2', 'meth', 'tuple2', 'list2', 'sliceto', 'gt', 'ge', 'subm', 'div', 'fdiv', 'mod', 'pow', 'shl', 'shr', 'band', 'bor', 'bxor', 'matmul', 'set2', 'dict2', 'dictk', 'kwstarcall')
EXTRA = {'bnot': '~%s', 'pos': '+%s', 'attr2': '%s.q.r', 'ne': '%s != %s', 'le': '%s <= %s', 'mul': '%s * %s', 'notin': '%s not in %s',
         'call2': 'f(%s, %s)', 'meth': '%s.m(%s)', 'tuple2': '(%s, %s)', 'list2': '[%s, %s]', 'sliceto': '%s[:%s]',
         'fstr': "f'v{%s}w'", 'fstr2': "f'{%s!r}{%s:>4}'", 'fstr3': "f'{%s!r:>8}'", 'fstr3s': "f'{%s!s:>8}'", 'fstr3a': "f'v{%s!a:<9}'",
         'fstr4': "f'{%s!s:{%s}}'", 'fstr4r': "f'{%s!r:{%s}}w'", 'fstr5': "f'{%s!a:{%s}.{%s}}'", 'fstr5r': "f'{%s!r:{%s}.{%s}}'", 'fstr6': "f'{%s:{%s}.{%s}}'", 'fstr1a': "f'{%s!a}'", 'fstr1s': "f'{%s!s}'", 'slice3': '%s[%s:%s:%s]', 'slicetuple': '%s[%s:%s, %s]', 'slicetuple2': '%s[%s, :%s, %s:]', 'gen': '(y for y in %s if %s)', 'genq': '(y.p for y in %s)',
         'gt': '%s > %s', 'ge': '%s >= %s', 'subm': '%s - %s', 'div': '%s / %s', 'fdiv': '%s // %s', 'mod': '%s %% %s', 'pow': '%s ** %s',
         'shl': '%s << %s', 'shr': '%s >> %s', 'band': '%s & %s', 'bor': '%s | %s', 'bxor': '%s ^ %s', 'matmul': '%s @ %s',
         'set2': '{%s, %s}', 'dict2': "{'k': %s, 'j': %s}", 'dictk': '{%s: %s}', 'clist': '%s in [1, 2, 3]', 'ctuple': '%s in (1, 2)',
         'walrus': '(w := %s)', 'listcomp': '[y for y in %s]', 'setcomp': '{y.p for y in %s}', 'dictcomp': '{y: y.p for y in %s}', 'listcomp2': '[y.p for y in %s if %s]',
         'starcall': 'f(*%s)', 'kwstarcall': 'f(%s, **%s)', 'lamarg': 'f(lambda: %s)', 'lamarg1': 'f(lambda w: %s)', 'lamarg2': 'f(lambda w, v: %s)',
         'and3': '%s and %s and %s', 'or3': '%s or %s or %s', 'kw2': 'f(%s, k=%s, j=%s)'}
_render_base = render


def render(e):
    k = e[0]
    if k in EXTRA:
        parts = tuple(render(c) if c[0] == 'a' else '(%s)' % render(c) for c in e[1:])
        return EXTRA[k] % parts
    return _render_base(e)


def canonical_ops(kind, e):
    """rename uninterpreted operators to one representative (unary -> f(.), binary -> ==) wherever the failure survives it"""
    def positions(e, path=()):
        yield path, e
        if e[0] not in ('a', 'lit'):
            for i, c in enumerate(e[1:], 1): yield from positions(c, path + (i,))
    def replace(e, path, new):
        if not path: return new
        i = path[0]
        return e[:i] + (replace(e[i], path[1:], new),) + e[i + 1:]
    cur = e
    for path, sub in list(positions(e)):
        node = cur
        for i in path: node = node[i]
        new = None
        if node[0] == 'lit' and node[1] not in ('1', '0'):      # constants: one truthy and one falsy representative
            new = ('lit', '0' if node[1] in ('0', 'None', 'False', "''") else '1')
        elif node[0] in TRANSPARENT_UNARY: new = ('call1',) + node[1:]
        elif node[0] in TRANSPARENT_BINARY: new = ('eq',) + node[1:]
        if new is not None:
            cand = replace(cur, path, new)
            if violates(kind, cand) is not None: cur = cand
    return cur


_shrink_base = shrink


def shrink(kind, e):
    se, sj = _shrink_base(kind, e)
    if sj is None: return se, sj
    ce = canonical_ops(kind, se)
    if ce != se:
        se2, sj2 = _shrink_base(kind, ce)
        if sj2 is not None: return se2, sj2
    return se, sj


# ------------------------------------------------------------------------------------------------ random larger programs
def rand_expr(rng, size, scope, value_pos=True):
    """random expression tree with about `size` nodes over the names in `scope`"""
    if size <= 1:
        r = rng.random()
        if (r < 0.08 and value_pos) or r < 0.03: return ('lit', rng.choice(['1', "'s'", 'None', 'True', '0']))
        return ('a', rng.choice(scope))
    r = rng.random()
    if r < 0.22 or size == 2:
        k = rng.choice(['not', 'not', 'neg', 'attr', 'call1', 'isnone', 'isnotnone', 'attr2', 'fstr', 'genq', 'fstr3', 'fstr3s', 'fstr3a'] + (['bnot', 'pos'] if rng.random() < 0.1 else [])
                       + (['clist', 'ctuple', 'starcall', 'lamarg', 'lamarg1', 'lamarg1', 'walrus', 'listcomp', 'setcomp', 'dictcomp'] if rng.random() < 0.3 else []))
        return (k, rand_expr(rng, size - 1, scope, False))
    if r < 0.80 or size == 3:
        k = rng.choice(['and', 'and', 'or', 'or', 'eq', 'lt', 'add', 'in', 'sub', 'callkw', 'ne', 'le', 'mul', 'notin', 'call2', 'meth', 'tuple2', 'sliceto', 'fstr2', 'fstr4', 'fstr4r', 'gen']
                       + (['gt', 'ge', 'subm', 'div', 'fdiv', 'mod', 'pow', 'shl', 'shr', 'band', 'bor', 'bxor', 'matmul', 'set2', 'dict2', 'dictk', 'list2', 'kwstarcall'] if rng.random() < 0.35 else []))
        i = rng.randint(1, size - 2)
        if k == 'gen':
            return (k, rand_expr(rng, i, scope, False), rand_expr(rng, size - 1 - i, scope + ['y'], False))
        return (k, rand_expr(rng, i, scope, False), rand_expr(rng, size - 1 - i, scope, k not in ('and', 'or')))
    k = rng.choice(['ife', 'ife', 'ife', 'chain', 'slice', 'and3', 'or3', 'kw2', 'fstr5', 'fstr5r', 'fstr6'] + (['slice3', 'slicetuple', 'slicetuple2'] if size > 4 else []))
    n = 4 if k in ('slice3', 'slicetuple', 'slicetuple2') else 3
    cuts = sorted(rng.sample(range(1, size - 1), n - 1)) if size - 2 >= n - 1 else None
    if cuts is None: return rand_expr(rng, size, scope, value_pos) if size < 4 else ('ife',) + tuple(rand_expr(rng, 1, scope) for _ in range(3))
    sizes = [b - a for a, b in zip([0] + cuts, cuts + [size - 1])]
    return (k,) + tuple(rand_expr(rng, max(1, s), scope, k in ('slice', 'slice3', 'slicetuple', 'slicetuple2', 'kw2') and j > 0) for j, s in enumerate(sizes))


def rand_program(rng):
    """a random program that CPython accepts (a walrus in a comprehension iterable, for instance, is a SyntaxError: drawn again)"""
    import warnings
    while True:
        pr = rand_program1(rng)
        try:
            with warnings.catch_warnings():
                warnings.simplefilter('ignore')
                compile(render_prog(pr), '<c03>', 'eval')
            return pr
        except SyntaxError:
            continue


def rand_program1(rng):
    """-> structured program: {'lam': tree} | {'elt': tree, 'clauses': [{'target': str, 'iter': tree|None, 'conds': [tree]}]}"""
    glob = ['a', 'b', 'c', 'd']
    if rng.random() < 0.2:
        if rng.random() < 0.4: return {'lam': rand_expr(rng, rng.randint(5, 12), glob + ['p', 'q']), 'params': 'p, q'}
        return {'lam': rand_expr(rng, rng.randint(5, 12), glob)}
    nclauses = rng.choice([1, 1, 2, 2, 3])
    scope = list(glob); clauses = []
    for ci in range(nclauses):
        var = 'xuv'[ci]
        r = rng.random()
        if r < 0.15: target, new = '%s, %s2' % (var, var), [var, var + '2']
        elif r < 0.22: target, new = '%s, (%s2, %s3)' % (var, var, var), [var, var + '2', var + '3']
        elif r < 0.27: target, new = '(%s, %s2), %s3' % (var, var, var), [var, var + '2', var + '3']
        elif r < 0.29: target, new = '%s, a.t' % var, [var]
        else: target, new = var, [var]
        it = None
        if ci > 0: it = rand_expr(rng, rng.randint(1, 3), scope, False) if rng.random() < 0.7 else ('a', 'U')
        scope = scope + new
        conds = [rand_expr(rng, rng.randint(2, 10), scope, False) for _ in range(rng.choice([0, 1, 1, 1, 2]))]
        clauses.append({'target': target, 'iter': it, 'conds': conds})
    return {'elt': rand_expr(rng, rng.randint(1, 8), scope), 'clauses': clauses}


def render_prog(pr):
    if 'src' in pr: return pr['src']          # a program given as text (long programs), with a fixed key and possibly without the driver
    if 'lam' in pr: return 'lambda %s: (%s)' % (pr.get('params', ''), render(pr['lam']))
    parts = []
    for c in pr['clauses']:
        part = 'for %s in %s' % (c['target'], FIRST_ITER if c['iter'] is None else '(%s)' % render(c['iter']))
        for ce in c['conds']: part += ' if (%s)' % render(ce)
        parts.append(part)
    return '((%s) %s)' % (render(pr['elt']), ' '.join(parts))


def prog_of(kind, e):
    if kind == 'lam': return {'lam': e}
    if kind == 'elt': return {'elt': e, 'clauses': [{'target': 'x', 'iter': None, 'conds': []}]}
    return {'elt': ('a', 'x'), 'clauses': [{'target': 'x', 'iter': None, 'conds': [e]}]}


def prog_slots(pr):
    if 'src' in pr: return []
    if 'lam' in pr: return [('lam', pr['lam'])]
    out = []
    for c in pr['clauses']:
        if c['iter'] is not None: out.append(('elt', c['iter']))
        out += [('cond', ce) for ce in c['conds']]
    return out + [('elt', pr['elt'])]


def violates_src(src):
    try:
        p = prepare(src)
    except Exception:
        return None
    if p['node'] is None: return None
    j = judge_tree(p, itertools.repeat({}), limit=512)
    return j if j['violation'] else None


def prog_candidates(pr):
    import copy
    if 'lam' in pr:
        for t in subtrees_replacements(pr['lam']): yield {'lam': t}
        return
    cl = pr['clauses']
    if len(cl) > 1:
        yield {'elt': pr['elt'], 'clauses': copy.deepcopy(cl[:-1])}
        for k in range(1, len(cl)):
            c2 = copy.deepcopy(cl[:k] + cl[k + 1:])
            yield {'elt': pr['elt'], 'clauses': c2}
    for ci, c in enumerate(cl):
        for k in range(len(c['conds'])):
            c2 = copy.deepcopy(cl); del c2[ci]['conds'][k]
            yield {'elt': pr['elt'], 'clauses': c2}
    for ci, c in enumerate(cl):
        if ',' in c['target']:
            c2 = copy.deepcopy(cl); c2[ci]['target'] = c['target'].split(',')[0]
            yield {'elt': pr['elt'], 'clauses': c2}
        if c['iter'] is not None:
            for t in [('a', 'U')] + subtrees_replacements(c['iter']):
                if t == c['iter']: continue
                c2 = copy.deepcopy(cl); c2[ci]['iter'] = t
                yield {'elt': pr['elt'], 'clauses': c2}
        for k, ce in enumerate(c['conds']):
            for t in subtrees_replacements(ce):
                c2 = copy.deepcopy(cl); c2[ci]['conds'][k] = t
                yield {'elt': pr['elt'], 'clauses': c2}
    for t in [('a', 'x')] + subtrees_replacements(pr['elt']):
        if t == pr['elt']: continue
        yield {'elt': t, 'clauses': cl}


def prog_size(pr):
    return sum(tree_size(e) for _, e in prog_slots(pr)) + (10 * len(pr.get('clauses', [])))


def shrink_prog(pr):
    """greedy program-level shrinking (clauses, conditions, sub-expressions) -> (program, judgement)"""
    cur = pr; curj = violates_src(render_prog(pr))
    if curj is None: return pr, None
    changed = True
    while changed:
        changed = False
        for cand in prog_candidates(cur):
            if prog_size(cand) >= prog_size(cur): continue
            j = violates_src(render_prog(cand))
            if j is not None:
                cur, curj, changed = cand, j, True
                break
    if 'lam' not in cur and 'lit' in repr(cur):      # constants: one truthy and one falsy representative
        def cl(e):
            if e[0] == 'lit': return ('lit', '0' if e[1] in ('0', 'None', 'False', "''") else '1')
            if e[0] == 'a': return e
            return (e[0],) + tuple(cl(c) for c in e[1:])
        cand = {'elt': cl(cur['elt']), 'clauses': [{'target': c['target'], 'iter': None if c['iter'] is None else cl(c['iter']),
                                                   'conds': [cl(x) for x in c['conds']]} for c in cur['clauses']]}
        if cand != cur:
            j = violates_src(render_prog(cand))
            if j is not None: cur, curj = cand, j
    # generalise: pairwise distinct atoms (first every leaf, then only the free names) if the failure survives
    if 'lam' not in cur:
        bound = set()
        for c in cur['clauses']: bound.update(t.strip() for t in c['target'].split(','))
        for keep in (set(), bound | {'U'}):
            names = iter(ATOMS)
            def gen(e):
                if e[0] == 'a': return e if e[1] in keep else ('a', next(names))
                if e[0] == 'lit': return e
                return (e[0],) + tuple(gen(c) for c in e[1:])
            cand = {'elt': gen(cur['elt']), 'clauses': [{'target': c['target'], 'iter': None if c['iter'] is None else gen(c['iter']),
                                                        'conds': [gen(x) for x in c['conds']]} for c in cur['clauses']]}
            if cand == cur: break
            j = violates_src(render_prog(cand))
            if j is not None:
                cur, curj = cand, j
                break
    return cur, curj


def prog_key(pr):
    """canonical id of a shrunk program: the three standard positions where it has that form, else the whole text"""
    if 'lam' in pr: return violation_key('lam', pr['lam'])
    cl = pr['clauses']
    if len(cl) == 1 and cl[0]['target'] == 'x' and cl[0]['iter'] is None:
        if not cl[0]['conds']: return violation_key('elt', pr['elt'])
        if len(cl[0]['conds']) == 1 and pr['elt'] == ('a', 'x'): return violation_key('cond', cl[0]['conds'][0])
    bound = set()
    for c in cl: bound.update(t.strip() for t in c['target'].split(','))
    m = {}
    def ren(e):
        if e[0] == 'a':
            if e[1] in bound or e[1] == 'U': return e
            if e[1] not in m: m[e[1]] = ATOMS[len(m)]
            return ('a', m[e[1]])
        if e[0] == 'lit': return e
        return (e[0],) + tuple(ren(c) for c in e[1:])
    pr2 = {'elt': ren(pr['elt']), 'clauses': [{'target': c['target'], 'iter': None if c['iter'] is None else ren(c['iter']), 'conds': [ren(x) for x in c['conds']]} for c in cl]}
    return 'program:' + ast.unparse(ast.parse(render_prog(pr2), mode='eval'))


# ------------------------------------------------------------------------------------------------ running a chunk of programs (one worker)
WITNESSES = []   # shapes listed as known findings, replayed on every run (none at present: all earlier ones are repaired and live in the corpus)
CORPUS = os.path.join(os.path.dirname(os.path.dirname(os.path.abspath(__file__))), 'corpus', 'C03')


def load_corpus():
    """minimised past failures (repaired by /repo 08d1b21, 23dade6, 2c0dccd, 94f2ccd): run first on every run; a failure here is a regression"""
    out = []
    if os.path.isdir(CORPUS):
        for f in sorted(os.listdir(CORPUS)):
            if f.endswith('.json'):
                try: out.append(json.load(open(os.path.join(CORPUS, f))))
                except Exception: pass
    return out


def call_driver(cmd, cwd, requests):
    import subprocess
    if not requests: return []
    data = '\n'.join(json.dumps(dict(r, p='C03')) for r in requests) + '\n'
    p = subprocess.run(cmd, cwd=cwd, input=data, stdout=subprocess.PIPE, stderr=subprocess.PIPE, text=True, timeout=3600)
    outs = [json.loads(l) for l in p.stdout.splitlines() if l.strip()]
    if len(outs) != len(requests):
        raise RuntimeError('driver returned %d lines for %d requests: %s' % (len(outs), len(requests), p.stderr[-300:]))
    return outs


def run_chunk(args):
    """programs: structured programs (see rand_program / prog_of) or plain source strings -> summary dict"""
    cmd, cwd, programs = args
    sys.setrecursionlimit(10000)
    import warnings; warnings.simplefilter('ignore')
    programs = [(pr if isinstance(pr, str) else render_prog(pr), pr) for pr in programs]
    out = {'counts': {}, 'violations': [], 'divergences': [], 'samples': [], 'n': 0, 'errors': [], 'examples': []}
    def count(k, n=1): out['counts'][k] = out['counts'].get(k, 0) + n
    prepared = []
    for src, pr in programs:
        try:
            pp = prepare(src)
            if isinstance(pr, dict) and pr.get('nodriver'): pp['nodriver'] = True
            prepared.append((src, pr, pp))
        except Exception as e:
            out['errors'].append('%s: prepare failed: %s: %s' % (src, type(e).__name__, e))
    replies = [{}] * len(prepared)
    if cmd:
        try:
            flat = [request_of(q) for _, _, p in prepared for q in flatten(p)]
            flat_replies = call_driver(cmd, cwd, flat)
            replies = []; pos = 0
            for _, _, p in prepared:
                n = len(flatten(p)); replies.append(flat_replies[pos:pos + n]); pos += n
        except Exception as e:
            # the batch failed (a reply that is not JSON, a killed driver): ask program by program, so that every other program keeps
            # its verdict and the culprit is named
            replies = []
            for src, _, p in prepared:
                try:
                    replies.append(call_driver(cmd, cwd, [request_of(q) for q in flatten(p)]))
                except Exception as e1:
                    out['errors'].append('%s: no verdict from the driver (%s: %s)' % (src[:200], type(e1).__name__, str(e1)[:120])); replies.append({})
    for (src, pr, p), r in zip(prepared, replies):
        out['n'] += 1
        rl = r if isinstance(r, list) else [r] * len(flatten(p))
        for x in rl:
            if 'driver_error' in x: out['errors'].append('%s: driver_error %s' % (src, x['driver_error']))
        rl = [({} if 'driver_error' in x else x) for x in rl]
        r = rl[0]
        try:
            j = judge_tree(p, iter(rl))
        except Exception as e:
            out['errors'].append('%s: judge failed: %s: %s' % (src, type(e).__name__, e)); continue
        slots = [] if isinstance(pr, str) else prog_slots(pr)
        simple = not isinstance(pr, str) and 'src' not in pr and ('lam' in pr or (len(pr['clauses']) == 1 and pr['clauses'][0]['iter'] is None and pr['clauses'][0]['target'] == 'x'
                                                and (not pr['clauses'][0]['conds'] or (len(pr['clauses'][0]['conds']) == 1 and pr['elt'] == ('a', 'x')))))
        position = ('lam' if 'lam' in pr else 'cond' if pr['clauses'][0]['conds'] else 'elt') if simple else 'program'
        count('status:%s:%s' % (position, j['status']))
        count('paths', j['paths'])
        if j['truncated']: count('assignments-truncated')
        if r.get('code_tree') is not None and not j['model_unsupported']: count('model-validated-against-cpython' if not j.get('validation_skipped') else 'model-validation-skipped:' + j['validation_skipped'])
        elif r: count('model-unsupported-instruction')
        if j.get('check_source') is True and j['status'] == 'proved-equal': count('source-text-equivalent-to-decompiled:proved (C03_source_equiv)')
        if j.get('check_source') is True: count('self-check:source-AST-equals-bytecode:proved')
        elif j.get('check_source') is False: count('self-check:source-AST-vs-bytecode:not-proved' + (':model-unsupported-instruction' if j['model_unsupported'] else ':constant-whose-truth-cpython-folds' if any(n.startswith('const:') for n in p['names']) else ':other'))
        if p['ast_unsupported']: count('ast-outside-checker:' + p['ast_unsupported'][:40])
        if j['check'] is False: count('disagreements_checked')
        if j['divergence']: out['divergences'].append({'src': src, **j['divergence']})
        if j['violation']:
            found = []
            try:
                if simple:
                    kind = position; e = pr['lam'] if kind == 'lam' else (pr['clauses'][0]['conds'][0] if kind == 'cond' else pr['elt'])
                    se, sj = shrink(kind, e)
                    if sj is not None: found.append((violation_key(kind, se), wrap(kind, render(se)), sj))
                elif isinstance(pr, dict) and pr.get('fixed_key'):
                    pass                        # long programs are not shrunk: their length is what makes them fail
                elif slots:
                    for kind, e in slots:          # a slot that fails on its own in the standard position
                        if violates(kind, e) is None: continue
                        se, sj = shrink(kind, e)
                        if sj is not None: found.append((violation_key(kind, se), wrap(kind, render(se)), sj))
                    if not found:                   # the failure needs the program around it
                        sp, sj = shrink_prog(pr)
                        if sj is not None:
                            key = prog_key(sp)
                            if not key.startswith('program:'):
                                kind = key.split(':')[0]; e = sp['lam'] if kind == 'lam' else (sp['clauses'][0]['conds'][0] if kind == 'cond' else sp['elt'])
                                se, sj2 = shrink(kind, e)
                                if sj2 is not None: found.append((violation_key(kind, se), wrap(kind, render(se)), sj2))
                            if not found: found.append((key, render_prog(sp), sj))
            except Exception as ex:
                out['errors'].append('%s: shrink failed: %s: %s' % (src, type(ex).__name__, ex))
            if not found: found = [((pr.get('fixed_key') if isinstance(pr, dict) else None) or 'program:' + src, src, j)]
            for key, msrc, mj in found:
                out['violations'].append({'key': key, 'src': src, 'minimal': msrc, 'decompiled': mj['decompiled'], 'assign': mj['violation']['assign'],
                                          'original_outcome': mj['violation']['original'], 'decompiled_outcome': mj['violation']['decompiled']})
        if len(out['samples']) < 2: out['samples'].append({'src': src, 'status': j['status'], 'decompiled': j['decompiled']})
        if j.get('check_source') is False and not j['model_unsupported'] and not any(n.startswith('const:') for n in p['names']) and len([x for x in out['examples'] if x['status'] == 'self-check-not-proved']) < 2:
            out['examples'].append({'src': src, 'status': 'self-check-not-proved', 'decompiled': None, 'why': 'check(bytecode, AST of the source) = false'})
        if j['status'].startswith(('checker-incomplete', 'unsupported-by-checker', 'decompiled-ast-not-compilable')) and len([x for x in out['examples'] if x['status'] == j['status']]) < 2:
            out['examples'].append({'src': src, 'status': j['status'], 'decompiled': j['decompiled'], 'why': p['ast_unsupported'] or j.get('recompile_error')})
    count('ast-cache:second-decompile-returns-the-same-tree', CACHE_STATS['same']); CACHE_STATS['same'] = 0
    count('decoding-tie:get_instructions-agrees-with-dis', DECODE_STATS['agree']); count('decoding-tie:skipped (get_instructions raised)', DECODE_STATS['skipped'])
    for m in DECODE_STATS['mismatch'][:3]:
        out['divergences'].append({'src': 'Decompiler.get_instructions vs dis.get_instructions: %r' % (m,), 'assign': [], 'model': 'dis: ' + repr(m[-1]), 'real': 'get_instructions: ' + repr(m[-2])})
    DECODE_STATS['agree'] = 0; DECODE_STATS['skipped'] = 0; DECODE_STATS['mismatch'] = []
    if CACHE_STATS['different']:
        out['errors'].append('decompile() returned a different tree for the same code object on the second call (%d times)' % CACHE_STATS['different']); CACHE_STATS['different'] = 0
    return out


def chunks(l, n):
    for i in range(0, len(l), n): yield l[i:i + n]


def report(ctx, results):
    total = 0
    for res in results:
        total += res['n']
        for k, v in res['counts'].items(): ctx.count(k, v)
        for e in res['errors']: ctx.count('harness-error'); ctx.note(e[:300])
        for s in res['samples']: ctx.case(s, kind='program')
        for x in res['examples']:
            ex = ctx.extra.setdefault('examples_' + x['status'].split(':')[0], [])
            if len(ex) < 8: ex.append(x)
        for d in res['divergences']:
            ctx.divergence('the bytecode model (decision tree of symRun) and CPython disagree on the outcome of the code object', d['src'], model=d['model'], impl={'real': d['real'], 'assign': d['assign']})
        for v in res['violations']:
            ctx.extra.setdefault('violation_keys', {}).setdefault(v['key'], '%s  ==>  %s' % (v['minimal'], v['decompiled']))
            ctx.violation('decompile() returned an expression whose meaning differs from the code: %s decompiles to %s' % (v['minimal'], v['decompiled']),
                          {'src': v['src'], 'minimal': v['minimal'], 'decompiled': v['decompiled'], 'environment': v['assign']},
                          observed=v['decompiled_outcome'], expected=v['original_outcome'], key=v['key'])
    return total


def run(ctx):
    sys.setrecursionlimit(10000)
    cmd = ctx.driver.cmd if ctx.driver.ok else None
    from framework import LEAN
    if not ctx.driver.ok: ctx.note('driver unavailable: `check` not asked; the property oracle (original vs decompiled code executed) still runs')
    interpreted = bool(cmd) and cmd[0] == 'lake'
    import time
    t_engine = time.time()
    # corpus first: the shapes the decompiler got wrong before the repair must now be proved equal (or at least agree on every path)
    corpus = load_corpus()
    if corpus:
        res = run_chunk((cmd, LEAN, [c['src'] for c in corpus]))
        bykey = {c['src']: c['key'] for c in corpus}
        for v in res['violations']: v['key'] = 'regression:' + bykey.get(v['src'], v['src'])
        res['counts'] = {('corpus:' + k if k.startswith('status:') else k): v for k, v in res['counts'].items()}
        n = report(ctx, [res]); ctx.count('corpus-programs', n)
    programs = [prog_of(kind, e) for kind, e in WITNESSES]
    # exhaustive part: every expression of the grammar up to size k, atoms up to renaming, in three positions
    full_k = ctx.scale(4, 5); cf_k = ctx.scale(6, 7)
    for n in range(1, full_k + 1):
        for e in enumerate_exprs(n, 4):
            for kind in ('cond', 'elt', 'lam'): programs.append(prog_of(kind, e))
    # control-flow sub-grammar (the operators the decompiler's jump analysis depends on), deeper
    saved = (dict(UNARY), dict(BINARY), dict(TERNARY))
    try:
        for d, keep in ((UNARY, ('not', 'call1')), (BINARY, ('and', 'or', 'eq')), (TERNARY, ('ife',))):
            for o in list(d):
                if o not in keep: del d[o]
        shapes.__defaults__[0].clear()
        for n in range(full_k + 1, cf_k + 1):
            for e in enumerate_exprs(n, 4):
                # quick tier: lambda bodies only up to the full-grammar bound (a lambda body is a value context like the yielded
                # expression, and most lambdas with jumps are rejected with DecompileError) — keeps the engine under a minute on a loaded machine
                for kind in (('cond', 'elt', 'lam') if ctx.thorough else ('cond', 'elt')): programs.append(prog_of(kind, e))
        # directed family: `is None` / `is not None` (POP_JUMP_IF_NONE / POP_JUMP_IF_NOT_NONE) applied to every control-flow expression,
        # combined with one more boolean operator at every operand position
        none_k = ctx.scale(4, 5)
        shapes.__defaults__[0].clear()
        n_none = 0
        z, w = ('a', 'z'), ('a', 'w')
        for n in range(1, none_k + 1):
            for e in enumerate_exprs(n, 4):
                for test in ('isnone', 'isnotnone'):
                    N = (test, e)
                    combos = [N, ('or', N, z), ('and', N, z)]
                    for kind in ('elt', 'lam'):
                        for c in combos: programs.append(prog_of(kind, c)); n_none += 1
                    combos += [('or', z, N), ('and', z, N), ('not', N), ('or3', N, z, w), ('or3', z, N, w), ('or3', z, w, N),
                               ('and3', N, z, w), ('and3', z, N, w), ('and3', z, w, N), ('ife', N, z, w), ('or', ('not', N), z)]
                    for c in combos: programs.append(prog_of('cond', c)); n_none += 1
        # directed family: an if-expression with a compound control-flow expression (in particular another if-expression) as its test,
        # body or else-branch, with another clause before / after it on the decompiler's stack (and/or operand, a second `if`, a
        # filter next to a yielded if-expression)
        ife_k = ctx.scale(4, 5)
        shapes.__defaults__[0].clear()
        n_ife = 0
        g, h, t = ('a', 'g'), ('a', 'h'), ('a', 't')
        def one_clause(elt, conds): return {'elt': elt, 'clauses': [{'target': 'x', 'iter': None, 'conds': conds}]}
        for n in range(2, ife_k + 1):
            for e in enumerate_exprs(n, 3):
                for E in (('ife', e, g, h), ('ife', t, e, h), ('ife', t, g, e)):
                    for c in (('and', z, E), ('or', z, E), ('and', E, z), ('or', E, z), ('not', E)):
                        programs.append(prog_of('cond', c)); n_ife += 1
                    programs.append(one_clause(('a', 'x'), [z, E])); programs.append(one_clause(('a', 'x'), [E, z]))
                    programs.append(one_clause(E, [z])); programs.append(one_clause(('and', z, E), [])); programs.append(prog_of('lam', ('and', z, E)))
                    n_ife += 5
        # ... a compound and/or body (a clause inside the body jumps to the end of the if-expression) under two more operators
        shapes.__defaults__[0].clear()
        for e in enumerate_exprs(5, 3):
            if 'and' not in repr(e) or 'or' not in repr(e): continue
            for E in (('ife', t, e, h), ('ife', t, g, e)):
                programs.append(prog_of('cond', ('or', z, ('and', E, ('a', 'w'))))); programs.append(prog_of('cond', ('and', z, ('or', E, ('a', 'w'))))); n_ife += 2
        # ... with an `is None` / `is not None` test inside the test / body / else-branch
        for test in ('isnone', 'isnotnone'):
            for inner in (('a', 'b'), ('attr', ('a', 'b')), ('and', ('a', 'b'), ('a', 'c'))):
                N = (test, inner)
                for E in (('ife', N, g, h), ('ife', t, N, h), ('ife', t, g, N), ('ife', t, N, (test, g))):
                    for c in (E, ('and', z, E), ('or', z, E), ('and', E, z), ('or', E, z), ('not', E), ('or3', z, E, ('a', 'w')), ('and3', z, E, ('a', 'w'))):
                        programs.append(prog_of('cond', c)); n_ife += 1
                    programs.append(one_clause(E, [z])); programs.append(prog_of('elt', ('or', E, z))); programs.append(prog_of('lam', ('or', E, z))); n_ife += 3
        # ... and the same with a constant operand inside the test / body / else-branch (`(b or 0) if a else c`): the folded operand
        # leaves a conditional jump that is not adjacent to its JUMP_BACKWARD
        shapes.__defaults__[0].clear()
        for n in range(2, 4):
            for e in enumerate_exprs_lit(n, 2, ('1', '0')):
                for E in (('ife', e, g, h), ('ife', t, e, h), ('ife', t, g, e)):
                    for c in (E, ('and', z, E), ('or', z, E), ('and', E, z), ('or', E, z)):
                        programs.append(prog_of('cond', c)); n_ife += 1
                    programs.append(one_clause(E, [z])); programs.append(prog_of('elt', E)); n_ife += 2
        # constant operands (True / None / ints) of not, and/or, if-else, ==, f(.): CPython folds them away and leaves degenerate jumps
        lit_k = ctx.scale(4, 5)
        shapes.__defaults__[0].clear()
        n_lit = 0
        for n in range(2, lit_k + 1):
            for e in enumerate_exprs_lit(n, 3):
                for kind in ('cond', 'elt', 'lam'): programs.append(prog_of(kind, e)); n_lit += 1
                # ... and as the second of two conditions (an earlier clause on the decompiler's stack)
                programs.append({'elt': ('a', 'x'), 'clauses': [{'target': 'x', 'iter': None, 'conds': [('a', 'z'), e]}]}); n_lit += 1
    finally:
        for d, sv in zip((UNARY, BINARY, TERNARY), saved): d.clear(); d.update(sv)
        shapes.__defaults__[0].clear()
    # operator table: every unary / binary / comparison / display / call form the generator knows, once in every position
    a_, b_, c_, d_ = (('a', n) for n in 'abcd')
    for k in list(UNARY) + [x for x in ('bnot', 'pos', 'attr2', 'fstr', 'genq', 'clist', 'ctuple', 'starcall', 'lamarg', 'lamarg1', 'walrus', 'listcomp', 'setcomp', 'dictcomp')]:
        for kind in ('cond', 'elt', 'lam'): programs.append(prog_of(kind, (k, a_)))
    for k in list(BINARY) + ['ne', 'le', 'mul', 'notin', 'call2', 'meth', 'tuple2', 'list2', 'sliceto', 'fstr2', 'gen', 'gt', 'ge', 'subm', 'div', 'fdiv', 'mod',
                            'pow', 'shl', 'shr', 'band', 'bor', 'bxor', 'matmul', 'set2', 'dict2', 'dictk', 'kwstarcall', 'listcomp2']:
        for kind in ('cond', 'elt', 'lam'): programs.append(prog_of(kind, (k, a_, b_)))
    for k in list(TERNARY) + ['and3', 'or3', 'kw2']:
        for kind in ('cond', 'elt', 'lam'): programs.append(prog_of(kind, (k, a_, b_, c_)))
    # f-string fields: conversion x format spec (constant spec, nested `{w}` spec, `{w}.{p}` spec), in every position and as an operand
    for e in (('fstr3', a_), ('fstr3s', a_), ('fstr3a', a_), ('fstr1a', a_), ('fstr1s', a_), ('fstr4', a_, b_), ('fstr4r', a_, b_), ('fstr5', a_, b_, c_), ('fstr5r', a_, b_, c_), ('fstr6', a_, b_, c_)):
        for kind in ('cond', 'elt', 'lam'):
            programs.append(prog_of(kind, e)); programs.append(prog_of(kind, ('eq', d_, e))); programs.append(prog_of(kind, ('call1', e)))
    wal = ('walrus', b_)
    for e in (('call1', wal), ('and', a_, ('call1', wal)), ('eq', wal, c_), ('and', wal, c_), ('ife', wal, c_, d_), ('tuple2', wal, ('a', 'w'))):
        for kind in ('cond', 'elt', 'lam'): programs.append(prog_of(kind, e))
    for k in ('slice3', 'slicetuple', 'slicetuple2'):
        for kind in ('cond', 'elt', 'lam'): programs.append(prog_of(kind, (k, a_, b_, c_, d_)))
    programs.append({'lam': ('eq', ('a', 'p'), ('attr', ('a', 'q'))), 'params': 'p, q'})
    for tgt in ('x, x2', 'x, (x2, x3)', '(x, x2), x3', '(x, (x2, x3)), x4', '[x, x2]', 'x, a.t', 'x, a[0]', 'x, *x2'):
        programs.append({'elt': ('tuple2', ('a', 'x'), ('a', 'x2')), 'clauses': [{'target': tgt, 'iter': None, 'conds': [('a', 'x2')]}]})
        programs.append({'elt': ('a', 'x'), 'clauses': [{'target': 'u', 'iter': None, 'conds': []}, {'target': tgt, 'iter': ('attr', ('a', 'u')), 'conds': [('a', 'x2')]}]})
    for body in (('eq', ('a', 'w'), ('and', ('a', 'a'), ('a', 'b'))), ('ife', ('or', ('a', 'a'), ('not', ('a', 'w'))), ('a', 'b'), ('a', 'c')), ('and', ('a', 'w'), ('ife', ('a', 'a'), ('a', 'b'), ('a', 'c')))):
        for kind in ('cond', 'elt', 'lam'): programs.append(prog_of(kind, ('lamarg1', body)))
    for kind in ('cond', 'elt', 'lam'): programs.append(prog_of(kind, ('lamarg2', ('eq', ('attr', ('a', 'w')), ('sub', ('a', 'v'), ('a', 'a'))))))
    programs.append({'lam': ('eq', ('attr', ('a', 'p')), ('sub', ('a', 'q'), ('a', 'a'))), 'params': 'p, q'})
    # long programs: instruction arguments and jump distances above 255 need EXTENDED_ARG prefixes (conditions with 18-40 terms, long
    # and/or chains with if-expressions inside, > 255 constants, >= 128 names, long argument lists), as generators and lambdas
    def long_programs(sizes):
        T = lambda i: '(n%d %s m%d)' % (i, ('==', '<', '!=', '>=')[i % 4], i)
        for n in sizes:
            terms = [T(i) for i in range(n)]
            fams = {'and-chain': ' and '.join(terms), 'or-chain': ' or '.join(terms),
                    'and-chain-ifexp': ' and '.join(terms[:n // 2] + ['(p if q else r)'] + terms[n // 2:] + ['(s if (t or u) else v)']),
                    'or-chain-ifexp': ' or '.join(terms[:n // 2] + ['(p if q else r)'] + terms[n // 2:]),
                    'not-and-chain': 'not (%s)' % ' and '.join(terms),
                    'and-of-calls': ' and '.join('f(n%d, k=m%d).p[n%d]' % (i, i, i) for i in range(n))}
            mixed = {'or-of-and-pairs': ' or '.join('(n%d and m%d)' % (i, i) for i in range(n)), 'and-of-or-pairs': ' and '.join('(n%d or m%d)' % (i, i) for i in range(n)),
                     'or-of-ifexp': ' or '.join('(n%d if m%d else k%d)' % (i, i, i) for i in range(n // 2)),
                     'ifexp-long-test': '(p if (%s) else q) or r' % ' and '.join(terms)}
            for name, e in list(fams.items()) + list(mixed.items()):
                for kind, src in (('cond', '(x for x in T if (%s))' % e), ('elt', '((%s) for x in T)' % e), ('lam', 'lambda: (%s)' % e), ('cond2', '(x for x in T if z for u in x.q if (%s))' % e)):
                    if not ctx.thorough and kind in ('elt', 'cond2') and name != 'or-chain': continue
                    yield {'src': src, 'fixed_key': 'long:%s:%s:%d' % (kind, name, n), 'nodriver': name in mixed}
        for m, name, e in ((300, 'constants', ' + '.join(['x.p'] + [str(i) for i in range(300)])), (140, 'names', ' + '.join('g%d' % i for i in range(140))),
                           (140, 'arguments', 'f(%s)' % ', '.join('g%d' % i for i in range(140))), (100, 'keyword-arguments', 'f(%s)' % ', '.join('k%d=g%d' % (i, i) for i in range(100))),
                           (140, 'attributes', ' + '.join('x.a%d' % i for i in range(140)))):
            for kind, src in (('cond', '(x for x in T if ((%s) == y) or z)' % e), ('elt', '((%s) for x in T)' % e), ('lam', 'lambda x: (%s)' % e)):
                yield {'src': src, 'fixed_key': 'long:%s:%s:%d' % (kind, name, m), 'nodriver': False}
    longs = list(long_programs(ctx.scale((24,), (18, 28, 40)))); n_long = len(longs)
    step = max(1, len(programs) // (n_long + 1))
    for k, pr in enumerate(longs): programs.insert(min(len(programs), (k + 1) * step + k), pr)      # spread over the chunks: each costs about a second
    n_enum = len(programs)
    for _ in range(ctx.scale(200, 6000)):
        programs.append(rand_program(ctx.rng))
    ctx.extra['enumerated'] = {'long_programs_with_EXTENDED_ARG': n_long, 'full_grammar_up_to_size': full_k, 'control_flow_grammar_up_to_size': cf_k, 'none_test_family_over_control_flow_up_to_size': none_k, 'programs_in_none_test_family': n_none, 'ifexp_family_over_control_flow_up_to_size': ife_k, 'programs_in_ifexp_family': n_ife, 'constant_operand_grammar_up_to_size': lit_k, 'programs_with_constant_operands': n_lit, 'programs_enumerated': n_enum, 'random_programs': len(programs) - n_enum}
    size = 4000 if interpreted else max(100, len(programs) // 96)
    work = [(cmd, LEAN, c) for c in chunks(programs, size)]
    procs = 4 if interpreted else 16
    with multiprocessing.Pool(procs) as pool:
        results = pool.map(run_chunk, work, chunksize=1)
    total = report(ctx, results) + len(corpus)
    ctx.extra['engine_s'] = round(time.time() - t_engine, 1)
    ctx.driver.calls += total
    ctx.evaluations = total      # every program is one evaluation (samples registered above)
    ctx.count('programs', total)
    import hashlib
    for pr in programs: ctx._distinct.add(hashlib.sha1(render_prog(pr).encode()).digest()[:8])
    if any(k.startswith('harness-error') for k in ctx.counters):
        ctx.divergence('the harness failed on some programs (see notes)', ctx.notes[:3])


def replay(ctx, data):
    src = (data.get('input') or {}).get('minimal') or (data.get('input') or {}).get('src')
    if not src: return run(ctx)
    from framework import LEAN
    res = run_chunk((ctx.driver.cmd if ctx.driver.ok else None, LEAN, [src]))
    for v in res['violations']: v['key'] = data.get('key') or v['key']
    report(ctx, [res])
    ctx.case({'src': src}, kind='replay')
