"""C16 — flush emits writes in an order the database accepts.

Tie (correspondence): random schemas (many-to-one required/optional, one-to-one, many-to-many, self references, explicit and
auto primary keys, cascade options) are built with real Pony entity classes over in-memory SQLite (`PRAGMA foreign_keys`
is switched on by Pony itself; the generated DDL declares every FK, enforced immediately).  Random multi-session
histories create / re-link / modify / delete objects in random orders, with `flush()`, `obj.flush()` and commit as
flush points.  Right before every flush point the abstraction of the real session (statuses, column references with their
write bits, `objects_to_save` with its holes, pending link rows) is extracted and sent to the Lean model
(`Model/SaveOrder.lean: flush`); the statements SQLite actually receives are recorded by a tracing connection factory and
compared with the model's statement list (or the error and its chain).

Property oracle (independent of the model): the engine decides with its own DFS whether the pending references can be
ordered (no cycle among created objects reachable from the queue).  Orderable -> the real flush must succeed under
immediate FKs, `PRAGMA foreign_key_check` must be empty after commit, every saved row must be there / be gone.
Not orderable -> the real flush must raise and the database must be exactly what it was at the last commit.
A second pass replays histories on a *strict* schema (Pony's DDL with the ON DELETE clauses stripped, so nothing but the
statement order can satisfy the backend).
"""
import json, random, re, sqlite3
from pony.orm import Database, Required, Optional, Set, PrimaryKey, db_session, flush, commit, rollback
from pony.orm import core

PENDING = ('created', 'modified', 'marked_to_delete')
DEAD = ('marked_to_delete', 'deleted', 'cancelled')

# ---------------------------------------------------------------- tracing connection

def make_factory(log):
    class Cur(sqlite3.Cursor):
        def execute(self, sql, *a):
            log.append((sql, [list(a[0])] if a else [[]]))
            return super().execute(sql, *a)
        def executemany(self, sql, seq):
            seq = [list(x) for x in seq]
            log.append((sql, seq))
            return super().executemany(sql, seq)
    class Con(sqlite3.Connection):
        def cursor(self, factory=None):
            return super().cursor(Cur)
    return Con

INS = re.compile(r'^INSERT INTO "(\w+)" \(([^)]*)\) VALUES')
UPD = re.compile(r'^UPDATE "(\w+)"\s+SET (.*?)\s+WHERE "(\w+)" = \?', re.S)
DEL = re.compile(r'^DELETE FROM "(\w+)"\s+WHERE (.*)$', re.S)

# ---------------------------------------------------------------- schema

def random_spec(rng):
    n = rng.choice([1, 1, 2, 2, 2, 3, 3, 4])
    all_explicit = rng.random() < 0.3       # explicit primary keys everywhere: the statement list can be replayed in any order
    ents = [{'auto': (not all_explicit) and rng.random() < 0.6} for _ in range(n)]
    for i in range(1, n):
        # primary key that IS a reference ('ref': PrimaryKey(Ej)) or contains one ('comp': PrimaryKey(Required(Ej), num))
        if rng.random() < 0.25:
            ents[i] = {'auto': False, 'pk': [rng.choice(['ref', 'comp']), rng.randrange(i)], 'pkcascade': rng.choice([None, True, True])}
    plain = [i for i in range(n) if 'pk' not in ents[i]]
    rels = []
    for k in range(rng.choice([1, 1, 2, 2, 3, 4])):
        kind = rng.choice(['m2o', 'm2o', 'm2o', 'o2o', 'o2o', 'm2m'])
        a = rng.randrange(n); b = rng.randrange(n)
        if kind == 'm2m' and (a not in plain or b not in plain): kind = 'm2o'      # link tables only between single-column keys
        req = rng.random() < 0.4
        if a == b and rng.random() < 0.8: req = False      # a required self reference can (almost) never be created
        casc = rng.choice([None, None, None, True, False])
        rels.append({'kind': kind, 'a': a, 'b': b, 'req': req, 'cascade': casc})
    return {'ents': ents, 'rels': rels}

def rawpk(o):
    """the primary key of an object as the tuple of column values, or None while it is not known"""
    if o._pkval_ is None: return None
    try: raw = tuple(o._get_raw_pkval_())
    except Exception: return None
    return None if any(v is None for v in raw) else raw

class World:
    """one database built from a spec; executes ops; knows how to abstract the live session"""
    def __init__(self, spec, strict=False):
        self.spec = spec; self.strict = strict
        self.log = []
        db = self.db = Database()
        n = len(spec['ents'])
        body = [[] for _ in range(n)]      # class bodies as source text (composite keys need a real class body)
        self.ref_attrs = [[] for _ in range(n)]     # (name, target entity, required) non-collection relation attrs that can be re-assigned
        self.m2m_attrs = [[] for _ in range(n)]     # (name, target entity)
        self.pk_ref = [None] * n                    # (kind, target entity) for entities whose primary key is / contains a reference
        for i, e in enumerate(spec['ents']):
            pk = e.get('pk')
            if pk:
                kind, j = pk
                self.pk_ref[i] = (kind, j)
                ckw = '' if e.get('pkcascade') is None else ', cascade_delete=%r' % e['pkcascade']
                if kind == 'ref':
                    body[i].append("p = PrimaryKey('E%d', reverse='q%d')" % (j, i))
                    body[j].append("q%d = Optional('E%d', reverse='p'%s)" % (i, i, ckw))
                else:
                    body[i].append("p = Required('E%d', reverse='q%d')" % (j, i))
                    body[i].append("num = Required(int)")
                    body[i].append("PrimaryKey(p, num)")
                    body[j].append("q%d = Set('E%d', reverse='p'%s)" % (i, i, ckw))
            elif not e['auto']:
                body[i].insert(0, "id = PrimaryKey(int)")
            body[i].append("tag = Required(int, unique=True)")
            body[i].append("val = Optional(int)")
        for k, r in enumerate(spec['rels']):
            if r['kind'] == 'none': continue          # relationship removed by the shrinker (numbering of the others is kept)
            a, b = r['a'], r['b']; rn, sn = 'r%d' % k, 's%d' % k
            kw = '' if r['cascade'] is None else ', cascade_delete=%r' % r['cascade']
            ro = 'Required' if r['req'] else 'Optional'
            if r['kind'] == 'm2o':
                body[a].append("%s = %s('E%d', reverse='%s')" % (rn, ro, b, sn))
                body[b].append("%s = Set('E%d', reverse='%s'%s)" % (sn, a, rn, kw))
                self.ref_attrs[a].append((rn, b, r['req']))
            elif r['kind'] == 'o2o':
                body[a].append("%s = %s('E%d', reverse='%s')" % (rn, ro, b, sn))
                body[b].append("%s = Optional('E%d', reverse='%s'%s)" % (sn, a, rn, kw))
                self.ref_attrs[a].append((rn, b, r['req']))
                self.ref_attrs[b].append((sn, a, False))
            else:
                body[a].append("%s = Set('E%d', reverse='%s')" % (rn, b, sn))
                body[b].append("%s = Set('E%d', reverse='%s')" % (sn, a, rn))
                self.m2m_attrs[a].append((rn, b)); self.m2m_attrs[b].append((sn, a))
        ns = {'db': db, 'PrimaryKey': PrimaryKey, 'Required': Required, 'Optional': Optional, 'Set': Set}
        src = ''.join('class E%d(db.Entity):\n%s\n' % (i, ''.join('    %s\n' % l for l in body[i])) for i in range(n))
        self.source = src
        exec(src, ns)
        self.E = [ns['E%d' % i] for i in range(n)]
        db.bind('sqlite', ':memory:', factory=make_factory(self.log))
        if not strict:
            db.generate_mapping(create_tables=True)
        else:
            db.generate_mapping(check_tables=False, create_tables=False)
            script = db.schema.generate_create_script()
            script = re.sub(r'\s+ON DELETE (SET NULL|CASCADE)', '', script)
            with db_session(ddl=True):
                for stmt in script.split(';'):
                    if stmt.strip(): db.execute(stmt)
        self.tables = {E._table_: i for i, E in enumerate(self.E)}
        # many-to-many tables: column -> entity index
        self.m2m_tables = {}
        for i, E in enumerate(self.E):
            for attr in E._attrs_:
                if attr.is_collection and attr.reverse.is_collection:
                    cols = self.m2m_tables.setdefault(attr.table, {})
                    for c in attr.reverse.columns: cols[c] = i     # the column naming this entity's pk
        self.before_query = None
        self.persist = {}      # tag -> entity index of committed rows
        self.objs = {}         # tag -> object of the running session
        self.last_dump = self.dump()

    # ---- database snapshots (own short session, raw SQL)
    def dump(self):
        out = {}
        with db_session:
            con = self.db.get_connection()
            for t in list(self.tables) + list(self.m2m_tables):
                cur = con.cursor()
                cur.execute('SELECT * FROM "%s"' % t)
                out[t] = sorted([list(r) for r in cur.fetchall()], key=repr)
        return out
    def fk_check(self):
        with db_session:
            con = self.db.get_connection()
            cur = con.cursor(); cur.execute('PRAGMA foreign_key_check')
            bad = [list(map(str, r)) for r in cur.fetchall()]
            cur.execute('PRAGMA foreign_keys'); on = cur.fetchone()[0]
        return on, bad
    def refresh_persist(self):
        self.persist = {}
        with db_session:
            con = self.db.get_connection()
            for t, i in self.tables.items():
                cur = con.cursor(); cur.execute('SELECT "tag" FROM "%s"' % t)
                for (tag,) in cur.fetchall(): self.persist[tag] = i

    # ---- live objects
    def get(self, tag):
        o = self.objs.get(tag)
        if o is None and tag in self.persist:
            E = self.E[self.persist[tag]]
            for o2 in self.db._get_cache().objects:        # already in the identity map (loaded through a relationship)?
                if o2.__class__ is E and o2._vals_.get(E.tag) == tag:
                    self.objs[tag] = o2; return o2
            if self.before_query is not None: self.before_query()    # the query below would auto-flush: make it a tracked flush point
            o = self.E[self.persist[tag]].get(tag=tag)
            if o is not None: self.objs[tag] = o
        return o
    def peek(self, tag):
        """the object with this tag if it is already in the session (no query)"""
        o = self.objs.get(tag)
        if o is None and tag in self.persist:
            E = self.E[self.persist[tag]]
            for o2 in self.db._get_cache().objects:
                if o2.__class__ is E and o2._vals_.get(E.tag) == tag:
                    self.objs[tag] = o2; return o2
        return o
    def alive(self, ent=None):
        out = []
        for tag in sorted(set(self.objs) | set(self.persist)):
            o = self.peek(tag)
            if o is None:
                if ent is None or self.persist[tag] == ent: out.append(tag)
            elif o._status_ not in DEAD and (ent is None or self.E.index(o.__class__) == ent):
                out.append(tag)
        return out

    # ---- abstraction of the live session (the model's input)
    def abstract(self, queue_override=None, with_m2m=True):
        cache = self.db._get_cache()
        objs = list(cache.objects)
        def key(o):
            i = self.E.index(o.__class__)
            t = o._vals_.get(o.__class__.tag)
            return (i, 0, t) if t is not None else (i, 1) + rawpk(o)
        objs.sort(key=key)
        num = {o: k for k, o in enumerate(objs)}
        status, refs = [], []
        for o in objs:
            st = o._status_
            status.append(st if st in ('created', 'modified', 'marked_to_delete', 'inserted', 'updated', 'deleted', 'loaded', 'cancelled') else 'none')
            rs = []
            wbits = o._wbits_ or 0
            for attr in o._attrs_with_columns_:
                if not attr.reverse: continue
                v = o._vals_.get(attr)
                if v is None or v is core.NOT_LOADED: continue
                if v not in num: continue      # cannot happen: every referenced object is in the identity map
                rs.append([num[v], bool(wbits & o._bits_[attr])])
            refs.append(rs)
        q = cache.objects_to_save if queue_override is None else queue_override
        queue = [None if o is None else num[o] for o in q]
        removed, added = [], []
        if with_m2m:
            # read-only replica of SessionCache._calc_modified_m2m
            seen = []
            for attr, objects in sorted(cache.modified_collections.items(), key=lambda p: (p[0].entity.__name__, p[0].name)):
                reverse = attr.reverse
                if not reverse.is_collection: continue
                if reverse in seen: continue
                seen.append(attr)
                for o in objects:
                    sd = o._vals_[attr]
                    for o2 in (sd.added or ()): added.append(sorted([num[o], num[o2]]))
                    for o2 in (sd.removed or ()): removed.append(sorted([num[o], num[o2]]))
        by_tag = {}; by_pk = {}
        for o, k in num.items():
            i = self.E.index(o.__class__)
            if rawpk(o) is not None: by_pk[(i, rawpk(o))] = k
            t = o._vals_.get(o.__class__.tag)
            if t is not None: by_tag[t] = k
        ent_of = [self.E.index(o.__class__) for o in objs]
        # the real bookkeeping, for the slot model: the whole objects_to_save list and every object's _save_pos_
        self.last_slots = {'queue': [None if o is None else num[o] for o in cache.objects_to_save], 'pos': [o._save_pos_ for o in objs]}
        self.last_num = num
        return {'status': status, 'refs': refs, 'queue': queue, 'removed': sorted(removed), 'added': sorted(added)}, by_tag, by_pk, ent_of, objs

    def parse_trace(self, by_tag, by_pk, objs):
        """the recorded statements as model writes, in execution order; also the raw (sql, args, write) triples"""
        # objects inserted during this flush got their pk now
        for k, o in enumerate(objs):
            if rawpk(o) is not None: by_pk.setdefault((self.E.index(o.__class__), rawpk(o)), k)
        items = []; unknown = []
        for sql, argsl in self.log:
            m = INS.match(sql)
            if m:
                t = m.group(1); cols = [c.strip().strip('"') for c in m.group(2).split(',')]
                if t in self.tables:
                    for a in argsl: items.append((sql, a, ['insert', by_tag.get(a[cols.index('tag')], -1)]))
                elif t in self.m2m_tables:
                    for a in argsl:
                        items.append((sql, a, ['link'] + sorted(by_pk.get((self.m2m_tables[t][c], (v,)), -1) for c, v in zip(cols, a))))
                else: unknown.append(sql)
                continue
            m = UPD.match(sql)
            if m:
                t = m.group(1); nset = m.group(2).count('= ?')
                npk = len(self.E[self.tables[t]]._pk_columns_)
                for a in argsl: items.append((sql, a, ['update', by_pk.get((self.tables[t], tuple(a[nset:nset + npk])), -1)]))
                continue
            m = DEL.match(sql)
            if m:
                t = m.group(1)
                if t in self.tables:
                    npk = len(self.E[self.tables[t]]._pk_columns_)
                    for a in argsl: items.append((sql, a, ['delete', by_pk.get((self.tables[t], tuple(a[:npk])), -1)]))
                elif t in self.m2m_tables:
                    cols = re.findall(r'"(\w+)" = \?', m.group(2))
                    for a in argsl:
                        items.append((sql, a, ['unlink'] + sorted(by_pk.get((self.m2m_tables[t][c], (v,)), -1) for c, v in zip(cols, a))))
                else: unknown.append(sql)
                continue
            if sql.startswith(('SELECT', 'BEGIN', 'PRAGMA')) or not sql.strip(): continue
            unknown.append(sql)
        return [it[2] for it in items], unknown, items

    def backup(self):
        """copy of the committed database on a plain sqlite3 connection with foreign keys on"""
        dst = sqlite3.connect(':memory:')
        con = self.db.provider.pool.con          # outside any session: no transaction is open on it
        if con is None: return None
        con.backup(dst)
        dst.execute('PRAGMA foreign_keys = ON')
        return dst

    def blocking_rows_are_deleted_too(self, p):
        """after the strict backend refused `DELETE p`: is every row that still references p (entity tables only) an object
        that the same flush deletes as well (marked_to_delete, later in the queue) AND that Pony's object layer is not
        supposed to have queued before p?  A row that p's deletion CASCADES to must have been queued (deleted) before p
        by Entity._delete_, unless the rows reference each other in a cycle (then no order of DELETEs exists)."""
        cache = self.db._get_cache()
        con = cache.connection
        def row_refs(o):
            """objects (marked_to_delete, by raw pk) that the database row of o references"""
            out = []
            for attr in o.__class__._attrs_with_columns_:
                if not attr.reverse: continue
                cur = sqlite3.Cursor(con)
                cur.execute('SELECT %s FROM "%s" WHERE %s' % (', '.join('"%s"' % c for c in attr.columns), o.__class__._table_,
                            ' AND '.join('"%s" = ?' % c for c in o.__class__._pk_columns_)), list(rawpk(o)))
                row = cur.fetchone()
                if row is None or any(v is None for v in row): continue
                E3 = attr.reverse.entity
                t = next((x for x in cache.objects if isinstance(x, E3) and rawpk(x) == tuple(row)), None)
                if t is not None: out.append(t)
            return out
        def reaches(a, b):
            seen = []; todo = [a]
            while todo:
                x = todo.pop()
                for y in row_refs(x):
                    if y is b: return True
                    if y not in seen and y._status_ == 'marked_to_delete': seen.append(y); todo.append(y)
            return False
        def find_obj(E3, pk):
            return next((x for x in cache.objects if isinstance(x, E3) and rawpk(x) == tuple(pk)), None)
        def cascade_partners(x):
            out = []
            for a2 in x.__class__._attrs_:
                if not a2.reverse or not a2.cascade_delete: continue
                rv = a2.reverse; E3 = rv.entity
                if not a2.is_collection and a2.columns:
                    c3 = sqlite3.Cursor(con)
                    c3.execute('SELECT %s FROM "%s" WHERE %s' % (', '.join('"%s"' % c for c in a2.columns), x.__class__._table_,
                               ' AND '.join('"%s" = ?' % c for c in x.__class__._pk_columns_)), list(rawpk(x)))
                    row = c3.fetchone()
                    if row is not None and not any(v is None for v in row):
                        y = find_obj(E3, row)
                        if y is not None: out.append(y)
                elif rv.columns and not rv.is_collection:
                    c3 = sqlite3.Cursor(con)
                    c3.execute('SELECT %s FROM "%s" WHERE %s' % (', '.join('"%s"' % c for c in E3._pk_columns_), E3._table_,
                               ' AND '.join('"%s" = ?' % c for c in rv.columns)), list(rawpk(x)))
                    for row in c3.fetchall():
                        y = find_obj(E3, row)
                        if y is not None: out.append(y)
            return out
        def cascade_closure(x):
            seen = []; todo = [x]
            while todo:
                z = todo.pop()
                for y in cascade_partners(z):
                    if y not in seen and y is not x and y._status_ == 'marked_to_delete': seen.append(y); todo.append(y)
            return seen
        found = 0
        res = {'all_deleted': True, 'strict_family': True, 'all_stale': True, 'all_in_cycle': True}    # all_in_cycle: every blocker is on a reference cycle with p OR p lies in the blocker's cascade closure
        for E2 in self.E:
            for attr in E2._attrs_with_columns_:
                if not attr.reverse or attr.reverse.entity is not p.__class__: continue
                cur = sqlite3.Cursor(con)
                cur.execute('SELECT %s FROM "%s" WHERE %s' % (', '.join('"%s"' % c for c in E2._pk_columns_), E2._table_,
                                                           ' AND '.join('"%s" = ?' % c for c in attr.columns)), list(rawpk(p)))
                for pk2 in cur.fetchall():
                    pk2 = tuple(pk2)
                    if E2 is p.__class__ and pk2 == rawpk(p): continue      # a row referencing itself does not block its own DELETE
                    found += 1
                    o2 = next((o for o in cache.objects if o.__class__ is E2 and rawpk(o) == pk2), None)
                    deleted = o2 is not None and o2._status_ == 'marked_to_delete'
                    # stale: in the session the blocker no longer refers to p (its pending UPDATE was cancelled by its own deletion)
                    stale = deleted and o2._vals_.get(attr, p) is not p
                    cyc = deleted and reaches(p, o2)
                    if not deleted: res['all_deleted'] = False
                    if not stale: res['all_stale'] = False
                    # a live cascade child of p should have been queued before p by Entity._delete_, unless the rows form a cycle
                    if not (deleted and (stale or cyc or not attr.reverse.cascade_delete)): res['strict_family'] = False
                    # is p in the CASCADE CLOSURE of the blocker (the blocker's deletion cascades to p, directly or through other
                    # cascade_delete relationships, so _delete_ queued p before the blocker)?  Read from the schema and the
                    # database rows of the cascading relationships, through objects this flush deletes
                    target = deleted and p in cascade_closure(o2)
                    if not (cyc or target): res['all_in_cycle'] = False
        res['found'] = found
        if not found: res['all_deleted'] = res['strict_family'] = res['all_in_cycle'] = res['all_stale'] = False
        return res

# ---------------------------------------------------------------- the engine's own orderability analysis

def find_cycle(ab):
    """independent DFS: is there a cycle among created objects reachable from the pending objects of the queue?"""
    status, refs = ab['status'], ab['refs']
    def edges(x):
        if status[x] == 'created': rs = refs[x]
        elif status[x] == 'modified': rs = [r for r in refs[x] if r[1]]
        else: rs = []
        return [r[0] for r in rs if status[r[0]] == 'created']
    color = {}
    for root in ab['queue']:
        if root is None or status[root] not in ('created', 'modified') or color.get(root) == 2: continue
        stack = [(root, iter(edges(root)))]; color[root] = 1
        while stack:
            x, it = stack[-1]
            for y in it:
                c = color.get(y)
                if c == 1: return True
                if c is None:
                    color[y] = 1; stack.append((y, iter(edges(y)))); break
            else:
                color[x] = 2; stack.pop()
    return False

def canon_model(out):
    """sort each maximal run of link / unlink rows (their order inside one executemany is a set order)"""
    res = []; run = []
    for w in out:
        if w[0] in ('link', 'unlink'):
            w = [w[0]] + sorted(w[1:])
            if run and run[0][0] != w[0]: res.extend(sorted(run)); run = []
            run.append(w)
        else:
            res.extend(sorted(run)); run = []; res.append(w)
    res.extend(sorted(run))
    return res

# ---------------------------------------------------------------- running histories

class FlushFailed(Exception):
    pass

def _oflush_delegates():
    """does Entity.flush of THIS tree save a marked_to_delete object through SessionCache.flush (whole queue, in order)?"""
    import inspect, ast, textwrap
    try:
        fn = ast.parse(textwrap.dedent(inspect.getsource(core.Entity.flush))).body[0]
    except Exception:
        return False
    for n in ast.walk(fn):
        if isinstance(n, ast.If) and "== 'marked_to_delete'" in ast.unparse(n.test) and 'cache.flush()' in ast.unparse(n):
            return True
    return False
OFLUSH_OF_DELETED_IS_FULL_FLUSH = _oflush_delegates()

class SpyList(list):
    """objects_to_save replaced by a list that remembers what it held when SessionCache.flush empties it
    (`cache.objects_to_save[:] = ()`): the only way to see the slots as `_save_` left them"""
    snapshot = None
    def __setitem__(self, k, v):
        if isinstance(k, slice) and k == slice(None, None, None) and len(v) == 0: self.snapshot = list(self)
        list.__setitem__(self, k, v)

def pos_inv(slots):
    """PosInv of the slot model evaluated on the real session: slots and _save_pos_ values agree"""
    q, pos = slots['queue'], slots['pos']
    for x, p in enumerate(pos):
        if p is not None and not (0 <= p < len(q) and q[p] == x): return False
    for j, x in enumerate(q):
        if x is not None and pos[x] != j: return False
    return True

class Run:
    """executes one history (recorded, or generated online with `rng`) against a World; collects flush records"""
    def __init__(self, ctx, spec, strict=False, rng=None, recorded=None):
        self.ctx = ctx; self.spec = spec; self.strict = strict; self.rng = rng
        self.recorded = recorded
        self.w = World(spec, strict=strict)
        self.w.before_query = self.before_query
        self.hist = []            # executed sessions (lists of ops)
        self.records = []         # flush points: dict(model request, real result, meta)
        self.problems = []        # oracle failures: (what, detail)
        self.next_tag = 1
        self.stats = {}
        self.prng = random.Random(1000003 * ctx.seed + 17)    # permutation experiments (independent of op generation)
        self.perm_reqs = []       # (model 'accepts' request, what SQLite said, context)
        self.oflushed_deleted = []  # objects deleted through obj.flush() in the running session
        self.escaped = []         # exceptions that escaped from an op outside Pony's own frames (reported as divergences)
        self.doomed_pairs = set() # {tag, tag} pairs the application linked while one of them was already deleted
        self.delq = []            # obj.delete() calls recorded for the delete-queue model
        self.planned = []         # ops of a multi-op pattern (reference cycle) still to be issued
        self.pk_used = set()      # (entity, target tag) pairs already used as a reference primary key
        self.byproducts = []      # op-level crashes of Pony that are outside C16 (reported in the notes)
        self.all_explicit = all(not e['auto'] for e in spec['ents'])

    def count(self, k): self.stats[k] = self.stats.get(k, 0) + 1

    def before_query(self):
        """Pony flushes a modified session before it sends a query (prepare_connection_for_query_execution)"""
        if self.w.db._get_cache().modified:
            if self.flush_point('autoflush', None) is False: raise FlushFailed()

    # ---- op generation (online, from the live state)
    def plan_cycle(self):
        """a reference cycle among new objects: x = E(); y = F(back=x); x.fwd = y  (the flush of this session must fail
        and leave the database - including pending link-row removals / additions of the same session - unchanged)"""
        w, rng = self.w, self.rng
        cands = []
        for e in range(len(w.E)):
            if w.pk_ref[e] is not None: continue
            for fwd, te, req in w.ref_attrs[e]:
                if req or w.pk_ref[te] is not None: continue
                for back, te2, req2 in w.ref_attrs[te]:
                    if te2 == e and (te != e or True): cands.append((e, fwd, te, back))
        rng.shuffle(cands)
        for e, fwd, te, back in cands:
            def required_kw(ent, skip):
                kw = {}
                for name, t2, req in w.ref_attrs[ent]:
                    if name in skip or not req: continue
                    c = w.alive(t2)
                    if not c: return None
                    kw[name] = rng.choice(c)
                return kw
            kx = required_kw(e, (fwd,)); ky = required_kw(te, (back,))
            if kx is None or ky is None: continue
            tx = self.next_tag; ty = tx + 1; self.next_tag += 2
            ky[back] = tx
            return [['new', e, tx, kx, {}], ['new', te, ty, ky, {}], ['set', tx, fwd, ty]]
        return None

    def plan_child_then_parent(self):
        """on objects the session already holds: move or delete a child (unflushed), then delete the object it referred to -
        whose other referrers may never have been loaded"""
        w, rng = self.w, self.rng
        cands = []
        for t, o in sorted(w.objs.items()):
            if o._status_ in DEAD: continue
            e = w.E.index(o.__class__)
            for name, te, req in w.ref_attrs[e]:
                v = o._vals_.get(getattr(o.__class__, name))
                if isinstance(v, core.Entity) and v._status_ not in DEAD:
                    pt = v._vals_.get(v.__class__.tag)
                    if pt is not None: cands.append((t, name, te, req, pt))
        if not cands: return None
        t, name, te, req, pt = rng.choice(cands)
        others = [x for x in w.alive(te) if x != pt and x in w.objs]
        first = ['del', t]
        if others and rng.random() < 0.6: first = ['set', t, name, rng.choice(others)]
        elif not req and rng.random() < 0.4: first = ['set', t, name, None]
        return [first, ['del', pt]]

    def gen_op(self, nops):
        w, rng = self.w, self.rng
        if self.planned: return self.planned.pop(0)
        if nops > 0 and getattr(self, 'preload_left', 0) > 0 and not w.db._get_cache().modified:
            self.preload_left -= 1
            # follow a reference of something already fetched (the referenced object is known by key only so far) or fetch another row
            seeds = []
            for t, o in sorted(w.objs.items()):
                for name, te, req in w.ref_attrs[w.E.index(o.__class__)]:
                    v = o._vals_.get(getattr(o.__class__, name))
                    if isinstance(v, core.Entity) and v._status_ not in DEAD and v._vals_.get(v.__class__.tag) is None: seeds.append(v)
            if seeds and rng.random() < 0.7:
                return ['load', rng.choice(seeds).tag]              # reading .tag fetches that one row by primary key
            return ['load', rng.choice(sorted(w.persist))]
        if nops == 0: self.preload_left = 0
        if nops == 0 and w.persist and rng.random() < 0.5:
            # a fresh session that first fetches a few objects one by one (their collections are not loaded) and then works
            # on them without further queries: re-parent / delete a child unflushed, delete a parent whose other children
            # were never loaded ...
            self.preload_left = rng.choice([2, 3, 4, 6]) - 1
            return ['load', rng.choice(sorted(w.persist))]
        if w.objs and rng.random() < (0.3 if getattr(self, 'preload_left', 0) == 0 and nops <= 8 and not w.db._get_cache().modified else 0.1):
            plan = self.plan_child_then_parent()
            if plan: self.planned = plan[1:]; return plan[0]
        if rng.random() < 0.04:
            plan = self.plan_cycle()
            if plan: self.planned = plan[1:]; return plan[0]
        for _ in range(20):
            r = rng.random()
            if r < 0.36 or not (w.objs or w.persist):
                e = rng.randrange(len(w.E)); kw = {}; ok = True
                if w.pk_ref[e] is not None:
                    kind, te = w.pk_ref[e]
                    cands = [t for t in w.alive(te) if kind == 'comp' or (e, t) not in self.pk_used]
                    if not cands: continue
                    kw['p'] = rng.choice(cands)
                for name, te, req in w.ref_attrs[e]:
                    cands = w.alive(te)
                    if req:
                        if not cands: ok = False; break
                        kw[name] = rng.choice(cands)
                    elif cands and rng.random() < 0.55: kw[name] = rng.choice(cands)
                if not ok: continue
                links = {}
                for name, te in w.m2m_attrs[e]:
                    cands = w.alive(te)
                    if cands and rng.random() < 0.4: links[name] = sorted(set(rng.choice(cands) for _ in range(rng.choice([1, 2]))))
                tag = self.next_tag; self.next_tag += 1
                if links and rng.random() < 0.35:
                    # a new object with links, deleted (or one of its link targets deleted / unlinked from the other side) before any flush
                    name = sorted(links)[0]; t2 = links[name][0]; other = ('s' if name[0] == 'r' else 'r') + name[1:]
                    self.planned = [rng.choice([['del', tag], ['del', t2], ['mrem', t2, other, tag]])]
                return ['new', e, tag, kw, links]
            al = w.alive()
            if not al: continue
            loaded = [t for t in al if t in w.objs]
            if loaded and rng.random() < 0.75: al = loaded       # stay on what the session already holds (no query, no auto-flush)
            t = rng.choice(al); o = w.get(t)
            if o is None: continue
            e = w.E.index(o.__class__)
            if r < 0.60:
                if not w.ref_attrs[e]: continue
                name, te, req = rng.choice(w.ref_attrs[e])
                cands = w.alive(te)
                lc = [c for c in cands if c in w.objs]
                if lc and rng.random() < 0.75: cands = lc
                # forward references to objects created later in the session are what makes orders interesting
                if (not req and rng.random() < 0.25) or not cands: tgt = None
                else: tgt = rng.choice(cands)
                if tgt is None and req: continue
                return ['set', t, name, tgt]
            if r < 0.64: return ['touch', t, rng.randrange(100)]
            if r < 0.68:
                # reading an attribute makes it part of the optimistic check of a later UPDATE
                if not w.ref_attrs[e]: continue
                return ['read', t, rng.choice(w.ref_attrs[e])[0]]
            if r < 0.81:
                if rng.random() < 0.12: self.planned = [['oflush', t]]        # obj.delete(); obj.flush()
                return [rng.choice(['del', 'delq']), t]
            if r < 0.88:
                if not w.m2m_attrs[e]: continue
                name, te = rng.choice(w.m2m_attrs[e]); cands = w.alive(te)
                if rng.random() < 0.5:
                    # remove an EXISTING link (a pending link-row DELETE); reading the collection is a query
                    self.before_query()
                    members = [m.tag for m in getattr(o, name) if m._status_ not in DEAD]
                    if members: return ['mrem', t, name, rng.choice(sorted(members))]
                if not cands: continue
                t2 = rng.choice(cands)
                if rng.random() < 0.5:
                    # take the pending link back inside the same flush window: delete an end, or remove it from the OTHER side
                    other = ('s' if name[0] == 'r' else 'r') + name[1:]
                    self.planned = [rng.choice([['del', t2], ['del', t], ['mrem', t2, other, t], ['mrem', t, name, t2]])]
                return ['madd', t, name, t2]
            if r < 0.94: return ['oflush', t]
            return ['flush']
        return ['flush']

    def exec_op(self, op):
        w = self.w
        k = op[0]
        if k == 'new':
            _, e, tag, kw, links = op
            args = {'tag': tag}
            if w.pk_ref[e] is not None:
                self.pk_used.add((e, kw.get('p')))
                if w.pk_ref[e][0] == 'comp': args['num'] = tag
            elif not self.spec['ents'][e]['auto']: args['id'] = 1000 + tag
            for name, t in kw.items(): args[name] = w.get(t)
            for name, ts in links.items(): args[name] = [w.get(t) for t in ts]
            for v in list(args.values()):
                for x in (v if isinstance(v, list) else [v]):
                    if isinstance(x, core.Entity) and x._status_ in DEAD: self.doomed_pairs.add(frozenset((tag, x._vals_.get(x.__class__.tag))))
            if any(v is None for v in args.values()) or any(isinstance(v, list) and None in v for v in args.values()):
                raise LookupError('stale target')
            w.objs[tag] = w.E[e](**args)
            self.next_tag = max(self.next_tag, tag + 1)
        elif k == 'set':
            _, t, name, tgt = op
            o = w.get(t); v = None if tgt is None else w.get(tgt)
            if o is None or (tgt is not None and v is None): raise LookupError('stale target')
            if v is not None and v._status_ in DEAD: self.doomed_pairs.add(frozenset((t, tgt)))
            setattr(o, name, v)
        elif k == 'touch':
            o = w.get(op[1])
            if o is None: raise LookupError('stale target')
            o.val = op[2]
        elif k == 'load':
            # fetch one object by its key at the start of a session: its collections stay unloaded
            if w.get(op[1]) is None: raise LookupError('stale target')
        elif k == 'read':
            o = w.get(op[1])
            if o is None: raise LookupError('stale target')
            self.before_query()          # the read may load the attribute (a query -> auto-flush)
            getattr(o, op[2])
        elif k == 'del':
            o = w.get(op[1])
            if o is None: raise LookupError('stale target')
            o.delete()
        elif k == 'delq':
            # the same delete, with the whole database loaded first and the call compared with the delete-queue model
            o = w.get(op[1])
            if o is None: raise LookupError('stale target')
            return self.checked_delete(o)
        elif k in ('madd', 'mrem'):
            _, t, name, t2 = op
            o = w.get(t); o2 = w.get(t2)
            if o is None or o2 is None: raise LookupError('stale target')
            if k == 'madd' and (o._status_ in DEAD or o2._status_ in DEAD): self.doomed_pairs.add(frozenset((t, t2)))
            (getattr(o, name).add if k == 'madd' else getattr(o, name).remove)(o2)
        elif k == 'oflush':
            o = w.get(op[1])
            if o is None: raise LookupError('stale target')
            return self.flush_point('oflush', o)
        elif k == 'flush':
            return self.flush_point('flush', None)
        return True

    # ---- obj.delete() against the delete-queue model (Model/DeleteQueue.lean over C15's Model/Cascade.lean)
    def checked_delete(self, o):
        """load the whole database into the session, abstract schema + store, run the real delete, record which objects
        became marked_to_delete and in which queue order; compared with the model's death order in check_delq"""
        w = self.w
        cache = w.db._get_cache()
        self.before_query()
        for E in w.E: E.select()[:]
        for x in list(cache.objects):
            if x._status_ in DEAD: continue
            for attr in x.__class__._attrs_:
                if not attr.reverse: continue
                if attr.is_collection: len(getattr(x, attr.name))        # loads the collection
                elif attr not in x._vals_: getattr(x, attr.name)
        if cache.modified: pass                                            # loading never modifies
        rels = []; aid = {}
        for E in w.E:
            for attr in E._attrs_:
                if attr.reverse and attr not in aid and attr.reverse is not attr:
                    aid[attr] = (len(rels), False); aid[attr.reverse] = (len(rels), True); rels.append((attr, attr.reverse))
        def side(a): return {'ent': w.E.index(a.entity), 'coll': bool(a.is_collection), 'req': bool(a.is_required),
                             'casc': bool(a.cascade_delete), 'col': bool(a.columns) and not a.is_collection}
        schema = [{'a': side(a), 'b': side(b)} for a, b in rels]
        classes = [[list(aid[a]) for a in E._attrs_ if a.reverse] for E in w.E]
        objs = sorted(cache.objects, key=lambda x: (w.E.index(x.__class__), x._vals_.get(x.__class__.tag, 0), repr(rawpk(x))))
        num = {x: k for k, x in enumerate(objs)}
        oj = []
        for x in objs:
            refs = []; colls = []
            for attr in x.__class__._attrs_:
                if not attr.reverse: continue
                v = x._vals_.get(attr)
                if attr.is_collection:
                    colls.append(list(aid[attr]) + [sorted(num[m] for m in (v or ()) if m in num)])
                else:
                    refs.append(list(aid[attr]) + [num[v] if isinstance(v, core.Entity) and v in num else None])
            oj.append({'ent': w.E.index(x.__class__), 'alive': x._status_ not in DEAD, 'refs': refs, 'colls': colls})
        before = {x: x._status_ for x in objs}
        multi = any(len(c[2]) > 1 for j in oj for c in j['colls'])
        err = None
        try: o.delete()
        except Exception as e: err = e
        died = [x for x in objs if before[x] not in DEAD and x._status_ in DEAD]
        queued = [num[x] for x in cache.objects_to_save if x is not None and x in num and x._status_ == 'marked_to_delete' and before[x] not in DEAD]
        self.delq.append({'request': {'op': 'delq', 'schema': schema, 'classes': classes, 'objs': oj, 'deletes': [num[o]]},
                          'err': type(err).__name__ if err is not None else None, 'died': sorted(num[x] for x in died),
                          'queued': queued, 'created': sorted(num[x] for x in objs if before[x] == 'created'), 'multi': multi})
        if err is not None: raise err
        return True

    # ---- one flush point: abstraction, real flush with trace, oracle
    def flush_point(self, kind, obj):
        w = self.w
        cache = w.db._get_cache()
        if kind == 'oflush' and obj._status_ == 'marked_to_delete' and OFLUSH_OF_DELETED_IS_FULL_FLUSH:
            # this tree's Entity.flush hands a deleted object to SessionCache.flush (fixes/C16-flush-of-deleted-object.diff):
            # the flush point is an ordinary full flush, entered through obj.flush()
            kind = 'oflush-full'
        if kind == 'oflush':
            if obj._status_ not in PENDING: return True
            ab, by_tag, by_pk, ent_of, objs = w.abstract(queue_override=[obj], with_m2m=False)
        else:
            if not cache.modified: return True
            ab, by_tag, by_pk, ent_of, objs = w.abstract()
        cyclic = find_cycle(ab)
        if kind == 'oflush' and obj._status_ == 'marked_to_delete': self.oflushed_deleted.append(obj)
        slots = w.last_slots; num = w.last_num
        self.count('pos-inv:' + ('holds' if pos_inv(slots) else 'FAILS'))
        txn_before = [bool(cache.in_transaction), bool(cache.immediate)]
        spy = None
        if kind != 'oflush':
            spy = cache.objects_to_save = SpyList(cache.objects_to_save)
        del w.log[:]
        err = None
        try:
            if kind in ('oflush', 'oflush-full'): obj.flush()
            else: flush()
        except Exception as e:
            err = e
        # the slots as the real code left them (obj.flush(): the live list; flush(): what the list held when it was emptied)
        after = None
        if err is None:
            live = cache.objects_to_save if kind == 'oflush' else spy.snapshot
            if live is not None:
                after = {'queue': [None if o is None else num.get(o, -1) for o in live], 'pos': [o._save_pos_ for o in objs]}
        trace, unknown, items = w.parse_trace(by_tag, by_pk, objs)
        # the transaction flags and the BEGIN statement(s) around the statements of this flush
        kinds_in_log = ['begin' if sql.startswith('BEGIN') else 'write' if INS.match(sql) or UPD.match(sql) or DEL.match(sql) else 'other' for sql, _ in w.log]
        txn = {'before': txn_before, 'after': [bool(cache.in_transaction), bool(cache.immediate)], 'begins': kinds_in_log.count('begin'),
               'begin_first': ('begin' in kinds_in_log and 'write' in kinds_in_log and kinds_in_log.index('begin') < kinds_in_log.index('write'))}
        # rows that exist when the flush starts; the hypotheses of theorem C16_fk_accepts on the real session
        HASROW = ('loaded', 'modified', 'marked_to_delete', 'inserted', 'updated')
        rows0 = [k for k, st in enumerate(ab['status']) if st in HASROW]
        def stable(y): return ab['status'][y] in HASROW and ab['status'][y] != 'marked_to_delete'
        hyp = True
        bad_pairs = []          # (object, dead target) pairs behind a failing hypothesis
        tag_of = lambda k: objs[k]._vals_.get(objs[k].__class__.tag)
        for x, st in enumerate(ab['status']):
            rs = ab['refs'][x] if st == 'created' else [r for r in ab['refs'][x] if r[1]] if st == 'modified' else []
            for t, _ in rs:
                if not (ab['status'][t] == 'created' or stable(t)): hyp = False; bad_pairs.append(frozenset((tag_of(x), tag_of(t))))
        for pr in ab['added']:
            for e in pr:
                if not ((ab['status'][e] == 'created' and e in ab['queue']) or stable(e)): hyp = False; bad_pairs.append(frozenset(tag_of(k) for k in pr))
        self.count('fk-hypotheses:' + ('hold' if hyp else 'FAIL'))
        # the failure of a hypothesis excuses a failing flush only when the APPLICATION asked for the impossible (it linked
        # to an object that was already deleted at that moment - Pony accepts that); a pending link / reference to a deleted
        # object that Pony's own bookkeeping kept after a later delete() is Pony's to drop: the history stays orderable
        excused = (not hyp) and all(bp in self.doomed_pairs for bp in bad_pairs)
        if not hyp and not excused: self.count('pending-write-to-a-deleted-object-kept-by-the-session')
        if err is None:
            real = {'ok': trace}
        else:
            real = {'error': type(err).__name__}
            if isinstance(err, core.UnresolvableCyclicDependency):
                real['chain'] = str(err).split(': ', 1)[1].split(' -> ')
        rec = {'kind': kind, 'request': dict(ab, op='flush'), 'real': real, 'ent_of': ent_of, 'cyclic': cyclic,
               'partial_trace': trace if err is not None else None, 'rows0': rows0, 'hyp': hyp, 'items': items,
               'slots': dict(slots, ok=pos_inv(slots)), 'slots_after': after, 'txn': txn, 'top': ab['queue'][0] if kind == 'oflush' else None}
        self.records.append(rec)
        self.count('flush-point:' + kind)
        self.count('outcome:' + ('ok' if err is None else type(err).__name__))
        for wr in trace: self.count('stmt:' + wr[0])
        if unknown: self.problems.append(('infrastructure: unparsed statement', unknown[:2]))
        if err is None and any(-1 in wr[1:] for wr in trace): self.count('statement-with-a-key-no-object-of-the-session-has')    # compared with the model below (divergence)
        # ---------------- property oracle
        if excused:
            # a pending statement refers to a row that the same flush deletes (Pony let the application link to an object
            # that is marked_to_delete): no order satisfies the backend; the flush may only fail cleanly
            self.count('not-orderable:reference-to-a-row-deleted-by-the-same-flush')
            self.byproducts.append(('reference to a marked_to_delete object accepted', self.hist))
        if not cyclic and not excused and err is not None:
            det = {'error': str(err)[:300], 'statements_so_far': trace}
            if not self.strict and isinstance(err, core.OptimisticCheckError) and trace and trace[-1][0] == 'update' \
                    and any(wr[0] == 'delete' for wr in trace[:-1]):
                # the UPDATE that failed its optimistic check: does it re-write references to rows that this flush deletes
                # (the ON DELETE SET NULL / CASCADE action of an earlier DELETE of this flush changed the row first)?
                u = objs[trace[-1][1]]
                olds = [u._dbvals_.get(a) for a in u._attrs_with_columns_ if a.reverse]
                det['preempted_by_on_delete'] = any(isinstance(v, core.Entity) and v._status_ in ('marked_to_delete', 'deleted') for v in olds)
            # obj.delete(); obj.flush(): the object-level flush emits the DELETE alone, before the UPDATEs delete() queued
            if kind == 'oflush' and obj._status_ == 'marked_to_delete' and 'FOREIGN KEY' in str(err):
                det['oflush_of_deleted_object'] = True
            if isinstance(err, core.OptimisticCheckError) and trace and trace[-1][0] == 'update':
                u = objs[trace[-1][1]]
                olds = [u._dbvals_.get(a) for a in u._attrs_with_columns_ if a.reverse]
                if any(v in self.oflushed_deleted for v in olds if isinstance(v, core.Entity)): det['oflush_of_deleted_object'] = True
            if trace and trace[-1][0] == 'delete' and 'FOREIGN KEY' in str(err):
                try: det['refused_delete'] = w.blocking_rows_are_deleted_too(objs[trace[-1][1]])
                except Exception as e2: det['classification_error'] = repr(e2)
            self.problems.append(('flush raised %s although the pending references can be ordered' % type(err).__name__, det))
        if err is None:
            # C16_deletes_in_queue_order on the real flush: DELETEs come in the order _delete_ queued the objects
            dq = []
            for q in (slots['queue'] if kind != 'oflush' else ab['queue']):
                if q is not None and ab['status'][q] == 'marked_to_delete' and q not in dq: dq.append(q)
            dt = [wr[1] for wr in trace if wr[0] == 'delete']
            if len(dt) > 1: self.count('deletes-in-queue-order:checked(>1 delete)')
            if dt != dq:
                self.problems.append(('DELETE statements are not in the order of the save queue', {'queue': slots['queue'], 'deletes': dt}))
            # "flushing succeeds" = the pending writes were emitted: nothing that was queued may still be pending
            left = [k for k, o in enumerate(objs) if o._status_ in PENDING and (kind != 'oflush' or o is obj)]
            if left:
                self.problems.append(('flush returned normally but left queued objects unsaved',
                                      {'still_pending': left, 'queue_before': slots['queue'], 'statements': trace}))
        if cyclic and err is None:
            # the backend accepted an order the engine thinks impossible: not a property violation, but the model must explain it
            self.count('cyclic-but-flushed')
        if err is not None:
            return False
        return True

    def run_session(self, ops=None):
        """ops=None: generate online.  Returns the executed op list."""
        w = self.w; done = []
        w.objs = {}
        self.oflushed_deleted = []
        failed = None
        nrec0 = len(self.records)
        bak = w.backup() if (self.all_explicit and not self.strict) else None
        with db_session:
            try:
                n = self.rng.choice([1, 2, 3, 4, 5, 6, 8, 10, 14]) if ops is None else len(ops)
                for i in range(n):
                    try:
                        op = self.gen_op(i) if ops is None else ops[i]
                        done.append(op)
                        ok = self.exec_op(op)
                    except FlushFailed:
                        failed = 'flush'; break
                    except LookupError:
                        self.count('op-stale'); continue
                    except (core.ConstraintError, core.CacheIndexError, core.OperationWithDeletedObjectError, core.UnrepeatableReadError, ValueError, core.TransactionError) as e:
                        self.count('op-refused:' + type(e).__name__); failed = 'op'; break
                    except Exception as e:
                        # a crash INSIDE Pony's object layer (undo closures, unbounded cascade recursion): outside C16; the
                        # session is rolled back and the history reported in the notes.  Anything raised by the engine itself is re-raised.
                        tb = e.__traceback__
                        while tb.tb_next is not None: tb = tb.tb_next
                        if 'pony' not in tb.tb_frame.f_code.co_filename and not isinstance(e, RecursionError):
                            # not raised inside Pony: still a verdict with the input, never an engine crash
                            import traceback as _tb
                            self.escaped.append((type(e).__name__ + ': ' + str(e)[:200], self.hist + [done], ''.join(_tb.format_tb(e.__traceback__)[-3:])))
                            failed = 'op'; break
                        self.count('op-crashed:' + type(e).__name__); failed = 'op'
                        self.byproducts.append((type(e).__name__, self.hist + [done]))
                        break
                    if ok is False: failed = 'flush'; break
                if failed is None:
                    if self.flush_point('commit', None) is False: failed = 'flush'
                if failed is None: commit()
                else: rollback()
            except Exception:
                rollback(); raise
        self.hist.append(done)
        dump = w.dump()
        if failed is not None:
            self.count('session-rolled-back:' + failed)
            if dump != w.last_dump:
                self.problems.append(('a session whose flush failed left changes in the database', {'before': w.last_dump, 'after': dump}))
        else:
            self.count('session-committed')
            on, bad = w.fk_check()
            if not on: self.problems.append(('infrastructure: PRAGMA foreign_keys is off', None))
            if bad: self.problems.append(('the committed database has dangling foreign keys', bad))
            w.last_dump = dump
            if bak is not None and len(self.records) == nrec0 + 1: self.permutations(bak, self.records[-1])
        if bak is not None: bak.close()
        w.refresh_persist()
        return done

    def permutations(self, bak, rec):
        """validate the FK database model (`applyWrites`) against SQLite: the statements of the session's only flush are
        re-executed on copies of the pre-session database in permuted orders; acceptance must agree with the model"""
        items = rec['items']
        if len(items) < 2 or len(items) > 9 or any(it[2][0] in ('delete', 'unlink') for it in items): return
        orders = [list(range(len(items))), list(range(len(items)))[::-1]]
        for _ in range(4):
            o = list(range(len(items))); self.prng.shuffle(o); orders.append(o)
        for o in orders:
            tmp = sqlite3.connect(':memory:'); bak.backup(tmp); tmp.execute('PRAGMA foreign_keys = ON')
            ok = True
            try:
                for i in o: tmp.execute(items[i][0], items[i][1])
            except sqlite3.IntegrityError as e:
                ok = False
                if 'FOREIGN KEY' not in str(e): ok = None     # some other constraint: not comparable
            tmp.close()
            if ok is None: self.count('perm:other-constraint'); continue
            self.count('perm:sqlite-' + ('accepts' if ok else 'refuses'))
            self.perm_reqs.append(({'op': 'accepts', 'refs': rec['request']['refs'], 'rows': rec['rows0'], 'writes': [items[i][2] for i in o]}, ok))

    def run(self, nsessions=None):
        if self.recorded is not None:
            for ops in self.recorded: self.run_session(ops)
        else:
            for _ in range(nsessions): self.run_session()
        return self

def try_history(ctx, spec, hist, strict):
    """re-run a recorded history; returns the list of oracle problems (empty = fine); None if the schema is rejected"""
    try:
        r = Run(ctx, spec, strict=strict, recorded=hist).run()
    except Exception as e:
        return [('infrastructure: replay crashed: %s: %s' % (type(e).__name__, e), None)]
    return [p for p in r.problems if not p[0].startswith('infrastructure')]

def shrink(ctx, spec, hist, strict, what):
    """greedy removal of ops / sessions / relationships while the same oracle failure persists"""
    def fails(s, h):
        ps = try_history(ctx, s, h, strict)
        return any(p[0] == what for p in ps)
    changed = True
    while changed:
        changed = False
        for si in range(len(hist)):
            for oi in range(len(hist[si]) - 1, -1, -1):
                h2 = [list(s) for s in hist]; del h2[si][oi]
                h2 = [s for s in h2 if s]
                if h2 and fails(spec, h2):
                    hist = h2; changed = True; break
            if changed: break
        if not changed:
            for k, r in enumerate(spec['rels']):
                if r['kind'] == 'none': continue
                s2 = {'ents': spec['ents'], 'rels': [dict(x) for x in spec['rels']]}
                s2['rels'][k] = {'kind': 'none', 'a': 0, 'b': 0, 'req': False, 'cascade': None}
                if fails(s2, hist):
                    spec = s2; changed = True; break
    return spec, hist

def canon_key(spec, hist, what):
    return 'c16:%s:%s' % (what.split(' ')[0:3], json.dumps([spec, hist], sort_keys=True))

def check_records(ctx, runs):
    """correspondence: the model's statement list / error vs the traced statements of the real flush"""
    reqs = []; where = []
    for r in runs:
        for rec in r.records:
            reqs.append(rec['request']); where.append((r, rec))
    if not ctx.driver.ok:
        ctx.note('driver unavailable: correspondence skipped'); return
    # the same flush points through the slot model (real queue bookkeeping): statements, final slots and positions
    sreqs = [dict(rec['request'], op='slots', queue=rec['slots']['queue'], pos=rec['slots']['pos'], top=rec['top']) for r, rec in where]
    souts = ctx.driver('C16', sreqs)
    treqs = [{'op': 'txn', 'inTxn': rec['txn']['before'][0], 'immediate': rec['txn']['before'][1], 'mode': 'exec' if rec['top'] is not None else 'flush',
              'writes': rec['real']['ok'] if 'ok' in rec['real'] else (rec['partial_trace'] or [])} for r, rec in where]
    touts = ctx.driver('C16', treqs)
    for (r, rec), tout, treq in zip(where, touts, treqs):
        # a refused statement was sent but did not execute: the flags are those after the statements before it
        real_t = {'inTxn': rec['txn']['after'][0], 'immediate': rec['txn']['after'][1], 'begin': rec['txn']['begins'] > 0}
        model_t = {k: tout.get(k) for k in ('inTxn', 'immediate', 'begin')}
        ctx.count('txn:begin=%s,inTxn-before=%s' % (real_t['begin'], rec['txn']['before'][0]))
        if rec['txn']['begins'] > 1 or (rec['txn']['begins'] == 1 and treq['writes'] and not rec['txn']['begin_first']):
            ctx.divergence('a flush statement was sent before BEGIN / more than one BEGIN', {'request': treq, 'history': r.hist, 'spec': r.spec}, model=model_t, impl=rec['txn'])
        if tout.get('autocommitted') != 0:
            ctx.divergence('transaction model: a statement of a flush outside the transaction', treq, model=tout, impl=real_t)
        if model_t != real_t:
            ctx.divergence('connection flags (in_transaction, immediate, BEGIN issued) after the real flush differ from the transaction model',
                           {'request': treq, 'history': r.hist, 'spec': r.spec, 'strict': r.strict}, model=model_t, impl=dict(real_t, detail=rec['txn']))
    outs = ctx.driver('C16', reqs)
    for (r, rec), out, sout in zip(where, outs, souts):
        if rec['slots']['ok']:
            # C16_slots_refine on real inputs, and the final bookkeeping against the real list / _save_pos_ values
            a = canon_model(out['ok']) if 'ok' in out else {k: v for k, v in out.items()}
            b = canon_model(sout['ok']) if 'ok' in sout else {k: v for k, v in sout.items()}
            if a != b:
                ctx.divergence('slot model and abstract model disagree although PosInv holds (contradicts C16_slots_refine)', rec['request'], model=a, impl=b)
            ctx.count('slots:refinement-checked')
            if 'ok' in sout and rec['slots_after'] is not None:
                got = {'queue': sout['queue'], 'pos': sout['pos']}
                if got != rec['slots_after']:
                    ctx.divergence('objects_to_save / _save_pos_ after the real %s differ from the slot model' % ('obj.flush()' if rec['top'] is not None else 'flush()'),
                                   {'spec': r.spec, 'history': r.hist, 'request': sreqs[where.index((r, rec))], 'strict': r.strict}, model=got, impl=rec['slots_after'])
                ctx.count('slots:final-queue-compared:' + ('obj.flush' if rec['top'] is not None else 'flush'))
                if any(q is not None for q in got['queue']): ctx.count('slots:objects-left-in-queue-after-obj.flush')
                if len(got['queue']) < len(rec['slots']['queue']): ctx.count('branch:slot-popped')
                if None in got['queue']: ctx.count('branch:slot-set-to-None')
        else:
            ctx.count('slots:pos-inv-fails-on-real-session')
        real = rec['real']; names = ['E%d' % e for e in rec['ent_of']]
        if 'ok' in out:
            model = {'ok': canon_model(out['ok'])}
        elif out.get('error') == 'UnresolvableCyclicDependency':
            model = {'error': 'UnresolvableCyclicDependency', 'chain': [names[i] for i in out['chain']]}
        else:
            model = {'error': out.get('error', out.get('driver_error'))}
        if 'ok' in real: real = {'ok': canon_model(real['ok'])}
        ctx.count('model:' + ('ok' if 'ok' in model else str(model['error'])))
        req = rec['request']; st = req['status']
        if 'ok' in model:
            ctx.count('model-writes:%d' % min(len(model['ok']), 12))
            objw = [w_ for w_ in model['ok'] if w_[0] in ('insert', 'update', 'delete')]
            qorder = [q for q in req['queue'] if q is not None]
            if [w_[1] for w_ in objw] != [q for q in qorder if q in [w_[1] for w_ in objw]]:
                ctx.count('branch:recursion-reordered-the-queue')        # a principal was saved before its own slot (`written` skip branch)
        if None in req['queue']: ctx.count('branch:queue-with-holes')
        ncre = sum(1 for x in st if x == 'created')
        ctx.count('created-objects:%d' % min(ncre, 8))
        e_cc = sum(1 for x, rs in enumerate(req['refs']) if st[x] == 'created' for t, _ in rs if st[t] == 'created')
        e_mc = sum(1 for x, rs in enumerate(req['refs']) if st[x] == 'modified' for t, d in rs if d and st[t] == 'created')
        e_self = sum(1 for x, rs in enumerate(req['refs']) if st[x] == 'created' for t, _ in rs if t == x)
        if e_cc: ctx.count('branch:created->created edges')
        if e_mc: ctx.count('branch:modified->created edge (UPDATE waits for INSERT)')
        if e_self: ctx.count('branch:self-reference of a created object')
        if any(st[x] == 'modified' and any(not d for _, d in rs) for x, rs in enumerate(req['refs'])): ctx.count('branch:modified object with a clean reference (filtered by wbits)')
        if 'error' in rec['real'] and (req['removed'] or req['added']):
            ctx.count('failing-flush-with-pending-link-rows:' + ('removal' if req['removed'] else 'addition'))
        if req['removed']: ctx.count('branch:unlink rows')
        if req['added']: ctx.count('branch:link rows')
        if 'chain' in model: ctx.count('cycle-chain-length:%d' % min(len(model['chain']), 6))
        if 'error' in real and real['error'] != 'UnresolvableCyclicDependency':
            # the backend refused a statement (reported by the oracle): the model must have predicted the statements up to it
            pt = canon_model(rec['partial_trace'] or [])
            if 'ok' not in model:
                ctx.count('model-prefix-unavailable(model reports a later cycle)')
            elif not (model['ok'][:len(pt)] == pt):
                ctx.divergence('statements before the refused one differ from the model', {'spec': r.spec, 'history': r.hist, 'request': rec['request'], 'strict': r.strict}, model=model, impl={'error': real['error'], 'statements': pt})
            ctx.count('model-prefix-checked')
        elif model != real:
            ctx.divergence('model flush and real flush disagree', {'spec': r.spec, 'history': r.hist, 'request': rec['request'], 'strict': r.strict}, model=model, impl=real)
        # the engine's own cycle analysis must agree with the model's verdict (three-way agreement)
        if rec['cyclic'] != (model.get('error') == 'UnresolvableCyclicDependency'):
            ctx.divergence('model verdict and the engine\'s cycle analysis disagree', {'request': rec['request']}, model=model, impl={'cyclic': rec['cyclic']})

def check_delq(ctx, runs):
    """every recorded obj.delete(): the model's death order (deleteQ over C15's Cascade.delete) against the objects the real
    _delete_ killed and the order in which it appended them to objects_to_save"""
    if not ctx.driver.ok: return
    recs = [(r, d) for r in runs for d in r.delq]
    outs = ctx.driver('C16', [d['request'] for r, d in recs])
    for (r, d), out in zip(recs, outs):
        ctx.case(['delq', d['request']['deletes'], len(d['request']['objs'])], nontrivial=len(d['died']) > 1, kind='delete-queue')
        if 'order' not in out:
            ctx.divergence('delete-queue model: driver error', d['request'], model=out, impl=None); continue
        m_err = out['errs'][0]
        if (m_err is None) != (d['err'] is None) or (m_err is not None and m_err != d['err'] and not (m_err == 'RecursionError' and d['err'] == 'RecursionError')):
            ctx.count('delq:error-differs:%s/%s' % (m_err, d['err']))
            if m_err in (None,) or d['err'] is None:
                ctx.divergence('delete-queue model and real obj.delete() disagree on success', {'request': d['request'], 'history': r.hist, 'spec': r.spec}, model=m_err, impl=d['err'])
            continue
        if d['err'] is not None:
            ctx.count('delq:refused:' + d['err']); continue
        ctx.count('delq:deaths:%d' % min(len(d['died']), 6))
        if sorted(out['order']) != d['died']:
            ctx.divergence('delete-queue model kills other objects than the real obj.delete()', {'request': d['request'], 'history': r.hist, 'spec': r.spec}, model=out['order'], impl=d['died'])
            continue
        m_queue = [x for x in out['order'] if x not in d['created']]      # created objects are cancelled, not queued
        if m_queue != d['queued']:
            if d['multi'] and sorted(m_queue) == sorted(d['queued']):
                ctx.count('delq:order-differs-only-by-set-iteration-order')
            else:
                ctx.divergence('death order of the delete-queue model differs from the order in objects_to_save', {'request': d['request'], 'history': r.hist, 'spec': r.spec}, model=m_queue, impl=d['queued'])
        else:
            ctx.count('delq:order-agrees' + ('(>1 queued)' if len(m_queue) > 1 else ''))
        ctx.count('delq:pony-ddl-%s,strict-%s' % ('accepts' if out['pony_ddl_accepts'] else 'REFUSES', 'accepts' if out['strict_accepts'] else 'refuses'))

def check_fk_model(ctx, runs):
    """(a) the model's own statement list is accepted by the FK database model whenever the hypotheses of C16_fk_accepts
    hold on the real session (what the theorem says); (b) `applyWrites` agrees with SQLite on permuted statement lists"""
    if not ctx.driver.ok: return
    reqs = []; exp = []
    for r in runs:
        for rec in r.records:
            if 'ok' in rec['real'] and rec['hyp']:
                reqs.append({'op': 'accepts', 'refs': rec['request']['refs'], 'rows': rec['rows0'], 'writes': rec['real']['ok']})
                exp.append(('real-order', True, rec['request']))
        for req, ok in r.perm_reqs:
            reqs.append(req); exp.append(('permutation', ok, req))
    outs = ctx.driver('C16', reqs)
    for (kind, ok, inp), out in zip(exp, outs):
        ctx.case([kind, inp.get('writes'), inp.get('rows')], nontrivial=True, kind='fk-model:' + kind)
        ctx.count('fk-model:%s:%s' % (kind, 'accepted' if out.get('accepted') else 'refused'))
        if out.get('accepted') != ok:
            ctx.divergence('FK database model (applyWrites) and SQLite disagree on a statement order (%s)' % kind, inp, model=out, impl={'accepted': ok})

def explore(ctx, strict, nhist):
    runs = []
    rng = ctx.rng
    for h in range(nhist):
        spec = random_spec(rng)
        try:
            r = Run(ctx, spec, strict=strict, rng=rng)
        except Exception as e:
            ctx.count('spec-rejected:' + type(e).__name__); continue
        r.run(nsessions=rng.choice([1, 2, 2, 3, 4]))
        runs.append(r)
        tagp = 'strict:' if strict else ''
        for k, v in r.stats.items(): ctx.count(tagp + k, v)
        for msg, h, tbs in r.escaped:
            ctx.divergence('an exception escaped from an operation outside Pony\'s own frames', {'spec': spec, 'history': h, 'strict': strict}, model=None, impl={'error': msg, 'where': tbs})
        for name, h in r.byproducts:
            if not any(n.startswith('by-product (not C16): ' + name) for n in ctx.notes):
                ctx.note('by-product (not C16): %s inside an object-level operation of Pony (session rolled back by the engine); spec=%s history=%s'
                         % (name, json.dumps(spec), json.dumps(h)))
        ctx.case({'spec': spec, 'history': r.hist, 'strict': strict}, nontrivial=bool(r.records), kind='history' + ('-strict' if strict else ''))
        for rec in r.records:
            ctx.case(rec['request'], nontrivial=len([q for q in rec['request']['queue'] if q is not None]) > 1, kind='flush-point')
        for what, detail in r.problems:
            if what.startswith('infrastructure'):
                raise RuntimeError('%s: %r' % (what, detail))
            report(ctx, spec, r.hist, strict, what, detail)
        if strict:
            # the SAME history on the schema Pony itself generates (with its ON DELETE clauses): any refusal there is a
            # fresh violation with its own key
            r2 = Run(ctx, spec, strict=False, recorded=r.hist).run()
            runs.append(r2)
            ctx.case({'spec': spec, 'history': r.hist, 'strict': False, 'twin': True}, nontrivial=bool(r2.records), kind='history-twin-of-strict')
            for k, v in r2.stats.items(): ctx.count('twin:' + k, v)
            for what, detail in r2.problems:
                if what.startswith('infrastructure'):
                    raise RuntimeError('%s: %r' % (what, detail))
                report(ctx, spec, r.hist, False, what, detail)
    return runs

STRICT_DELETE_KEY = 'strict-schema:DELETE-refused:delete-order-relies-on-ON-DELETE'
# Pony's OWN schema: the rows reference each other; Entity._delete_ queued the cascade target before the object that still
# refers to it through a Required attribute (plain FK); same defect as C15's commit-failed:required-reference-inside-cascade-closure
# Pony's OWN schema: a pending UPDATE (unlinking a row from an object that is being deleted) is emitted after a DELETE whose
# ON DELETE CASCADE / SET NULL action already changed that row in the database (cascade cycle among the deleted rows: the
# root is queued last, the backend cascades to it from the first DELETE); the UPDATE then fails its optimistic check
# Pony's OWN schema, FK without ON DELETE action (Required reference, no cascade): `c.ref = other; old.delete(); c.delete()` -
# c's pending UPDATE (re-link) is cancelled by c's own deletion, c is queued behind `old`, and DELETE old is refused because
# c's row still references it (the order DELETE c, DELETE old is accepted).  Same root cause as STRICT_DELETE_KEY.
STALE_DELETE_KEY = 'pony-schema:DELETE-refused:stale-reference-of-a-row-deleted-later:pending-UPDATE-cancelled-by-its-own-deletion'
# obj.delete(); obj.flush(): Entity.flush saves the deleted object alone - its DELETE overtakes the UPDATEs (and DELETEs) that
# delete() queued before it to unlink its referrers (fixes/C16-flush-of-deleted-object.diff)
OFLUSH_DELETED_KEY = 'obj.flush()-of-a-deleted-object:DELETE-overtakes-the-queued-unlinking-UPDATEs'
PREEMPTED_UPDATE_KEY = 'pony-schema:OptimisticCheckError:pending-UPDATE-preempted-by-ON-DELETE-action-of-an-earlier-DELETE'
CYCLE_DELETE_KEY = 'pony-schema:DELETE-refused:reference-cycle-between-deleted-rows:cascade-target-before-its-required-referrer'

def report(ctx, spec, hist, strict, what, detail, shrunk=False):
    det = detail
    if shrunk:
        ps = try_history(ctx, spec, hist, strict)
        det = next((p[1] for p in ps if p[0] == what), detail)
    key = 'c16:' + json.dumps([spec, hist, strict], sort_keys=True)
    st = (det or {}).get('statements_so_far') if isinstance(det, dict) else None
    cls = (det.get('refused_delete') or {}) if isinstance(det, dict) else {}
    refused_delete = bool(what.startswith('flush raised') and st and st[-1][0] == 'delete' and 'FOREIGN KEY' in str(det.get('error')))
    if strict:
        # one class of failures has a canonical key: the strict backend refuses a DELETE (the last traced statement) of a
        # history that Pony's own DDL (ON DELETE SET NULL / CASCADE) accepts; every row that blocks it is deleted later by the
        # same flush and is either a stale reference (its pending UPDATE was cancelled by its deletion), a non-cascading
        # referrer, or part of a reference cycle between the deleted rows
        if refused_delete and cls.get('strict_family') is True and not try_history(ctx, spec, hist, False):
            key = STRICT_DELETE_KEY
            ctx.count('strict:delete-refused')
        elif refused_delete and cls.get('all_deleted') is True and cls.get('all_in_cycle') is True and \
                any(p[0] == what for p in try_history(ctx, spec, hist, False)):
            key = CYCLE_DELETE_KEY        # Pony's own schema refuses the same history for the same reason
            ctx.count('strict:delete-refused:same-as-pony-schema-finding')
        elif refused_delete and cls.get('all_deleted') is True and cls.get('all_stale') is True and \
                any(p[0] == what for p in try_history(ctx, spec, hist, False)):
            key = STALE_DELETE_KEY
            ctx.count('strict:delete-refused:same-as-pony-schema-stale-finding')
    elif refused_delete and cls.get('all_deleted') is True and cls.get('all_stale') is True:
        key = STALE_DELETE_KEY
        ctx.count('pony-schema:delete-refused:stale-reference')
    elif refused_delete and cls.get('all_deleted') is True and cls.get('all_in_cycle') is True:
        # Pony's own schema refuses the DELETE: only when the blocking rows are deleted by the same flush AND reference
        # each other with the refused row (no order of plain DELETEs exists; the backend's ON DELETE action on one edge of the
        # cycle would make the opposite order work)
        key = CYCLE_DELETE_KEY
        ctx.count('pony-schema:delete-refused:reference-cycle')
    if what.startswith('flush raised') and isinstance(det, dict) and det.get('oflush_of_deleted_object') is True:
        key = OFLUSH_DELETED_KEY
        ctx.count('oflush-of-deleted-object')
    elif not strict and what.startswith('flush raised OptimisticCheckError') and isinstance(det, dict) and det.get('preempted_by_on_delete') is True:
        key = PREEMPTED_UPDATE_KEY
        ctx.count('pony-schema:update-preempted-by-on-delete')
    if key not in (STRICT_DELETE_KEY, CYCLE_DELETE_KEY, PREEMPTED_UPDATE_KEY, STALE_DELETE_KEY, OFLUSH_DELETED_KEY) and not shrunk:
        spec2, hist2 = shrink(ctx, spec, hist, strict, what)
        return report(ctx, spec2, hist2, strict, what, detail, shrunk=True)
    if strict:
        what = 'with the ON DELETE clauses removed from the schema: ' + what
    ctx.violation(what, {'spec': spec, 'history': hist, 'strict': strict}, observed=det, expected='flush succeeds / database unchanged', key=key)

def run_corpus(ctx):
    """minimised past failures and the inputs that caught the mutants: run first, with the full oracle"""
    import glob, os
    runs = []
    for f in sorted(glob.glob(os.path.join(os.path.dirname(os.path.dirname(os.path.abspath(__file__))), 'corpus', 'C16', '*.json'))):
        d = json.load(open(f))
        r = Run(ctx, d['spec'], strict=bool(d.get('strict')), recorded=d['history']).run()
        runs.append(r)
        ctx.case({'corpus': os.path.basename(f)}, nontrivial=True, kind='corpus')
        for what, detail in r.problems:
            if what.startswith('infrastructure'): raise RuntimeError('%s: %r' % (what, detail))
            report(ctx, d['spec'], d['history'], bool(d.get('strict')), what, detail, shrunk=True)
    return runs

def run(ctx):
    n = ctx.scale(400, 6000)
    runs = run_corpus(ctx)
    runs += explore(ctx, False, n)
    runs += explore(ctx, True, ctx.scale(120, 2000))
    check_records(ctx, runs)
    check_fk_model(ctx, runs)
    check_delq(ctx, runs)

def replay(ctx, data):
    inp = data.get('input') or {}
    if 'spec' in inp and 'history' in inp:
        strict = bool(inp.get('strict'))
        r = Run(ctx, inp['spec'], strict=strict, recorded=inp['history']).run()
        ctx.case({'spec': inp['spec'], 'history': inp['history'], 'strict': strict}, kind='replay')
        for what, detail in r.problems:
            if what.startswith('infrastructure'): raise RuntimeError(what)
            report(ctx, inp['spec'], inp['history'], strict, what, detail, shrunk=True)
        check_records(ctx, [r]); check_fk_model(ctx, [r]); check_delq(ctx, [r])
    else:
        run(ctx)
